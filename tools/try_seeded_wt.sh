#!/bin/sh
# usage: try_seeded_wt.sh <seeded-dir-name> <Cxx> [tier]
# Like try_seeded.sh, but never touches /repo: the change is applied in a scratch git worktree of /repo's HEAD under /tmp,
# the check runs against it (PB_BSS_REPO) and writes evidence / replays into the scratch directory; everything is removed.
W=/tmp/mwt_$1_$$
git -C /repo worktree add --detach $W >/dev/null 2>&1 || exit 3
(cd $W && (git apply /verif/seeded/$1/patch.diff 2>/dev/null || patch -p1 -F3 -s < /verif/seeded/$1/patch.diff)) || { git -C /repo worktree remove --force $W; exit 3; }
find $W -name '*.orig' -delete; find $W -name '*.rej' -delete
mkdir -p $W.out
cd /verif && PB_BSS_REPO=$W VERIF_OUT=$W.out bin/check $2 --tier ${3:-quick} 2>&1 | tail -${TAIL:-8}
git -C /repo worktree remove --force $W >/dev/null 2>&1; git -C /repo worktree prune; rm -rf $W.out
