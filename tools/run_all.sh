#!/bin/sh
# run every claimed check (quick tier by default) on the current /repo tree; summary lines only
cd /verif
TIER=${1:-quick}
for id in $(python3 -c "import json;print(' '.join(c['property_id'] for c in json.load(open('MANIFEST.json'))['checks']))"); do
  bin/check $id --tier $TIER > /tmp/run_all_$id.log 2>&1; rc=$?
  echo "$id rc=$rc $(tail -1 /tmp/run_all_$id.log)"
done
