#!/bin/sh
# run every claimed check (quick tier by default) on the current /repo tree; summary lines only
cd "$(dirname "$0")/.." || exit 2
TIER=${1:-quick}
for id in $(python3 -c "import json;print(' '.join(c['property_id'] for c in json.load(open('MANIFEST.json'))['checks']))"); do
  start=$(date +%s)
  bin/check $id --tier $TIER > /tmp/run_all_${TIER}_${id}_${VERIF_SEED:-0}.log 2>&1; rc=$?
  echo "$id rc=$rc $(( $(date +%s) - start ))s $(tail -1 /tmp/run_all_${TIER}_${id}_${VERIF_SEED:-0}.log)"
done
