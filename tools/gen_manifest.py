#!/usr/bin/env python3
"""Regenerate MANIFEST.json and harness/levels.json from tools/claims.json (single source)."""
import json, os
V = os.path.dirname(os.path.dirname(os.path.abspath(__file__)))
claims = json.load(open(os.path.join(V, 'tools', 'claims.json')))
checks = []
levels = {}
for c in claims['checks']:
    pid = c['id']
    levels[pid] = c['level']
    checks.append(dict(
        property_id=pid,
        quick_cmd=f'bin/check {pid} --tier quick',
        thorough_cmd=f'bin/check {pid} --tier thorough',
        evidence_file=f'evidence/{pid}.json',
        replay_cmd_template=f'bin/check {pid} --replay {{path}}',
        engine='tlc-spec',
        level_claimed=dict(category=c['level'], text=c['text'], design_ref=c.get('design_ref', f'DESIGN.md section 5 {pid}')),
        level_note=c['note'],
        technique=c['technique'],
    ))
m = dict(
    version=1,
    setup_cmd='python3-vt -m harness.setup',
    hooks=dict(guard='PB_BSS_VERIF', enable='environment variable PB_BSS_VERIF=1 at import of pb_bss (pure Python, nothing to build)',
               baseline_off_cmd='cd /repo && env -u PB_BSS_VERIF /venv/bin/python -m pytest -ra -q -p no:cacheprovider --timeout=900 --continue-on-collection-errors',
               source_commits=claims.get('hook_commits', []), add_only=True),
    engines=[dict(name='tlc-spec', path='spec/', serves_properties=[c['id'] for c in claims['checks']],
                  kind_free_text='explicit TLA+ specification (spec/*.tla) checked by TLC: exhaustive instances (MC_*.cfg), '
                                 'TLC-generated cases/behaviours replayed into pb_bss, and recorded executions of pb_bss '
                                 'validated by trace specifications (Trace_*.tla)')],
    checks=checks,
    notes=claims.get('notes', ''),
    not_applicable=claims.get('not_applicable', []),
)
json.dump(m, open(os.path.join(V, 'MANIFEST.json'), 'w'), indent=1)
json.dump(levels, open(os.path.join(V, 'harness', 'levels.json'), 'w'), indent=1)
print('checks:', len(checks), 'not_applicable:', len(m['not_applicable']))
