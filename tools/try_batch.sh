#!/bin/sh
# usage: try_batch.sh "<seeded> <prop>" ...   prints one line per mutant: detected / MISSED
for pair in "$@"; do
  set -- $pair
  out=$(TAIL=400 /verif/tools/${TRY:-try_seeded_wt.sh} $1 $2 2>&1)
  if echo "$out" | grep -q "^VIOLATION"; then
    echo "$1 via $2: detected ($(echo "$out" | grep -c '^VIOLATION') groups; $(echo "$out" | grep '^  \[' | head -1 | cut -c1-140))"
  else
    echo "$1 via $2: MISSED   $(echo "$out" | tail -1 | cut -c1-120)"
  fi
done
