#!/bin/sh
# usage: try_seeded.sh <seeded-dir-name> <Cxx> [tier]   -- apply patch to /repo, run check, undo
cd /repo && (git apply /verif/seeded/$1/patch.diff 2>/dev/null || patch -p1 -F3 -s < /verif/seeded/$1/patch.diff) || { git checkout -- .; exit 3; }
find /repo -name '*.orig' -delete; find /repo -name '*.rej' -delete
cd /verif && bin/check $2 --tier ${3:-quick} 2>&1 | tail -${TAIL:-8}
git -C /repo checkout -- .
