#!/bin/sh
# usage: try_seeded.sh <seeded-dir-name> <Cxx> [tier]   -- apply patch to /repo, run check, undo
cd /repo && git apply /verif/seeded/$1/patch.diff || exit 3
cd /verif && bin/check $2 --tier ${3:-quick} 2>&1 | tail -${TAIL:-8}
echo "exit=$?"
git -C /repo checkout -- .
