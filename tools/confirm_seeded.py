#!/usr/bin/env python3
"""Confirm a sub-agent mutation in a fresh scratch worktree and store it under /verif/seeded.

usage: confirm_seeded.py <Cxx> <n> [srcroot=/tmp/wt] [dst_n=n]   (reads <srcroot>/<Cxx>.out/{patch,demo,meta}_<n>.*)
Checks: demo passes on clean tree, patch applies, demo fails with patch, pytest failure set
equals the clean tree's.  Removes the scratch worktree afterwards.
"""
import json, os, shutil, subprocess, sys, tempfile

pid, n = sys.argv[1], sys.argv[2]
root = sys.argv[3] if len(sys.argv) > 3 else '/tmp/wt'
dstn = sys.argv[4] if len(sys.argv) > 4 else n
src = f'{root}/{pid}.out'
patch, demo, meta = (f'{src}/patch_{n}.diff', f'{src}/demo_{n}.py', f'{src}/meta_{n}.json')
wt = tempfile.mkdtemp(prefix=f'confirm_{pid}_{n}_', dir='/tmp')
os.rmdir(wt)
ran = []
def sh(cmd, **kw):
    ran.append(cmd)
    return subprocess.run(cmd, shell=True, stdout=subprocess.PIPE, stderr=subprocess.STDOUT, text=True, **kw)
try:
    r = sh(f'git -C /repo worktree add --detach -f {wt} HEAD -q'); assert r.returncode == 0, r.stdout
    env = dict(os.environ, PYTHONPATH=wt)
    r0 = sh(f'cd {wt} && /venv/bin/python {demo}', env=env)
    assert r0.returncode == 0, ('demo fails on clean tree', r0.stdout[-2000:])
    r = sh(f'git -C {wt} apply {patch}'); assert r.returncode == 0, ('patch does not apply', r.stdout)
    r1 = sh(f'cd {wt} && /venv/bin/python {demo}', env=env)
    assert r1.returncode != 0, 'demo passes with patch'
    r = sh(f'cd {wt} && /venv/bin/python -m pytest -q -p no:cacheprovider --timeout=900 --continue-on-collection-errors '
           f'-o addopts="--doctest-modules --doctest-continue-on-failure" 2>&1 | grep -E "^(FAILED|ERROR)|passed" | sort')
    lines = r.stdout.strip().splitlines()
    fails = sorted(l for l in lines if l.startswith(('FAILED', 'ERROR')))
    base = sorted(l.rstrip('\n') for l in open(f'{root}/baseline_failures.txt'))
    assert fails == base, ('test results differ', set(fails) ^ set(base))
    summ = [l for l in lines if 'passed' in l]
    assert summ and ('542 passed' in summ[0] or '543 passed' in summ[0]), summ
    dst = f'/verif/seeded/{pid}_{dstn}'
    os.makedirs(dst, exist_ok=True)
    shutil.copy(patch, f'{dst}/patch.diff'); shutil.copy(demo, f'{dst}/demo.py')
    m = json.load(open(meta))
    m['confirmed'] = dict(demo_clean_rc=r0.returncode, demo_patched_rc=r1.returncode,
                          demo_patched_tail=r1.stdout[-400:], pytest=summ[0], ran=ran)
    json.dump(m, open(f'{dst}/meta.json', 'w'), indent=1)
    print('CONFIRMED', pid, n)
except AssertionError as e:
    print('REJECTED', pid, n, e)
finally:
    subprocess.run(f'git -C /repo worktree remove --force {wt}', shell=True)
