#!/bin/sh
# run the repository's baseline suite with the hook guard off; print summary and diff of the failure set
cd /repo && env -u PB_BSS_VERIF /venv/bin/python -m pytest -q -p no:cacheprovider --timeout=900 --continue-on-collection-errors -o addopts="--doctest-modules --doctest-continue-on-failure" 2>&1 | grep -E "^(FAILED|ERROR)|passed" | sort > /tmp/repo_tests.out
grep passed /tmp/repo_tests.out
grep -E "^(FAILED|ERROR)" /tmp/repo_tests.out | diff /verif/tools/baseline_failures.txt - && echo "failure set unchanged"; exit 0
