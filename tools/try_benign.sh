#!/bin/sh
# usage: try_benign.sh <patch-file> [Cxx ...]
# Applies a behaviour-preserving refactoring of pb_bss in a scratch worktree of /repo's HEAD and runs the quick checks of the
# given properties (default: all) against it.  Every VIOLATION printed here is a FALSE ALARM of the machinery.
P=$1; shift
W=/tmp/bwt_$(basename $P .diff)_$$
git -C /repo worktree add --detach $W >/dev/null 2>&1 || exit 3
(cd $W && git apply $P) || { git -C /repo worktree remove --force $W; echo "patch does not apply"; exit 3; }
mkdir -p $W.out
IDS="$@"; [ -z "$IDS" ] && IDS="C01 C02 C03 C04 C05 C06 C07 C08 C09 C10 C11 C12 C13 C14 C15 C16 C17 C18 C19 C20"
for id in $IDS; do
  out=$(cd /verif && PB_BSS_REPO=$W VERIF_OUT=$W.out bin/check $id --tier quick 2>&1)
  if echo "$out" | grep -q "^VIOLATION"; then echo "FALSE-ALARM $id: $(echo "$out" | grep '^  \[' | head -3 | cut -c1-220)"; else echo "$id ok $(echo "$out" | tail -1 | cut -c1-60)"; fi
done
git -C /repo worktree remove --force $W >/dev/null 2>&1; git -C /repo worktree prune; rm -rf $W.out
