SPECIFICATION Spec
CONSTANTS
  Ids = {1, 2}
  Kinds = {"bingham", "cbmm"}
  Stateful = {"watson", "cwmm", "bingham", "cbmm"}
  Dims = {3}
  MaxCs = {0, 50}
  Datas = {1, 2, 3}
  MaxLen = 7
INVARIANT ImplRefinesAbs
INVARIANT RejectsOnlyMismatch
