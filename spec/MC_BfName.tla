------------------------------ MODULE MC_BfName --------------------------------
EXTENDS BfName
VARIABLES name, pipe
Init == name \in AcceptedNames \cup RejectedNames /\ pipe = PipelineOf(name)
Next == UNCHANGED <<name, pipe>>
Spec == Init /\ [][Next]_<<name, pipe>>
AcceptedParse == name \in AcceptedNames <=> pipe.ok
BanOnlySuffix == pipe.ban => \E c \in DOMAIN Cores : name = BanName(c)
PreImpliesMain == /\ pipe.pre \in {"atf_pca", "atf_scaled_gev"} => pipe.main = "mvdr"
                  /\ pipe.pre \in {"rank1_pca", "rank1_gev"} => pipe.main \in {"mvdr_souden", "gev", "wmwf"}
NamesDistinct == \A a, b \in AcceptedNames : PipelineOf(a) = PipelineOf(b) => a = b
=============================================================================
