--------------------------------- MODULE Psd ----------------------------------
(***************************************************************************)
(* get_power_spectral_density_matrix and condition_covariance, exactly on  *)
(* Gaussian-integer observations and integer masks.                        *)
(*   R[l][k][d][e] = sum_t m[l][k][t] x[l][d][t] conj(x[l][e][t]) / N       *)
(*   N = max(sum_t m, 1e-10) (normalize), T (no mask), 1 (normalize=False)  *)
(* Results are <<numerator (Gaussian integer), denominator>>; a zero        *)
(* denominator (all-zero mask) means the exact result 0 (numerator is 0).   *)
(* Layout: sensor_dim / source_dim / time_dim are normalised with the       *)
(* OBSERVATION's rank (d % ndim); the source axis of the result sits at -3  *)
(* unless the normalised source_dim is < -2, then at index source_dim%ndim. *)
(***************************************************************************)
EXTENDS Num, Tensor

\* r: record with fields n (rank of obs), oshape, obs, sd, kd, td (raw ints), mtype, mshape, mask, normalize
Sd(r) == NormAxis(r.sd, r.n)
Td(r) == NormAxis(r.td, r.n)
Kd(r) == NormAxis(r.kd, r.n)
Lead(r) == KeepAxes(r.n, {Sd(r), Td(r)})
LeadShape(r) == SubShape(r.oshape, Lead(r))
D(r) == r.oshape[Sd(r) + 1]
T(r) == r.oshape[Td(r) + 1]
K(r) == IF r.mtype = "source" THEN r.mshape[Kd(r) + 1] ELSE 1
X(r, l, d, t) == At(r.obs, MkIdx(r.n, (Sd(r) :> d) @@ (Td(r) :> t), l))
M(r, l, k, t) ==
  CASE r.mtype = "none"   -> 1
    [] r.mtype = "plain"  -> At(r.mask, Append(l, t))          \* (lead..., T): time axis must be last
    [] r.mtype = "source" -> At(r.mask, MkIdx(r.n, (Kd(r) :> k) @@ (Td(r) :> t), l))
PsdNum(r, l, k, d, e) ==
  FoldLeft(LAMBDA acc, t : CAdd(acc, CScale(M(r, l, k, t), CMul(X(r, l, d, t), CConj(X(r, l, e, t))))),
           CZero, [i \in 1..T(r) |-> i - 1])
PsdDen(r, l, k) ==
  CASE r.mtype = "none" -> T(r)
    [] ~r.normalize -> 1
    [] OTHER -> FoldLeft(LAMBDA acc, t : acc + M(r, l, k, t), 0, [i \in 1..T(r) |-> i - 1])
SourceMoved(r) == r.mtype = "source" /\ Kd(r) < r.n - 2
OutShape(r) ==
  LET base == LeadShape(r)
      withk == IF r.mtype = "source"
               THEN (IF SourceMoved(r) THEN InsAt(base, Kd(r), K(r)) ELSE Append(base, K(r)))
               ELSE base
  IN  withk \o <<D(r), D(r)>>
\* decode an output index into <<l, k, d, e>>
Decode(r, o) ==
  LET no == Len(o)
      d == o[no - 1] e == o[no]
      rest == SubSeq(o, 1, no - 2)
  IN  IF r.mtype # "source" THEN <<rest, 0, d, e>>
      ELSE IF SourceMoved(r) THEN <<RemIdx(rest, Kd(r)), rest[Kd(r) + 1], d, e>>
      ELSE <<SubSeq(rest, 1, Len(rest) - 1), rest[Len(rest)], d, e>>

\* exact comparison of a reconstructed rational complex value c = <<<<p,q>>,<<p2,q2>>>> with num/den
EqRatC(c, num, den) ==
  IF den = 0 THEN c[1][1] = 0 /\ c[2][1] = 0
  ELSE c[1][1] * den = c[1][2] * num[1] /\ c[2][1] * den = c[2][2] * num[2]
IsRatC(c) == Len(c) = 2 /\ Len(c[1]) = 2 /\ Len(c[2]) = 2 /\ c[1][2] > 0 /\ c[2][2] > 0

(* condition_covariance(Phi, gamma) = (Phi + gamma tr(Phi)/D I) / (1 + gamma), gamma = g[1]/g[2] *)
\* element (a, b) of the result as <<numerator, denominator>>:
\*   (Phi_ab * D * g2 + [a=b] g1 * tr) / (D * (g2 + g1))
CondNum(phi, Dn, g, a, b) ==
  LET tr == CSum([i \in 1..Dn |-> phi[i][i]])
  IN  CAdd(CScale(Dn * g[2], phi[a][b]), IF a = b THEN CScale(g[1], tr) ELSE CZero)
CondDen(Dn, g) == Dn * (g[2] + g[1])
=============================================================================
