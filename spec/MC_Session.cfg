SPECIFICATION Spec
CONSTANTS
  Ids = {1, 2}
  Kinds = {"watson", "cwmm", "cacgmm"}
  Stateful = {"watson", "cwmm"}
  Dims = {2, 3}
  MaxCs = {500, 50, 0}
  Datas = {1, 2}
  MaxLen = 5
INVARIANT ImplRefinesAbs
INVARIANT RejectsOnlyMismatch
INVARIANT TableConsistent
