------------------------------- MODULE Trace_Num ------------------------------
(* Calibration of the Flt arithmetic against IEEE doubles (setup self test). *)
EXTENDS Num, TraceKit
VARIABLES l, verdicts
vars == <<l, verdicts>>

Res(r) == CASE r.op = "add" -> FAdd(r.a, r.b)
            [] r.op = "sub" -> FSub(r.a, r.b)
            [] r.op = "mul" -> FMul(r.a, r.b)
            [] r.op = "div" -> FDiv(r.a, r.b)
\* result within `u` mantissa units of the double result, relative to |a|+|b| for add/sub
Scale(r) == CASE r.op \in {"add", "sub"} -> FAdd(FAbs(r.a), FAbs(r.b))
              [] OTHER -> FAbs(r.r)
Check(r) == <<
   <<"typed", IsFlt(r.a) /\ IsFlt(r.b) /\ IsFlt(r.r)>>,
   <<"norm",  IsFlt(Res(r))>>,
   <<"close", Close(Res(r), r.r, Scale(r), 4)>>,
   <<"order", (FLt(r.a, r.b) <=> r.lt) /\ (FLe(r.a, r.b) <=> r.le)>> >>

Init == l = 1 /\ verdicts = <<>>
Next == /\ l <= Len(Trace)
        /\ verdicts' = Append(verdicts, Verdict(Trace[l].id, FailedOf(Check(Trace[l])), TRUE, ""))
        /\ l' = l + 1
Spec == Init /\ [][Next]_vars
FlushInv == Flush(l, verdicts)
=============================================================================
