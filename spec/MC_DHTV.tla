------------------------------- MODULE MC_DHTV --------------------------------
(* The DHTV procedure as a step machine over all small masks and all segment   *)
(* configurations.  One action per code step:                                  *)
(*   BeginIteration : centroid of the current features over the segment        *)
(*   AlignBin       : score matrix of one bin, greedy/optimal reassignment     *)
(*   EndIteration   : early exit when nothing changed / next iteration/segment *)
(* Invariants hold at EVERY step, not only at the end.                         *)
EXTENDS Alignment, TLC
CONSTANTS K, NF, T, Vals, Metrics, Algs
VARIABLES mask, cfg, plan, st, seg, left, f, changed, cen, done
vars == <<mask, cfg, plan, st, seg, left, f, changed, cen, done>>
Stft == 2 * (NF - 1)
Cfgs == {c \in (0..NF) \X (1..NF) \X (1..NF) : c[1] + c[2] <= NF /\ c[3] <= c[2]}
Init == /\ mask \in [1..K -> [1..NF -> [1..T -> Vals]]]
        /\ cfg \in Cfgs \X Metrics \X Algs
        /\ plan = Plan(Stft, cfg[1][1], cfg[1][2], cfg[1][3], 2, 1)
        /\ st = InitState(mask)
        /\ seg = 1 /\ left = 2 /\ f = 0 /\ changed = FALSE /\ cen = <<>> /\ done = FALSE
S0 == plan[seg][2]
E0 == plan[seg][3]
BeginIteration ==
  /\ ~done /\ f = 0
  /\ cen' = CentroidSum(st.feat, S0, E0)
  /\ f' = S0 + 1 /\ changed' = FALSE
  /\ UNCHANGED <<mask, cfg, plan, st, seg, left, done>>
AlignBinStep ==
  /\ ~done /\ f > 0 /\ f <= E0
  /\ LET r == AlignBin(cfg[2], cfg[3], st, f, cen, E0 - S0)
     IN  st' = r[1] /\ changed' = (changed \/ r[2])
  /\ f' = f + 1
  /\ UNCHANGED <<mask, cfg, plan, seg, left, cen, done>>
EndIteration ==
  /\ ~done /\ f = E0 + 1
  /\ IF changed /\ left > 1
     THEN /\ left' = left - 1 /\ UNCHANGED <<seg, done>>
     ELSE IF seg < Len(plan)
          THEN /\ seg' = seg + 1 /\ left' = plan[seg + 1][1] /\ UNCHANGED done
          ELSE /\ done' = TRUE /\ UNCHANGED <<seg, left>>
  /\ f' = 0
  /\ UNCHANGED <<mask, cfg, plan, st, changed, cen>>
Next == BeginIteration \/ AlignBinStep \/ EndIteration \/ (done /\ UNCHANGED vars)
Spec == Init /\ [][Next]_vars

PermPerBin  == IsPermPerBin(st.map, K, NF)
NetReorder  == ApplyMapping(mask, st.map) = st.feat
PlanCovers  == PlanCoversAll(plan, NF)
\* the run function used by the trace specification is the machine
RunAgrees   == done => LET r == DHTVRun(cfg[2], cfg[3], mask, plan) IN r.map = st.map /\ r.feat = st.feat
\* an already consistent, tie-free start is left alone
IdentityOnFixpoint == (done /\ ~st.tie /\ \A i \in 1..Len(plan) : ~Iteration(cfg[2], cfg[3], InitState(mask), plan[i][2], plan[i][3])[2])
                        => st.map = InitState(mask).map
=============================================================================
