-------------------------------- MODULE Trace_LL --------------------------------
(***************************************************************************)
(* Trace specification for C02: EM never decreases the mixture             *)
(* log-likelihood LL = sum_n ln sum_k w_k p_k(y_n).                        *)
(* One record per M-step of a hooked fit (in order; r.first starts a fit). *)
(* Per observation the encoder proposes ell_n = ln sum_k w_k p_k(y_n); it  *)
(* is ACCEPTED only if sum_k w_kn exp(lp_kn - ell_n) = 1, where the Exp    *)
(* kernel values are checked to be taken at the arguments computed here.   *)
(* LL is then summed here and compared with the previous iteration of the  *)
(* same fit (state variable prev).  Guards (eigenvalue floor, clipping     *)
(* bounds) are evaluated here from the logged parameters.                  *)
(***************************************************************************)
EXTENDS Num, Flat, TraceKit
VARIABLES l, verdicts, prev      \* prev = <<LL, scale, guardfree>> of the previous M-step of this fit, or <<>>
vars == <<l, verdicts, prev>>
SL == 64

Cols(r) == AllIdx(RemIdx(r.full, Len(r.full) - 2))
KOf(r) == r.full[Len(r.full) - 1]
Idx(r, c, k) == InsAt(c, Len(r.full) - 2, k)
EllAt(r, c) == Get(r.ell, c)
\* the proposed per-observation log-likelihoods are the logsumexp of ln w + lp
EllOK(r) ==
  \A i \in 1..Len(Cols(r)) :
     LET c == Cols(r)[i]
         terms == [k \in 1..KOf(r) |->
                     LET ix == Idx(r, c, k - 1)
                         e == r.kexp.data[Off(r.full, ix)]
                     IN  <<FMul(Get(r.w, ix), e.val),
                           \* kernel argument = lp - ell, evaluated here; tolerance: 20-bit representation of lp and ell
                           Close(e.arg, FSub(Get(r.lp, ix), EllAt(r, c)), FAdd(FAdd(FAbs(Get(r.lp, ix)), FAbs(EllAt(r, c))), FOne), 16)>>]
     IN  /\ \A k \in 1..KOf(r) : terms[k][2]
         /\ Close(FSum([k \in 1..KOf(r) |-> terms[k][1]]), FOne, FOne, 2048)
\* saliency-weighted: LL = sum_n s_n ell_n  (s_n = 1 without saliency)
LLOf(r) == FoldLeft(LAMBDA acc, i : LET x == FMul(IF r.has_sal THEN r.sal.data[i] ELSE FOne, r.ell.data[i])
                                    IN  <<FAdd(acc[1], x), FAdd(acc[2], FAbs(x))>>,
                    <<FZero, FZero>>, [i \in 1..Len(r.ell.data) |-> i])
\* no numerical guard active: eigenvalues >= 1e4 * floor, concentrations strictly inside their bounds
GuardFree(r) ==
  /\ \A i \in 1..Len(r.lam.data) : FLe(FMul(FInt(10000), r.floor), r.lam.data[i])
  /\ \A i \in 1..Len(r.kappa.data) : FLt(r.kmin, r.kappa.data[i]) /\ FLt(r.kappa.data[i], r.kmax)
FixHi(r) == FoldLeft(LAMBDA acc, x : acc + x, 0, r.fix_hi)
FixLo(r) == FSum(r.fix_lo)
\* hi/2^10 + lo reproduces s_n ell_n for every observation (ties the fixed-point terms to the verified ell)
FixOK(r) == \A i \in 1..Len(r.ell.data) :
               LET x == FMul(IF r.has_sal THEN r.sal.data[i] ELSE FOne, r.ell.data[i])
               IN  Close(FAdd(FMul(FInt(r.fix_hi[i]), FPow2(-10)), r.fix_lo[i]), x, FAdd(FAbs(x), FOne), 16)
OwnOK(r) == r.has_own => (IsFlt(r.own) /\ Close(r.own, LLOf(r)[1], FAdd(LLOf(r)[2], FOne), SL * 4))

Checks(r) ==
  IF r.exc # "" THEN << <<"raises", FALSE>> >>
  ELSE IF ~(\A i \in 1..Len(r.ell.data) : IsFlt(r.ell.data[i])) \/ ~(\A i \in 1..Len(r.lp.data) : IsFlt(r.lp.data[i]))
       THEN << <<"finite", FALSE>> >>
  ELSE << <<"ell_is_logsumexp", EllOK(r)>>,
          \* r.lp: the defining closed-form density at the stored parameters (encoder, NumPy / SciPy); r.lp_own: the model's
          \* own log_pdf, the one its E-step uses.  EM is monotone only if both are the same function
          <<"density_of_current_model", Len(r.lp_own.data) = Len(r.lp.data) /\ \A i \in 1..Len(r.lp.data) :
                IsFlt(r.lp_own.data[i]) /\ Close(r.lp_own.data[i], r.lp.data[i],
                                                 FAdd(FAdd(FAbs(r.lp.data[i]), FAbs(r.lp_own.data[i])), FOne), 256)>>,
          <<"monotone", (~r.first /\ prev # <<>> /\ prev[3] /\ GuardFree(r)) =>
                FLe(FSub(prev[1], FMul(FNorm(SL, -19), FAdd(prev[2], LLOf(r)[2]))), FAdd(LLOf(r)[1], r.mslack))>>,
          \* fine-grained comparison: the saliency-weighted terms s_n ell_n in fixed point (units 2^-10, exact integer
          \* sum) plus a small Flt remainder; resolution ~1e-6, tolerance 2^-15 + mslack
          <<"fixed_point_consistent", r.fine_ok => FixOK(r)>>,
          <<"monotone_fine", (~r.first /\ prev # <<>> /\ prev[3] /\ GuardFree(r) /\ r.fine_ok /\ prev[6]) =>
                LET dhi == FixHi(r) - prev[4]
                    d == FAdd(FInt(dhi) \* units 2^-10
                              , FMul(FPow2(10), FSub(FixLo(r), prev[5])))
                IN  FLe(FNeg(FAdd(FPow2(-5), FMul(FPow2(10), r.mslack))), d)>>,
          <<"own_log_likelihood", OwnOK(r)>> >>
NT(r) == r.exc = "" /\ ~r.first /\ prev # <<>> /\ prev[3]
         /\ (\A i \in 1..Len(r.ell.data) : IsFlt(r.ell.data[i])) /\ (\A i \in 1..Len(r.lp.data) : IsFlt(r.lp.data[i])) /\ GuardFree(r)
         /\ FLt(FAdd(prev[1], FMul(FNorm(SL, -19), FAdd(prev[2], LLOf(r)[2]))), LLOf(r)[1])    \* a real increase
Init == l = 1 /\ verdicts = <<>> /\ prev = <<>>
Next == /\ l <= Len(Trace)
        /\ LET r == Trace[l] IN
             /\ verdicts' = Append(verdicts, Verdict(r.id, FailedOf(Checks(r)), NT(r), ""))
             /\ prev' = IF r.exc = "" /\ (\A i \in 1..Len(r.ell.data) : IsFlt(r.ell.data[i]))
                        THEN <<LLOf(r)[1], LLOf(r)[2], GuardFree(r), IF r.fine_ok THEN FixHi(r) ELSE 0,
                               IF r.fine_ok THEN FixLo(r) ELSE FZero, r.fine_ok>> ELSE <<>>
        /\ l' = l + 1
Spec == Init /\ [][Next]_vars
FlushInv == Flush(l, verdicts)
=============================================================================
