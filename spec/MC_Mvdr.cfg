SPECIFICATION Spec
INVARIANT AdjugateSolves
INVARIANT SRealPositive
INVARIANT Distortionless
INVARIANT NoLatticeVectorBetter
INVARIANT SoudenReproducesReference
