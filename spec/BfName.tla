-------------------------------- MODULE BfName ---------------------------------
(* Grammar of get_bf_vector names -> pipeline of primitives.                     *)
(*   [pre  : "none" | "rank1_pca" | "rank1_gev" | "atf_pca" | "atf_scaled_gev",  *)
(*    main : "pca" | "mvdr" | "mvdr_souden" | "gev" | "wmwf" | "ch",             *)
(*    ch   : channel index (main = "ch"), ban : BOOLEAN]                         *)
EXTENDS Integers, Sequences, TLC

Pipe(pre, main) == [pre |-> pre, main |-> main, ch |-> 0, ban |-> FALSE, ok |-> TRUE]
CoreTable ==
  ("pca" :> Pipe("none", "pca")) @@
  ("pca+mvdr" :> Pipe("atf_pca", "mvdr")) @@
  ("scaled_gev_atf+mvdr" :> Pipe("atf_scaled_gev", "mvdr")) @@
  ("mvdr_souden" :> Pipe("none", "mvdr_souden")) @@
  ("rank1_pca+mvdr_souden" :> Pipe("rank1_pca", "mvdr_souden")) @@
  ("rank1_gev+mvdr_souden" :> Pipe("rank1_gev", "mvdr_souden")) @@
  ("gev" :> Pipe("none", "gev")) @@
  ("rank1_pca+gev" :> Pipe("rank1_pca", "gev")) @@
  ("rank1_gev+gev" :> Pipe("rank1_gev", "gev")) @@
  ("wmwf" :> Pipe("none", "wmwf")) @@
  ("rank1_pca+wmwf" :> Pipe("rank1_pca", "wmwf")) @@
  ("rank1_gev+wmwf" :> Pipe("rank1_gev", "wmwf"))
ChName(n) == "ch" \o ToString(n)
ChTable == [nm \in {ChName(n) : n \in 0..7} |->
              [Pipe("none", "ch") EXCEPT !.ch = CHOOSE n \in 0..7 : ChName(n) = nm]]
Cores == CoreTable @@ ChTable
BanName(c) == c \o "+ban"
AcceptedNames == DOMAIN Cores \cup {BanName(c) : c \in DOMAIN Cores}
RejectedNames == {"mvdr", "gev_ban", "lcmv", "lcmv+ban", "foo", "ch", "chx", "pca+gev", "rank1_pca", "ban", "+ban",
             "rank1_gev+mvdr", "mvdr_souden+BAN"}
Bad == [pre |-> "none", main |-> "none", ch |-> 0, ban |-> FALSE, ok |-> FALSE]
PipelineOf(name) ==
  IF name \in DOMAIN Cores THEN Cores[name]
  ELSE IF \E c \in DOMAIN Cores : BanName(c) = name
       THEN [Cores[CHOOSE c \in DOMAIN Cores : BanName(c) = name] EXCEPT !.ban = TRUE]
       ELSE Bad
\* which names need a noise PSD
NeedsNoise(p) == p.ban \/ p.main \in {"mvdr", "mvdr_souden", "gev", "wmwf"} \/ p.pre \in {"rank1_gev", "atf_scaled_gev"}
=============================================================================
