---------------------------- MODULE MC_Assignment -----------------------------
(* Exhaustive instance: every K x K score matrix over Vals.  The state carries *)
(* input and specified results so that -dump yields replayable cases.          *)
EXTENDS Assignment, TLC
CONSTANTS K, Vals
VARIABLES S, g, o
vars == <<S, g, o>>
Init == /\ S \in [1..K -> [1..K -> Vals]]
        /\ g = Greedy(S)
        /\ o = Optimal(S)
Next == UNCHANGED vars
Spec == Init /\ [][Next]_vars

GreedyIsPerm   == IsPerm(g, K)
OptimalIsPerm  == IsPerm(o, K)
OptimalIsMax   == \A p \in Perms(K) : Score(S, p) <= Score(S, o)
OptimalGeGreedy == Score(S, o) >= Score(S, g)
\* optimal = first maximiser in lexicographic order
OptimalIsFirst == \A p \in Perms(K) : Score(S, p) = Score(S, o) => LexLe(o, p)
\* the loop transcription (generation order, strict improvement) = declarative definition
OptimalSeqAgrees == OptimalSeq(S) = o
\* the fold used by the trace specs equals the declarative maximum
MaxSeqAgrees == MaxScoreSeq(S) = MaxScore(S) /\ PermSet(K) = Perms(K)
\* greedy picks a global maximum first
GreedyTakesMax == \E i \in 1..K : \A a, b \in 1..K : S[a][b] <= S[i][g[i]]
\* relabelling rows and columns consistently relabels the optimum value
OptValueEquivariant ==
  \A p \in Perms(K) :
     MaxScore([i \in 1..K |-> [j \in 1..K |-> S[p[i]][j]]]) = MaxScore(S)
=============================================================================
