SPECIFICATION Spec
CONSTANTS
  K = 4
  Vals = {0, 1}
INVARIANT GreedyIsPerm
INVARIANT OptimalIsPerm
INVARIANT OptimalIsMax
INVARIANT OptimalGeGreedy
INVARIANT OptimalIsFirst
INVARIANT GreedyTakesMax
INVARIANT OptimalSeqAgrees
INVARIANT MaxSeqAgrees
