SPECIFICATION Spec
CONSTANTS
  K = 2
  NF = 3
  T = 1
  Vals = {0, 1, 2}
  Metrics = {"multiply"}
  Algs = {"greedy"}
INVARIANT PermPerBin
INVARIANT NetReorder
INVARIANT PlanCovers
INVARIANT RunAgrees
INVARIANT IdentityOnFixpoint
