-------------------------------- MODULE Weights --------------------------------
(***************************************************************************)
(* Mixture-weight update of the mixture trainers.                          *)
(* aff : flat tensor (..L, K, N); sal : flat tensor (..L, N) or "none";      *)
(* wca : the weight_constant_axis argument as a sequence of raw axes and   *)
(*       wca_int = TRUE when it was passed as a plain int.                 *)
(* Standard trainers (estimate_mixture_weight):                            *)
(*   int axis == class axis  -> shape (K, 1), value 1/K                     *)
(*   saliency None           -> mean over the tied axes (keepdims)          *)
(*   saliency given          -> sum of aff*sal over the tied axes, then L1  *)
(*                              normalised over the class axis (0 -> 0)     *)
(* Integration trainers: class axis tied -> scalar 1/K; else sum of aff*sal *)
(*   over the tied axes, normalised over classes, tied axes squeezed.       *)
(* Results are <<num, den>> pairs over the numbers of the instance          *)
(* (integers here: aff in units of 1/AffDen).                               *)
(***************************************************************************)
EXTENDS Flat

Rank(aff) == Len(aff.shape)
ClassAx(aff) == Rank(aff) - 2
Axes(aff, wca) == {Ax(wca[i], Rank(aff)) : i \in 1..Len(wca)}
ClassTiedInt(aff, wca, wca_int) == wca_int /\ Ax(wca[1], Rank(aff)) = ClassAx(aff)
StdWeightShape(aff, wca, wca_int) ==
  IF ClassTiedInt(aff, wca, wca_int) THEN <<aff.shape[Rank(aff) - 1], 1>>
  ELSE KeepdimsShape(aff.shape, Axes(aff, wca))
IntWeightShape(aff, wca) ==
  IF ClassAx(aff) \in Axes(aff, wca) THEN <<>> ELSE SqueezedShape(aff.shape, Axes(aff, wca))
\* saliency value at an affiliation index (drop the class coordinate)
SalAt(sal, idx) == Get(sal, RemIdx(idx, Len(idx) - 2))
=============================================================================
