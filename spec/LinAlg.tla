-------------------------------- MODULE LinAlg ---------------------------------
(* Complex linear algebra over Flt (Num.tla): vectors are sequences of Z = <<re, im>>, *)
(* matrices sequences of rows.  Every reduction also returns the sum of absolute        *)
(* values of its terms (`scale`), so that comparisons are immune to cancellation.       *)
EXTENDS Num, TLC

Dim(v) == Len(v)
ZIsVec(v) == \A i \in 1..Len(v) : IsZ(v[i])
ZIsMat(m) == \A i \in 1..Len(m) : ZIsVec(m[i])
ZAbs1(a) == FAdd(FAbs(a[1]), FAbs(a[2]))
\* <x, y> = sum conj(x_i) y_i  -> <<value, scale>>
ZDotS(x, y) ==
  FoldLeft(LAMBDA acc, i : LET t == ZMul(ZConj(x[i]), y[i])
                           IN  <<ZAdd(acc[1], t), FAdd(acc[2], FMul(ZAbs1(x[i]), ZAbs1(y[i])))>>,
           <<ZZero, FZero>>, [i \in 1..Len(x) |-> i])
ZDot(x, y) == ZDotS(x, y)[1]
\* (M v)_i -> vector of <<value, scale>>
MatVecS(M, v) == TLCEval([i \in 1..Len(M) |-> ZDotS([j \in 1..Len(v) |-> ZConj(M[i][j])], v)])
MatVec(M, v) == TLCEval([i \in 1..Len(M) |-> MatVecS(M, v)[i][1]])
\* v^H M v  -> <<value, scale>>
QuadS(M, v) == LET mv == MatVecS(M, v)
               IN  FoldLeft(LAMBDA acc, i : <<ZAdd(acc[1], ZMul(ZConj(v[i]), mv[i][1])),
                                               FAdd(acc[2], FMul(ZAbs1(v[i]), mv[i][2]))>>,
                            <<ZZero, FZero>>, [i \in 1..Len(v) |-> i])
Norm2(v) == FSum([i \in 1..Len(v) |-> ZAbs2(v[i])])          \* |v|^2
Norm1(v) == FSum([i \in 1..Len(v) |-> ZAbs1(v[i])])
TraceM(M) == ZSum([i \in 1..Len(M) |-> M[i][i]])
MatAdd(A, B) == TLCEval([i \in 1..Len(A) |-> [j \in 1..Len(A[i]) |-> ZAdd(A[i][j], B[i][j])]])
MatScale(s, A) == TLCEval([i \in 1..Len(A) |-> [j \in 1..Len(A[i]) |-> ZScale(s, A[i][j])]])
Col(M, c) == TLCEval([i \in 1..Len(M) |-> M[i][c]])
\* x parallel to y : x_i y_j - x_j y_i = 0 for all i < j (scale |x_i||y_j| + |x_j||y_i|)
Parallel(x, y, slack) ==
  \A i, j \in 1..Len(x) : i < j =>
     ZClose(ZMul(x[i], y[j]), ZMul(x[j], y[i]),
            FAdd(FMul(ZAbs1(x[i]), ZAbs1(y[j])), FMul(ZAbs1(x[j]), ZAbs1(y[i]))), slack)
\* the same when x carries its own error scale: xs[i] = <<value, scale of the terms it was summed from>>
ParallelS(xs, y, slack) ==
  \A i, j \in 1..Len(xs) : i < j =>
     ZClose(ZMul(xs[i][1], y[j]), ZMul(xs[j][1], y[i]),
            FAdd(FMul(xs[i][2], ZAbs1(y[j])), FMul(xs[j][2], ZAbs1(y[i]))), slack)
\* <y, x> for x with error scales -> <<value, scale>>
DotYS(y, xs) ==
  FoldLeft(LAMBDA acc, i : <<ZAdd(acc[1], ZMul(ZConj(y[i]), xs[i][1])), FAdd(acc[2], FMul(ZAbs1(y[i]), xs[i][2]))>>,
           <<ZZero, FZero>>, [i \in 1..Len(y) |-> i])
VecClose(x, y, slack) ==     \* |x_i - y_i| <= slack 2^-19 (|x|_1 + |y|_1) / D-ish: use norm-wide scale
  LET sc == FAdd(Norm1(x), Norm1(y))
  IN  \A i \in 1..Len(x) : ZClose(x[i], y[i], sc, slack)
Hermitian(M, slack) == \A i, j \in 1..Len(M) : ZClose(M[i][j], ZConj(M[j][i]), FAdd(ZAbs1(M[i][j]), ZAbs1(M[j][i])), slack)
=============================================================================
