------------------------------ MODULE Trace_Extras -----------------------------
(* Trace specification binding Extras.tla to the code (growth beyond the listed  *)
(* properties; rejections are reported as OUTSIDE-PROPERTY notes).               *)
EXTENDS Extras, TraceKit
VARIABLES l, verdicts
vars == <<l, verdicts>>

IsRatSeq(w) == \A k \in 1..Len(w) : IsRat(w[k])
DirichletChecks(r) ==
  IF r.exc # "" THEN << <<"raises", FALSE>> >>
  ELSE LET want == IF r.uniform_axis THEN [k \in 1..Len(r.gamma) |-> <<1, Len(r.gamma)>>] ELSE DirichletWeight(r.gamma, r.alpha)
       IN  << <<"shape", r.shape = <<Len(r.gamma), 1>> >>,
              <<"rational", IsRatSeq(r.out)>>,
              <<"value", IsRatSeq(r.out) => \A k \in 1..Len(want) : REq(r.out[k], want[k])>>,
              <<"distribution", (IsRatSeq(r.out) /\ ColumnsSumToOne(r.gamma)) => IsDistribution(r.out)>> >>
SolveChecks(r) ==
  IF r.exc # "" THEN << <<"raises", FALSE>> >>
  ELSE << <<"shape", r.shape_ok>>, <<"dtype", r.dtype_ok>>,
          <<"finite", \A i \in 1..Len(r.items) : ZIsVec(r.items[i].x)>>,
          <<"regular_members_solved", \A i \in 1..Len(r.items) : LET it == r.items[i] IN
                (ZIsVec(it.x) /\ RankOf(it.A) = Len(it.A)) => StableSolveOK(it.A, it.b, it.Z, it.x)>>,
          \* it.detected : numpy.linalg.solve raises LinAlgError for this member alone (an exactly singular matrix whose
          \* elimination happens to round to a non-zero pivot is solved like a regular one - outside what the fallback can see)
          <<"singular_members_minimum_norm_least_squares", \A i \in 1..Len(r.items) : LET it == r.items[i] IN
                (ZIsVec(it.x) /\ RankOf(it.A) < Len(it.A) /\ it.detected) => StableSolveOK(it.A, it.b, it.Z, it.x)>> >>
MerlChecks(r) ==
  IF r.exc # "" THEN << <<"raises", FALSE>> >>
  ELSE IF ~(\A f \in 1..Len(r.items) : ZIsVec(r.items[f].w)) THEN << <<"finite", FALSE>> >>
  ELSE << <<"souden_of_one_reference", MerlReference(r.items, Len(r.cands)) # {}>>,
          <<"reference_maximises_post_snr", MerlBest(r.items, r.cands)>> >>
Checks(r) == CASE r.kind = "dirichlet" -> DirichletChecks(r)
               [] r.kind = "solve" -> SolveChecks(r)
               [] r.kind = "merl" -> MerlChecks(r)
NT(r) == r.exc = ""
Init == l = 1 /\ verdicts = <<>>
Next == /\ l <= Len(Trace)
        /\ LET r == Trace[l] IN verdicts' = Append(verdicts, Verdict(r.id, FailedOf(Checks(r)), NT(r), ""))
        /\ l' = l + 1
Spec == Init /\ [][Next]_vars
FlushInv == Flush(l, verdicts)
=============================================================================
