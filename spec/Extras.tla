-------------------------------- MODULE Extras ---------------------------------
(***************************************************************************)
(* Growth beyond the listed properties: three entry points of pb_bss that  *)
(* had no specification yet.                                               *)
(*                                                                         *)
(*  DirichletWeight   mixture_model_utils._estimate_mixture_weight_with_   *)
(*                    dirichlet_prior_concentration  (MAP weights)         *)
(*  StableSolveOK     math.solve.stable_solve: `solve` for every regular   *)
(*                    member of a stack, the minimum-norm least-squares    *)
(*                    solution for the members LAPACK reports as singular  *)
(*  MerlOK            extraction.beamformer.get_mvdr_vector_merl for a     *)
(*                    rank-one target: the Souden MVDR filter of the       *)
(*                    reference channel with the best post-filter SNR      *)
(*                                                                         *)
(* MC_Extras checks the algebraic facts about DirichletWeight on a lattice *)
(* exhaustively; Trace_Extras binds all three to the code.                 *)
(***************************************************************************)
EXTENDS Beamform

(* ----------------------------- Dirichlet prior ------------------------- *)
\* gamma : K rows of T rationals (posteriors), alpha : rational >= 1, or Inf (denominator 0)
ROne == <<1, 1>>
Inf == <<1, 0>>
RZero == <<0, 1>>
DirichletWeight(gamma, alpha) ==
  LET K == Len(gamma) T == Len(gamma[1])
  IN  [k \in 1..K |->
         IF alpha[2] = 0 THEN <<1, K>>
         ELSE LET a1 == RSub(alpha, ROne)
              IN  RDiv(RAdd(RSum(gamma[k]), a1), RAdd(RInt(T), RMul(a1, RInt(K))))]
MeanWeight(gamma) == [k \in 1..Len(gamma) |-> RDiv(RSum(gamma[k]), RInt(Len(gamma[1])))]
ColumnsSumToOne(gamma) ==
  \A t \in 1..Len(gamma[1]) : REq(RSum([k \in 1..Len(gamma) |-> gamma[k][t]]), ROne)
IsDistribution(w) == (\A k \in 1..Len(w) : RLe(RZero, w[k])) /\ REq(RSum(w), ROne)
RAbs(a) == <<Abs(a[1]), a[2]>>
\* distance of the weights from the uniform distribution
Spread(w) == RSum([k \in 1..Len(w) |-> RAbs(RSub(w[k], <<1, Len(w)>>))])

(* ----------------------------- stable_solve ---------------------------- *)
\* Gaussian-integer matrices (rows of <<re, im>>), D <= 3: exact determinant and rank
CDet2(a, b, c, d) == CSub(CMul(a, d), CMul(b, c))
CDet(A) ==
  CASE Len(A) = 1 -> A[1][1]
    [] Len(A) = 2 -> CDet2(A[1][1], A[1][2], A[2][1], A[2][2])
    [] Len(A) = 3 ->
         CAdd(CSub(CMul(A[1][1], CDet2(A[2][2], A[2][3], A[3][2], A[3][3])),
                   CMul(A[1][2], CDet2(A[2][1], A[2][3], A[3][1], A[3][3]))),
              CMul(A[1][3], CDet2(A[2][1], A[2][2], A[3][1], A[3][2])))
IsZeroMat(A) == \A i, j \in 1..Len(A) : A[i][j] = CZero
HasMinor2(A) == \E i, j, k, m \in 1..Len(A) : i < j /\ k < m /\ CDet2(A[i][k], A[i][m], A[j][k], A[j][m]) # CZero
RankOf(A) ==
  LET D == Len(A)
  IN  IF CDet(A) # CZero THEN D
      ELSE IF IsZeroMat(A) THEN 0
      ELSE IF D = 3 /\ HasMinor2(A) THEN 2
      ELSE 1
CMatVecI(M, v) == [i \in 1..Len(M) |-> CSum([j \in 1..Len(v) |-> CMul(M[i][j], v[j])])]
IsNullVector(A, z) == (\E i \in 1..Len(z) : z[i] # CZero) /\ \A i \in 1..Len(A) : CMatVecI(A, z)[i] = CZero
Independent(Z) ==
  CASE Len(Z) <= 1 -> TRUE
    [] Len(Z) = 2 -> \E i, j \in 1..Len(Z[1]) : CMul(Z[1][i], Z[2][j]) # CMul(Z[1][j], Z[2][i])
    [] Len(Z) = 3 -> CDet(Z) # CZero
\* a basis of the null space, checked here (not trusted): right size, every member annihilated, independent
IsNullBasis(A, Z) == /\ Len(Z) = Len(A) - RankOf(A)
                     /\ \A q \in 1..Len(Z) : IsNullVector(A, Z[q])
                     /\ Independent(Z)
ZOfC(c) == <<FInt(c[1]), FInt(c[2])>>
ZMatOfC(A) == [i \in 1..Len(A) |-> [j \in 1..Len(A[i]) |-> ZOfC(A[i][j])]]
ZVecOfC(v) == [i \in 1..Len(v) |-> ZOfC(v[i])]
Adjoint(A) == [i \in 1..Len(A) |-> [j \in 1..Len(A) |-> ZConj(A[j][i])]]
\* A x = b  (residual against the scale of the terms)
SolvesExactly(A, b, x) ==
  LET ax == MatVecS(A, x)
  IN  \A i \in 1..Len(b) : ZClose(ax[i][1], b[i], FAdd(ax[i][2], ZAbs1(b[i])), SLK)
\* normal equations A^H (A x - b) = 0
LeastSquares(A, b, x) ==
  LET ax == MatVecS(A, x)
      res == [i \in 1..Len(b) |-> <<ZSub(ax[i][1], b[i]), FAdd(ax[i][2], ZAbs1(b[i]))>>]
      ah == Adjoint(A)
  IN  \A i \in 1..Len(b) :
        LET s == FoldLeft(LAMBDA acc, j : <<ZAdd(acc[1], ZMul(ah[i][j], res[j][1])), FAdd(acc[2], FMul(ZAbs1(ah[i][j]), res[j][2]))>>,
                          <<ZZero, FZero>>, [j \in 1..Len(b) |-> j])
        IN  ZClose(s[1], ZZero, s[2], SLK)
\* minimum norm: x is orthogonal to the null space
MinimumNorm(Z, x) == \A q \in 1..Len(Z) : LET d == ZDotS(ZVecOfC(Z[q]), x) IN ZClose(d[1], ZZero, d[2], SLK)
\* one member of the stack: A, b Gaussian integers, Z the claimed null basis, x the code's answer (Flt)
StableSolveOK(A, b, Z, x) ==
  IF RankOf(A) = Len(A) THEN SolvesExactly(ZMatOfC(A), ZVecOfC(b), x)
  ELSE /\ IsNullBasis(A, Z)
       /\ LeastSquares(ZMatOfC(A), ZVecOfC(b), x)
       /\ MinimumNorm(Z, x)

(* ----------------------------- MERL MVDR ------------------------------- *)
\* items[f] = [phin, a, w]; cands[c][f] = the Souden filter for reference c (checked to be one);
\* post-filter SNR of reference c: sum_f |w^H a|^2 / sum_f w^H Phi_nn w  (-> <<num, den>>)
MerlSnr(items, ws) ==
  <<FSum([f \in 1..Len(items) |-> ZAbs2(ZDotS(ws[f], items[f].a)[1])]),
    FSum([f \in 1..Len(items) |-> QuadS(items[f].phin, ws[f])[1][1]])>>
\* a/b >= (1 - eps) c/d for positive denominators
SnrNotBelow(x, y) == FLe(FMul(FMul(y[1], x[2]), FSub(FOne, FNorm(4 * SLK, -19))), FMul(x[1], y[2]))
\* the filter is the Souden MVDR filter of one reference channel, the same for every bin ...
MerlReference(items, D) == {c \in 1..D : \A f \in 1..Len(items) : SoudenOK(items[f].phin, items[f].a, items[f].w, c)}
\* ... namely of a channel with the largest post-filter SNR (docstring: "selects a reference channel that maximizes the post-SNR")
MerlBest(items, cands) ==
  \A c2 \in 1..Len(cands) :
     /\ \A f \in 1..Len(items) : SoudenOK(items[f].phin, items[f].a, cands[c2][f], c2)
     /\ SnrNotBelow(MerlSnr(items, [f \in 1..Len(items) |-> items[f].w]), MerlSnr(items, cands[c2]))
MerlOK(items, cands) == MerlReference(items, Len(cands)) # {} /\ MerlBest(items, cands)
=============================================================================
