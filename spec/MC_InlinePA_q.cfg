SPECIFICATION Spec
CONSTANTS
  K = 2
  T = 1
INVARIANT NeverWorseThanIdentity
INVARIANT OptimumInvariant
INVARIANT PosteriorIsDistribution
