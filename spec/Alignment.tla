------------------------------ MODULE Alignment -------------------------------
(***************************************************************************)
(* Frequency permutation alignment of pb_bss.permutation_alignment:        *)
(*  - score matrices S[k_ref][k_est] ('multiply' exact; 'euclidean' by     *)
(*    negative SQUARED distance, order-equivalent for greedy decisions)    *)
(*  - the DHTV alignment plan and the DHTV procedure as a step machine     *)
(*    (BeginIteration, AlignBin(f), EndIteration) and as a run function    *)
(*    built from the same step operators                                   *)
(*  - the greedy adjacent-bin aligner and the oracle aligner               *)
(* Masks are K x F x T tensors of integers m[k][f][t]; bins are 1-based    *)
(* here, segments are given 0-based half open [s, e) as in the code.       *)
(***************************************************************************)
EXTENDS Assignment, TLC

Dot(a, b)   == FoldLeft(LAMBDA acc, t : acc + a[t] * b[t], 0, [t \in 1..Len(a) |-> t])
SqDist(a, b) == FoldLeft(LAMBDA acc, t : acc + (a[t] - b[t]) * (a[t] - b[t]), 0, [t \in 1..Len(a) |-> t])

\* est, ref : K x T  (rows of one bin).  S[kref][kest]
ScoreMul(est, ref) == TLCEval([i \in 1..Len(ref) |-> [j \in 1..Len(est) |-> Dot(est[j], ref[i])]])
ScoreEucSq(est, ref) == TLCEval([i \in 1..Len(ref) |-> [j \in 1..Len(est) |-> -SqDist(est[j], ref[i])]])
\* 'cos' for non-negative integer rows without zero rows: cos_ij = a_ij / sqrt(b_j c_i) >= 0 has the order of
\* a_ij^2 / (b_j c_i); multiplied by the product of ALL squared norms this is the integer a_ij^2 prod_{j' # j} b_j' prod_{i' # i} c_i'
\* (ties are preserved exactly)
ProdExcept(v, x) == FoldLeft(LAMBDA acc, q : IF q = x THEN acc ELSE acc * v[q], 1, [q \in 1..Len(v) |-> q])
ScoreCosSq(est, ref) ==
  LET b == [j \in 1..Len(est) |-> Dot(est[j], est[j])]
      c == [i \in 1..Len(ref) |-> Dot(ref[i], ref[i])]
  IN  TLCEval([i \in 1..Len(ref) |-> [j \in 1..Len(est) |-> Dot(est[j], ref[i]) * Dot(est[j], ref[i]) * ProdExcept(b, j) * ProdExcept(c, i)]])
CosComparable(mask) == \A k \in 1..Len(mask), f \in 1..Len(mask[1]) :
                          (\A t \in 1..Len(mask[k][f]) : mask[k][f][t] >= 0) /\ (\E t \in 1..Len(mask[k][f]) : mask[k][f][t] > 0)
ScoreOf(metric, est, ref) == IF metric = "euclidean" THEN ScoreEucSq(est, ref)
                             ELSE IF metric = "cos" THEN ScoreCosSq(est, ref) ELSE ScoreMul(est, ref)
Assign(alg, S) == IF alg = "greedy" THEN Greedy(S) ELSE OptimalSeq(S)
\* 'euclidean' is modelled by SQUARED distances: same order of entries (greedy decisions exact),
\* but sums over permutations are not comparable -> optimal+euclidean is not replayed exactly
ExactComparable(metric, alg) == ~(metric \in {"euclidean", "cos"} /\ alg = "optimal")
AssignTie(alg, S) == IF alg = "greedy" THEN GreedyHasTie(S) ELSE OptimalHasTie(S)

BinRows(m, f) == TLCEval([k \in 1..Len(m) |-> m[k][f]])

(****************************** DHTV plan *********************************)
\* python range(a, b, step) for step > 0, and range(a, 0, -step)
RangeUp(a, b, step) == LET n == IF b > a THEN (b - a + step - 1) \div step ELSE 0
                       IN  [i \in 1..n |-> a + (i - 1) * step]
RangeDown(a, step)  == LET n == IF a > 0 THEN (a + step - 1) \div step ELSE 0
                       IN  [i \in 1..n |-> a - (i - 1) * step]
Interleave2(A, B) ==
  LET n == IF Len(A) > Len(B) THEN Len(A) ELSE Len(B)
  IN  FoldLeft(LAMBDA acc, i : acc \o (IF i <= Len(A) THEN <<A[i]>> ELSE <<>>)
                                   \o (IF i <= Len(B) THEN <<B[i]>> ELSE <<>>),
               <<>>, [i \in 1..n |-> i])
PlanValid(stft, start, width) == start + width <= stft \div 2 + 1
\* plan entries <<iterations, s, e>>
Plan(stft, start, width, shift, mainIt, subIt) ==
  LET F == stft \div 2 + 1
      lowS == RangeUp(start + shift, F - width, shift)
      highS == RangeDown(start - shift, shift)
      low0 == [i \in 1..Len(lowS) |-> <<subIt, lowS[i], lowS[i] + width>>]
      high0 == [i \in 1..Len(highS) |-> <<subIt, highS[i], highS[i] + width>>]
      low == IF Len(low0) > 0 THEN [low0 EXCEPT ![Len(low0)][3] = F] ELSE low0
      high == IF Len(high0) > 0 THEN [high0 EXCEPT ![Len(high0)][2] = 0] ELSE high0
      first == <<mainIt,
                 IF Len(high0) > 0 THEN start ELSE 0,
                 IF Len(low0) > 0 THEN start + width ELSE F>>
  IN  <<first>> \o Interleave2(low, high)
Covered(plan) == UNION {(plan[i][2] + 1)..plan[i][3] : i \in 1..Len(plan)}   \* 1-based bins
PlanCoversAll(plan, F) == Covered(plan) = 1..F
\* share of segment i's bins already covered by earlier segments, as a comparison 3*|common| >= 2*|seg|
OverlapTwoThirds(plan) ==
  \A i \in 2..Len(plan) :
     LET seg == (plan[i][2] + 1)..plan[i][3]
         before == UNION {(plan[j][2] + 1)..plan[j][3] : j \in 1..(i - 1)}
     IN  3 * Cardinality(seg \cap before) >= 2 * Cardinality(seg)

(*************************** DHTV procedure *******************************)
\* state: [feat, map, tie]   feat: K x F x T, map: K x F (1-based class ids)
CentroidSum(feat, s, e) ==   \* K x T sums over bins s+1..e (mean = sum / (e-s): same order)
  TLCEval([k \in 1..Len(feat) |->
     [t \in 1..Len(feat[k][1]) |->
        FoldLeft(LAMBDA acc, f : acc + feat[k][f][t], 0, [i \in 1..(e - s) |-> s + i])]])
\* score of bin f against the centroid; for 'euclidean' the centroid is the MEAN, so compare
\* L*feat with the sum (L = e - s) to stay in integers: -(L*x - sum)^2 has the order of -(x - mean)^2
BinScore(metric, feat, f, cen, L) ==
  IF metric = "euclidean"
  THEN ScoreEucSq(TLCEval([k \in 1..Len(feat) |-> [t \in 1..Len(feat[k][f]) |-> L * feat[k][f][t]]]), cen)
  ELSE ScoreMul(BinRows(feat, f), cen)
\* (TLC evaluates function constructors lazily and re-evaluates them at every application;
\*  TLCEval forces the explicit value - without it the run is exponential in the number of bins)
PermuteBin(x, f, rp) == TLCEval([k \in 1..Len(x) |-> [x[k] EXCEPT ![f] = x[rp[k]][f]]])
\* one bin: returns <<state', changed>>
AlignBin(metric, alg, st, f, cen, L) ==
  LET S == BinScore(metric, st.feat, f, cen, L)
      rp == Assign(alg, S)
      tie == AssignTie(alg, S)
  IN  IF rp = IdPerm(Len(st.feat))
      THEN <<[st EXCEPT !.tie = st.tie \/ tie], FALSE>>
      ELSE <<[feat |-> PermuteBin(st.feat, f, rp), map |-> PermuteBin(st.map, f, rp),
              tie |-> st.tie \/ tie], TRUE>>
\* one iteration over a segment: <<state', changed>>
Iteration(metric, alg, st, s, e) ==
  LET cen == CentroidSum(st.feat, s, e)
  IN  FoldLeft(LAMBDA acc, f : LET r == AlignBin(metric, alg, acc[1], f, cen, e - s)
                               IN  <<r[1], acc[2] \/ r[2]>>,
               <<st, FALSE>>, [i \in 1..(e - s) |-> s + i])
RECURSIVE SegmentRun(_, _, _, _, _, _)
SegmentRun(metric, alg, st, s, e, left) ==
  IF left = 0 THEN st
  ELSE LET r == Iteration(metric, alg, st, s, e)
       IN  IF r[2] THEN SegmentRun(metric, alg, r[1], s, e, left - 1) ELSE r[1]
InitState(mask) == [feat |-> mask,
                    map |-> [k \in 1..Len(mask) |-> [f \in 1..Len(mask[1]) |-> k]],
                    tie |-> FALSE]
DHTVRun(metric, alg, mask, plan) ==
  FoldLeft(LAMBDA st, i : SegmentRun(metric, alg, st, plan[i][2], plan[i][3], plan[i][1]),
           InitState(mask), [i \in 1..Len(plan) |-> i])

(************************ greedy adjacent-bin aligner *********************)
\* mapping[:, 1] = identity; mapping[:, f] = local_f[mapping[:, f-1]] with
\* local_f = Greedy(score(mask[:, f], mask[:, f-1]))    (the code always uses 'greedy' here)
GreedyPARun(metric, mask) ==
  LET K == Len(mask) F == Len(mask[1])
      local(f) == Greedy(ScoreOf(metric, BinRows(mask, f), BinRows(mask, f - 1)))
      cols == FoldLeft(LAMBDA acc, f : Append(acc, LET lf == local(f) IN TLCEval([k \in 1..K |-> lf[acc[f - 1][k]]])),
                       <<IdPerm(K)>>, [i \in 1..(F - 1) |-> i + 1])
  IN  TLCEval([k \in 1..K |-> [f \in 1..F |-> cols[f][k]]])
GreedyPATie(metric, mask) ==
  \E f \in 2..Len(mask[1]) : GreedyHasTie(ScoreOf(metric, BinRows(mask, f), BinRows(mask, f - 1)))

(****************************** oracle ************************************)
OracleRun(metric, alg, mask, ref) ==
  LET K == Len(mask) F == Len(mask[1])
      col(f) == Assign(alg, ScoreOf(metric, BinRows(mask, f), BinRows(ref, f)))
      cols == TLCEval([f \in 1..F |-> col(f)])
  IN  TLCEval([k \in 1..K |-> [f \in 1..F |-> cols[f][k]]])
OracleTie(metric, alg, mask, ref) ==
  \E f \in 1..Len(mask[1]) : AssignTie(alg, ScoreOf(metric, BinRows(mask, f), BinRows(ref, f)))
=============================================================================
