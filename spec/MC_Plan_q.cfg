SPECIFICATION Spec
CONSTANTS
  MaxStft = 24
INVARIANT PlanCovers
INVARIANT SegmentsInRange
INVARIANT FirstIsMain
