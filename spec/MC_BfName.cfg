SPECIFICATION Spec
INVARIANT AcceptedParse
INVARIANT BanOnlySuffix
INVARIANT PreImpliesMain
INVARIANT NamesDistinct
