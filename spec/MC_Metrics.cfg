SPECIFICATION Spec
CONSTANTS
  Vals <- ValsQ
INVARIANT SdrBelowBoth
INVARIANT SelectionMaximises
INVARIANT OutputOrderInvariant
INVARIANT ImageScaling
