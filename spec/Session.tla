-------------------------------- MODULE Session --------------------------------
(***************************************************************************)
(* Call sessions on reusable trainer objects (C20: history-freedom).       *)
(* Trainers of the kinds in Stateful keep state between fits:              *)
(*   dimension : given at construction or inferred by the first fit, then  *)
(*               asserted (a different feature dimension is REJECTED)      *)
(*   table     : lazily built helper (Watson spline / inner trainer),      *)
(*               built at first use from (dimension, max_concentration)    *)
(* SessionImpl transcribes that cache semantics; SessionAbs is the         *)
(* history-free meaning: the result of an accepted fit is a function of    *)
(* (kind, D, maxc, data) only.  ImplRefinesAbs is the invariant.           *)
(***************************************************************************)
EXTENDS Integers, Sequences, FiniteSets, TLC

CONSTANTS Ids, Kinds, Stateful, Dims, MaxCs, Datas, MaxLen
None == 0
VARIABLES tr,      \* id -> [kind, dim, maxc, table]  or  None-record for unused ids
          hist,    \* sequence of performed operations with their outcome (for replay)
          last     \* outcome of the last operation
vars == <<tr, hist, last>>

Unused == [kind |-> "none", dim |-> None, maxc |-> None, table |-> <<>>]
\* the history-free function a fit computes (uninterpreted: the tuple of its arguments)
F(kind, D, maxc, data) == <<kind, D, IF kind \in Stateful THEN maxc ELSE None, data>>
\* what the implementation computes: it uses the cached table when present
Impl(t, D, data) == IF t.kind \in Stateful
                    THEN <<t.kind, (IF t.table = <<>> THEN D ELSE t.table[1]),
                           (IF t.table = <<>> THEN t.maxc ELSE t.table[2]), data>>
                    ELSE <<t.kind, D, None, data>>

Init == /\ tr = [i \in Ids |-> Unused]
        /\ hist = <<>>
        /\ last = [op |-> "init"]

New(i, k, d, m) ==
  /\ Len(hist) < MaxLen
  /\ tr[i].kind = "none"
  /\ tr' = [tr EXCEPT ![i] = [kind |-> k, dim |-> d, maxc |-> m, table |-> <<>>]]
  /\ last' = [op |-> "new", id |-> i, kind |-> k, dim |-> d, maxc |-> m]
  /\ hist' = Append(hist, last')

Fit(i, D, data) ==
  /\ Len(hist) < MaxLen
  /\ tr[i].kind # "none"
  /\ LET t == tr[i]
         ok == t.kind \notin Stateful \/ t.dim = None \/ t.dim = D
         t2 == IF ok /\ t.kind \in Stateful
               THEN [t EXCEPT !.dim = D, !.table = IF t.table = <<>> THEN <<D, t.maxc>> ELSE t.table]
               ELSE t
     IN  /\ tr' = [tr EXCEPT ![i] = t2]
         /\ last' = [op |-> "fit", id |-> i, D |-> D, data |-> data, accepted |-> ok,
                     result |-> IF ok THEN Impl(t2, D, data) ELSE <<>>,
                     abs |-> F(t.kind, D, t.maxc, data), dim_after |-> t2.dim]
         /\ hist' = Append(hist, last')

Next == \/ \E i \in Ids, k \in Kinds, d \in Dims \cup {None}, m \in MaxCs : New(i, k, d, m)
        \/ \E i \in Ids, D \in Dims, data \in Datas : Fit(i, D, data)
Spec == Init /\ [][Next]_vars

\* an accepted fit returns the history-free function of its arguments
ImplRefinesAbs == last.op = "fit" => (last.accepted => last.result = last.abs)
\* a fit is rejected exactly when the trainer already holds a different dimension
RejectsOnlyMismatch == last.op = "fit" =>
   (~last.accepted <=> (tr[last.id].kind \in Stateful /\ tr[last.id].dim # None /\ tr[last.id].dim # last.D))
\* the cached table always matches the trainer's dimension and constructor arguments
\* view for exhaustive checking: the history variable only serves replay
View == <<tr, last>>
TableConsistent == \A i \in Ids : tr[i].table # <<>> => tr[i].table = <<tr[i].dim, tr[i].maxc>>
=============================================================================
