--------------------------------- MODULE Utils ---------------------------------
(***************************************************************************)
(* Pure layout helpers of pb_bss.utils / permutation_alignment that the    *)
(* mixture models and aligners build on (growth of the root specification  *)
(* beyond the listed properties).                                          *)
(*   Unsqueeze(shape, axes)      : insert singleton axes at the given      *)
(*                                 positions of the RESULT (axes mod rank) *)
(*   OneHotShape / OneHotAt      : labels_to_one_hot for every axis and    *)
(*                                 keepdims                                *)
(*   Interleave(lists)           : round-robin merge of unequal lists      *)
(*   BroadcastCompatible(shapes) : is_broadcast_compatible                 *)
(***************************************************************************)
EXTENDS Flat, Num

UnsqueezeShape(shape, axes) ==
  LET R == Len(shape) + Len(axes)
      pos == {Ax(axes[i], R) : i \in 1..Len(axes)}
      keep == SelectSeq(Iota(R), LAMBDA i : (i - 1) \notin pos)
  IN  [i \in 1..R |-> IF (i - 1) \in pos THEN 1 ELSE shape[CHOOSE j \in 1..Len(keep) : keep[j] = i]]
UnsqueezeInRange(shape, axes) ==
  LET R == Len(shape) + Len(axes) IN \A i \in 1..Len(axes) : axes[i] >= -R /\ axes[i] < R
\* axes that denote the same position twice are an unspecified corner (the code inserts twice at that position)
UnsqueezeDistinct(shape, axes) ==
  LET R == Len(shape) + Len(axes) IN Cardinality({Ax(axes[i], R) : i \in 1..Len(axes)}) = Len(axes)
UnsqueezeValid(shape, axes) == UnsqueezeInRange(shape, axes) /\ UnsqueezeDistinct(shape, axes)

\* labels: flat integer tensor; result shape and element
OneHotAxis(lshape, axis, keepdims) ==
  LET R == IF keepdims THEN Len(lshape) ELSE Len(lshape) + 1 IN IF axis < 0 THEN axis + R ELSE axis
OneHotShape(lshape, C, axis, keepdims) ==
  LET a == OneHotAxis(lshape, axis, keepdims)
  IN  IF keepdims THEN [lshape EXCEPT ![a + 1] = C] ELSE InsAt(lshape, a, C)
OneHotAt(labels, C, axis, keepdims, idx) ==      \* idx: index into the result
  LET a == OneHotAxis(labels.shape, axis, keepdims)
      c == idx[a + 1]
      lidx == IF keepdims THEN [idx EXCEPT ![a + 1] = 0] ELSE RemIdx(idx, a)
  IN  Get(labels, lidx) = c

RECURSIVE InterleaveRec(_, _)
InterleaveRec(lists, acc) ==
  IF \A i \in 1..Len(lists) : lists[i] = <<>> THEN acc
  ELSE LET heads == FoldLeft(LAMBDA a, i : IF lists[i] = <<>> THEN a ELSE Append(a, Head(lists[i])), <<>>, Iota(Len(lists)))
           tails == [i \in 1..Len(lists) |-> IF lists[i] = <<>> THEN <<>> ELSE Tail(lists[i])]
       IN  InterleaveRec(tails, acc \o heads)
InterleaveLists(lists) == InterleaveRec(lists, <<>>)

(* ---- small numeric helpers, exact on integer / Gaussian-integer lattices ---- *)
\* _unit_norm with ord = 1 along one axis: x / f(sum |x|), f = norm + eps ('plus'), max(norm, eps) ('max'),
\* eps where norm = 0 else norm ('where'); eps = <<en, ed>> rational; x: flat integer tensor; result rational per entry
L1Group(x, axis, idx) ==       \* indices sharing all coordinates of idx except `axis`
  LET a == Ax(axis, Len(x.shape)) IN [j \in 1..x.shape[a + 1] |-> [idx EXCEPT ![a + 1] = j - 1]]
UnitNormDen(x, axis, style, eps, idx) ==
  LET g == L1Group(x, axis, idx)
      n == SumSeq([j \in 1..Len(g) |-> Abs(Get(x, g[j]))])
  IN  CASE style = "plus" -> RAdd(RInt(n), eps)
        [] style = "max" -> IF RLe(RInt(n), eps) THEN eps ELSE RInt(n)
        [] OTHER -> IF n = 0 THEN eps ELSE RInt(n)
UnitNormAt(x, axis, style, eps, idx) == RDiv(RInt(Get(x, idx)), UnitNormDen(x, axis, style, eps, idx))
\* force_hermitian on a Gaussian-integer matrix: (M + M^H) / 2, entries as pairs of rationals
HermAt(M, i, j) == LET s == CAdd(M[i][j], CConj(M[j][i])) IN <<RNorm(s[1], 2), RNorm(s[2], 2)>>
\* STFT bin centre frequencies k fs / size, k = 0 .. size/2
CenterFrequencies(size, fs) == [k \in 1..(size \div 2 + 1) |-> RNorm((k - 1) * fs, size)]

BroadcastCompatible(shapes) ==
  LET n == Len(shapes)
      minr == IF n = 0 THEN 0 ELSE FoldLeft(LAMBDA a, i : IF Len(shapes[i]) < a THEN Len(shapes[i]) ELSE a, Len(shapes[1]), Iota(n))
  IN  n < 2 \/ \A d \in 1..minr :
        Cardinality({shapes[i][Len(shapes[i]) + 1 - d] : i \in 1..n} \cup {1}) <= 2
=============================================================================
