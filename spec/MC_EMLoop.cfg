SPECIFICATION Spec
CONSTANTS
  MaxBudget = 6
  MaxFits = 4
INVARIANT SplitEqualsWhole
INVARIANT MStepCount
INVARIANT LoopShape
