------------------------------- MODULE Posterior -------------------------------
(***************************************************************************)
(* Class posteriors (affiliations) of the mixture models.                  *)
(*   gamma[k][n] = w[k][n] lik[k][n] sam[k][n] / max(Z[n], tiny),           *)
(*   Z[n] = sum_j w[j][n] lik[j][n] sam[j][n]                               *)
(* optionally clipped to [eps, 1 - eps].  lik is the component likelihood   *)
(* up to a common positive factor per observation (the code subtracts the   *)
(* per-observation maximum log-pdf before exponentiating).                  *)
(* BayesR : exact rationals (lattice instances, generated cases)            *)
(* relations in Flt for recorded executions are in Trace_MM.tla             *)
(***************************************************************************)
EXTENDS Num, TLC

\* w, lik : K x N of positive integers (w is the un-normalised weight lattice), sam : K x N BOOLEAN
ZR(w, lik, sam, n) == SumSeq([k \in 1..Len(w) |-> IF sam[k][n] THEN w[k][n] * lik[k][n] ELSE 0])
ClipR(x, eps) == IF eps[1] = 0 THEN x
                 ELSE IF RLt(x, eps) THEN eps
                 ELSE IF RLt(RSub(<<1, 1>>, eps), x) THEN RSub(<<1, 1>>, eps) ELSE x
BayesR(w, lik, sam, eps) ==
  [k \in 1..Len(w) |-> [n \in 1..Len(w[1]) |->
     LET z == ZR(w, lik, sam, n)
         raw == IF z = 0 THEN <<0, 1>> ELSE RNorm(IF sam[k][n] THEN w[k][n] * lik[k][n] ELSE 0, z)
     IN  ClipR(raw, eps)]]
ColSumR(g, n) == RSum([k \in 1..Len(g) |-> g[k][n]])
=============================================================================
