SPECIFICATION Spec
CONSTANTS
  Vals <- ValsT
INVARIANT SdrBelowBoth
INVARIANT SelectionMaximises
INVARIANT OutputOrderInvariant
INVARIANT ImageScaling
