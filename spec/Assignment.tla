----------------------------- MODULE Assignment ------------------------------
(***************************************************************************)
(* Assignment of estimate classes to reference classes from a K x K score  *)
(* matrix S[i][j]  (i = reference row, j = estimate column), as            *)
(* pb_bss.permutation_alignment._mapping_from_score_matrix does it.        *)
(* A mapping m is a sequence m[i] = j (1-based here, 0-based in the code). *)
(*  Greedy : K rounds; each picks the FIRST maximum in row-major order     *)
(*           among the rows and columns not yet struck out.                *)
(*  Optimal: the FIRST permutation in lexicographic order that attains     *)
(*           the maximal total score (strict improvement rule).            *)
(* Scores may be any totally ordered integers (exact values or ranks for   *)
(* Greedy; exact values for Optimal, whose sums are not rank invariant).   *)
(***************************************************************************)
EXTENDS Integers, Sequences, FiniteSets, SequencesExt, TLC

Idx(K) == 1..K
IsPerm(m, K) == /\ DOMAIN m = 1..K
                /\ \A i \in 1..K : m[i] \in 1..K
                /\ \A i, j \in 1..K : i # j => m[i] # m[j]
Perms(K) == {p \in [1..K -> 1..K] : \A i, j \in 1..K : i # j => p[i] # p[j]}
IdPerm(K) == [i \in 1..K |-> i]
Compose(p, q) == [i \in DOMAIN p |-> q[p[i]]]       \* (q o p)
InvPerm(p) == [j \in DOMAIN p |-> CHOOSE i \in DOMAIN p : p[i] = j]

\* row-major order on index pairs
RowMajorLe(p, q) == p[1] < q[1] \/ (p[1] = q[1] /\ p[2] <= q[2])

FirstMax(S, rows, cols) ==
  CHOOSE p \in rows \X cols :
    \A q \in rows \X cols :
       \/ S[q[1]][q[2]] < S[p[1]][p[2]]
       \/ (S[q[1]][q[2]] = S[p[1]][p[2]] /\ RowMajorLe(p, q))

RECURSIVE GreedyRec(_, _, _, _)
GreedyRec(S, rows, cols, acc) ==
  IF rows = {} THEN acc
  ELSE LET b == FirstMax(S, rows, cols)
       IN  GreedyRec(S, rows \ {b[1]}, cols \ {b[2]}, [acc EXCEPT ![b[1]] = b[2]])
Greedy(S) == LET K == Len(S) IN GreedyRec(S, 1..K, 1..K, [i \in 1..K |-> 0])

\* a greedy decision was tied: some round had two maximal free entries
RECURSIVE GreedyTieRec(_, _, _)
GreedyTieRec(S, rows, cols) ==
  IF rows = {} THEN FALSE
  ELSE LET b == FirstMax(S, rows, cols)
       IN  \/ \E q \in rows \X cols : q # b /\ S[q[1]][q[2]] = S[b[1]][b[2]]
           \/ GreedyTieRec(S, rows \ {b[1]}, cols \ {b[2]})
GreedyHasTie(S) == LET K == Len(S) IN GreedyTieRec(S, 1..K, 1..K)

Score(S, p) == FoldLeft(LAMBDA a, i : a + S[i][p[i]], 0, [i \in 1..Len(S) |-> i])
LexLe(p, q) == \/ p = q
               \/ \E i \in DOMAIN p : /\ p[i] < q[i]
                                      /\ \A j \in DOMAIN p : j < i => p[j] = q[j]
Optimal(S) ==
  LET K == Len(S)
      P == Perms(K)
  IN  CHOOSE p \in P : \A q \in P : \/ Score(S, q) < Score(S, p)
                                    \/ (Score(S, q) = Score(S, p) /\ LexLe(p, q))
MaxScore(S) == LET P == Perms(Len(S))
               IN  CHOOSE v \in {Score(S, p) : p \in P} : \A p \in P : Score(S, p) <= v

\* all permutations of 1..K as a sequence in lexicographic order (= itertools.permutations)
RECURSIVE PermSeqOf(_)
PermSeqOf(elems) ==      \* elems: strictly increasing sequence of the remaining elements
  IF Len(elems) = 0 THEN << <<>> >>
  ELSE FoldLeft(LAMBDA acc, i :
                  acc \o LET rest == PermSeqOf(SubSeq(elems, 1, i - 1) \o SubSeq(elems, i + 1, Len(elems)))
                         IN  [j \in 1..Len(rest) |-> <<elems[i]>> \o rest[j]],
                <<>>, [i \in 1..Len(elems) |-> i])
PermSeqs == [k \in 1..6 |-> PermSeqOf([i \in 1..k |-> i])]
PermSet(K) == {PermSeqs[K][i] : i \in 1..Len(PermSeqs[K])}
MaxScoreSeq(S) == LET ps == PermSeqs[Len(S)]
                  IN  FoldLeft(LAMBDA acc, i : IF Score(S, ps[i]) > acc THEN Score(S, ps[i]) ELSE acc,
                               Score(S, ps[1]), [i \in 1..Len(ps) |-> i])
OptimalHasTie(S) == LET mx == MaxScoreSeq(S)
                        ps == PermSeqs[Len(S)]
                    IN  Cardinality({i \in 1..Len(ps) : Score(S, ps[i]) = mx}) > 1
\* first maximiser of Score in generation order, strict improvement (as the code's loop)
OptimalSeq(S) ==
  LET ps == PermSeqs[Len(S)]
      best == FoldLeft(LAMBDA acc, i : IF Score(S, ps[i]) > acc[2] THEN <<i, Score(S, ps[i])>> ELSE acc,
                       <<1, Score(S, ps[1])>>, [i \in 1..Len(ps) |-> i])
  IN  ps[best[1]]

\* aligned[k][f] = mask[mapping[k][f]][f]   (mask given as K x F of row identifiers)
ApplyMapping(mask, mapping) ==
  TLCEval([k \in DOMAIN mapping |-> [f \in DOMAIN mapping[k] |-> mask[mapping[k][f]][f]]])
IsPermPerBin(mapping, K, F) ==
  /\ DOMAIN mapping = 1..K
  /\ \A k \in 1..K : DOMAIN mapping[k] = 1..F
  /\ \A f \in 1..F : IsPerm([k \in 1..K |-> mapping[k][f]], K)
Column(m, f) == [k \in DOMAIN m |-> m[k][f]]
=============================================================================
