------------------------------- MODULE MC_Reshape -------------------------------
(* Exhaustive instance of Reshape.tla: every operation over <= MaxSrc source tokens from Alphabet + "1", every ordering,
   grouping and placement of at most one new singleton axis in the target, every size assignment from Sizes.  The state
   space IS the case set (no transitions); TLC's dump of it is replayed into pb_bss.utils.reshape (G). *)
EXTENDS Reshape, TLC
CONSTANTS Alphabet, MaxSrc, Sizes
VARIABLES src, tgt, size, op      \* op: the operation string handed to the code
vars == <<src, tgt, size, op>>

SrcSeqs == UNION {[1..n -> Alphabet \cup {"1"}] : n \in 0..MaxSrc}
DistinctNames(s) == Cardinality(Names(s)) = Len(SelectSeq(s, LAMBDA x : x # "1"))
Perms(S) == {p \in [1..Cardinality(S) -> S] : {p[i] : i \in 1..Cardinality(S)} = S}
RECURSIVE Groupings(_)
Groupings(p) == IF p = <<>> THEN {<<>>}
                ELSE UNION {{<<SubSeq(p, 1, k)>> \o g : g \in Groupings(SubSeq(p, k + 1, Len(p)))} : k \in 1..Len(p)}
WithOne(t) == {t} \cup {SubSeq(t, 1, i) \o << <<>> >> \o SubSeq(t, i + 1, Len(t)) : i \in 0..Len(t)}
Targets(s) == UNION {UNION {WithOne(g) : g \in Groupings(p)} : p \in Perms(Names(s))}

Init == /\ src \in {s \in SrcSeqs : DistinctNames(s)}
        /\ tgt \in Targets(src)
        /\ size \in [Names(src) -> Sizes]
        /\ op = OpString(src, tgt)
Next == UNCHANGED vars
Spec == Init /\ [][Next]_vars

ValidInv == Valid(src, tgt)
RearrangementInv == IsRearrangement(src, tgt, size)
InverseInv == InverseRestores(src, tgt, size)
FlattenInv == FlattenIsIdentity(src, size)
=============================================================================
