------------------------------- MODULE Trace_Psd ------------------------------
(* Trace specification for get_power_spectral_density_matrix / condition_covariance (C10). *)
EXTENDS Psd, TraceKit
VARIABLES l, verdicts
vars == <<l, verdicts>>

PsdChecks(r) ==
  IF r.exc # "" THEN << <<"raises", FALSE>> >>
  ELSE IF r.out_shape # OutShape(r) THEN << <<"shape", FALSE>> >>
  ELSE LET idx == AllIdx(r.out_shape)
           elem(o) == At(r.out, o)
           typed == \A i \in 1..Len(idx) : IsRatC(elem(idx[i]))
       IN IF ~typed THEN << <<"finite_rational", FALSE>> >>
          ELSE << <<"value", \A i \in 1..Len(idx) :
                       LET dc == Decode(r, idx[i])
                       IN  EqRatC(elem(idx[i]), PsdNum(r, dc[1], dc[2], dc[3], dc[4]), PsdDen(r, dc[1], dc[2]))>>,
                  <<"hermitian", \A i \in 1..Len(idx) :
                       LET o == idx[i] no == Len(o)
                           ot == [o EXCEPT ![no - 1] = o[no], ![no] = o[no - 1]]
                           a == elem(o) b == elem(ot)
                       IN  a[1] = b[1] /\ a[2][1] = -b[2][1] /\ a[2][2] = b[2][2]>>,
                  <<"pure", r.pure>> >>
\* non-trivial: mask non-constant over time (or absent with T >= 2), D >= 2, and some
\* off-diagonal entry with non-zero imaginary part
PsdNT(r) ==
  /\ r.exc = "" /\ r.out_shape = OutShape(r) /\ D(r) >= 2 /\ T(r) >= 2
  /\ \E o \in {AllIdx(r.out_shape)[i] : i \in 1..Prod(r.out_shape)} :
        LET c == At(r.out, o) IN IsRatC(c) /\ o[Len(o)] # o[Len(o) - 1] /\ c[2][1] # 0

CondChecks(r) ==
  IF r.exc # "" THEN << <<"raises", FALSE>> >>
  ELSE IF r.out_shape # r.shape THEN << <<"shape", FALSE>> >>
  ELSE LET nl == Len(r.shape) - 2
           Dn == r.shape[nl + 1]
           lidx == AllIdx(SubSeq(r.shape, 1, nl))
           ok(li) == LET phi == At(r.phi, li) out == At(r.out, li)
                     IN  \A a, b \in 1..Dn :
                           /\ IsRatC(out[a][b])
                           /\ EqRatC(out[a][b], CondNum(phi, Dn, r.gamma, a, b), CondDen(Dn, r.gamma))
           trace(li) == LET out == At(r.out, li) phi == At(r.phi, li)
                        IN  \* trace preserved: sum of reconstructed diagonal = trace of phi
                            RSum([a \in 1..Dn |-> out[a][a][1]]) = RNorm(CSum([a \in 1..Dn |-> phi[a][a]])[1], 1)
       IN << <<"value", \A i \in 1..Len(lidx) : ok(lidx[i])>>,
             <<"trace", \A i \in 1..Len(lidx) : trace(lidx[i])>>,
             <<"pure", r.pure>> >>
CondNT(r) == r.exc = "" /\ r.gamma[1] > 0 /\ Len(r.shape) >= 3

Checks(r) == CASE r.kind = "psd" -> PsdChecks(r) [] r.kind = "cond" -> CondChecks(r)
NT(r) == CASE r.kind = "psd" -> PsdNT(r) [] r.kind = "cond" -> CondNT(r)
Init == l = 1 /\ verdicts = <<>>
Next == /\ l <= Len(Trace)
        /\ LET r == Trace[l] IN
             verdicts' = Append(verdicts, Verdict(r.id, FailedOf(Checks(r)), NT(r), ""))
        /\ l' = l + 1
Spec == Init /\ [][Next]_vars
FlushInv == Flush(l, verdicts)
=============================================================================
