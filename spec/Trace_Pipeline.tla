----------------------------- MODULE Trace_Pipeline ----------------------------
EXTENDS Pipeline, TraceKit
VARIABLES l, verdicts
vars == <<l, verdicts>>
Checks(r) ==
  IF r.exc # "" THEN << <<"raises", FALSE>> >>
  ELSE IF r.kind = "scene" THEN
     << <<"finite", \A i \in 1..Len(r.post.data) : IsFlt(r.post.data[i])>>,
        <<"frequency_mapping_consistent", Consistent(r.field, r.mapping, r.K, r.F)>>,
        <<"global_mapping", GlobalOK(r.field, r.mapping, r.gmap, r.K)>>,
        <<"accuracy_99", (\A i \in 1..Len(r.post.data) : IsFlt(r.post.data[i])) => Accuracy99(r.post, r.truth, r.K, r.F, r.T)>> >>
  ELSE \* kind = "beam": contributions of one beamformer name
     << <<"finite", \A a, b \in 1..r.K : \A i \in 1..Len(r.contrib[a][b].data) : IsZ(r.contrib[a][b].data[i])>>,
        <<"sir_30dB", SirOK(r.contrib, r.K, 1000)>>,
        \* the library's own metric agrees with the powers summed here (linear SIR per source, selection = identity)
        <<"output_sxr_agrees", \A k \in 1..r.K :
              LET s == Power(r.contrib[k][k])
                  i == FSum([ks \in 1..r.K |-> IF ks = k THEN FZero ELSE Power(r.contrib[ks][k])])
              IN  i = FZero \/ CloseRel(FMul(r.sir[k], i), s, 256)>> >>
NT(r) == r.exc = "" /\ (r.kind = "scene" => \E f \in 1..r.F : r.field[f] # r.field[1])
Init == l = 1 /\ verdicts = <<>>
Next == /\ l <= Len(Trace)
        /\ LET r == Trace[l] IN
             verdicts' = Append(verdicts, Verdict(r.id, FailedOf(Checks(r)), NT(r), ""))
        /\ l' = l + 1
Spec == Init /\ [][Next]_vars
FlushInv == Flush(l, verdicts)
=============================================================================
