SPECIFICATION Spec
INVARIANT PlanCovers
INVARIANT OverlapOK
INVARIANT Doc512
