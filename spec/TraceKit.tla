------------------------------- MODULE TraceKit -------------------------------
(* Shared plumbing of all trace specifications: total verdicts.              *)
(* A check list is a sequence of <<clause_name, holds>> pairs; FailedOf       *)
(* returns the names of the clauses that do not hold.  TraceNext of a trace   *)
(* spec never blocks: every record gets a verdict, a rejected record does     *)
(* not hide the rest of the trace.                                            *)
EXTENDS Integers, Sequences, SequencesExt, Json, IOUtils, TLC

Trace == ndJsonDeserialize(IOEnv.TRACE_FILE)

FailedOf(cs) ==
  LET bad == SelectSeq(cs, LAMBDA c : ~c[2])
  IN  [i \in 1..Len(bad) |-> bad[i][1]]

\* verdict record; nt = non-trivial by the property's rule, skip = "" or reason
Verdict(id, failed, nt, skip) == [id |-> id, failed |-> failed, nt |-> nt, skip |-> skip]

Flush(l, verdicts) == (l = Len(Trace) + 1) => ndJsonSerialize(IOEnv.OUT_FILE, verdicts)
Accepted == TLCGet("stats").diameter = Len(Trace) + 1

IsNum(x) == x \in Int
HasKey(r, k) == k \in DOMAIN r
=============================================================================
