SPECIFICATION Spec
CONSTANTS
  K = 2
  T = 2
INVARIANT NeverWorseThanIdentity
INVARIANT OptimumInvariant
INVARIANT PosteriorIsDistribution
