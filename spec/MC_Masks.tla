------------------------------- MODULE MC_Masks --------------------------------
(* The mask definitions of Masks.tla on every 2 x 2 source tensor s[k][f] over a  *)
(* Gaussian-integer lattice (zeros and ties included): what the definitions imply. *)
EXTENDS Masks, TLC
CV == {<<0,0>>, <<1,0>>, <<0,1>>, <<-1,0>>, <<1,1>>, <<2,0>>, <<3,4>>}
VARIABLES s
Init == s \in [1..2 -> [1..2 -> CV]]
Next == UNCHANGED s
Spec == Init /\ [][Next]_s
R  == [shape |-> <<2, 2>>, sig |-> s, ka |-> 0, da |-> 0, has_da |-> FALSE, keepdims |-> FALSE]
\* the same data with the source axis last: sT[f][k]
RT == [shape |-> <<2, 2>>, sig |-> [f \in 1..2 |-> [k \in 1..2 |-> s[k][f]]], ka |-> -1, da |-> 0,
       has_da |-> FALSE, keepdims |-> FALSE]
\* sensor pooling: treat f as the sensor axis
RP == [R EXCEPT !.has_da = TRUE, !.da = 1]
Pts == {<<k, f>> : k \in 0..1, f \in 0..1}
IBMOneHot == \A f \in 0..1 : IBM(R, <<0, f>>)[1] + IBM(R, <<1, f>>)[1] = 1
IBMAtMax == \A p \in Pts : IBM(R, p)[1] = 1 => \A k \in 0..1 : CAbs2(Sig(R, <<k, p[2]>>)) <= CAbs2(Sig(R, p))
WienerRange == \A p \in Pts : LET w == Wiener(R, p) IN 0 <= w[1] /\ w[1] <= w[2]
WienerSumOne == \A f \in 0..1 : SumPow(R, <<0, f>>) > 0 =>
                   Wiener(R, <<0, f>>)[1] + Wiener(R, <<1, f>>)[1] = Wiener(R, <<0, f>>)[2]
ICMReconstructs == \A p \in Pts : ICMDen(R, p) # 0 =>
                   CMul(ICMNum(R, p), MixAt(R, p)) = CScale(ICMDen(R, p), Sig(R, p))
MoveAxisEquivariant == \A p \in Pts : /\ IBM(RT, <<p[2], p[1]>>) = IBM(R, p)
                                      /\ Wiener(RT, <<p[2], p[1]>>) = Wiener(R, p)
                                      /\ ICMNum(RT, <<p[2], p[1]>>) = ICMNum(R, p)
PooledShape == OutShapeOf(RP) = <<2>> /\ OutShapeOf([RP EXCEPT !.keepdims = TRUE]) = <<2, 1>>
PooledOneHot == IBM(RP, <<0>>)[1] + IBM(RP, <<1>>)[1] = 1
=============================================================================
