SPECIFICATION Spec
INVARIANT FlushInv
POSTCONDITION Accepted
CHECK_DEADLOCK FALSE
