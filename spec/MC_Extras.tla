------------------------------- MODULE MC_Extras -------------------------------
(* Exhaustive instance for the Dirichlet-prior weight estimator: every posterior *)
(* matrix on the quarter lattice (K classes, T observations, columns summing to  *)
(* one) and every prior concentration of Alphas.                                 *)
EXTENDS Extras
CONSTANTS Ks, Ts
VARIABLES gamma, alpha
vars == <<gamma, alpha>>
Grid == {<<0, 1>>, <<1, 4>>, <<1, 2>>, <<3, 4>>, <<1, 1>>}
Alphas == {<<1, 1>>, <<3, 2>>, <<2, 1>>, <<5, 1>>, <<100, 1>>, Inf}
Cols(K) == {c \in [1..K -> Grid] : REq(RSum(c), ROne)}
Init == /\ \E K \in Ks, T \in Ts : \E cols \in [1..T -> Cols(K)] : gamma = [k \in 1..K |-> [t \in 1..T |-> cols[t][k]]]
        /\ alpha \in Alphas
Next == UNCHANGED vars
Spec == Init /\ [][Next]_vars
W(a) == DirichletWeight(gamma, a)
ALe(a, b) == b[2] = 0 \/ (a[2] # 0 /\ RLe(a, b))
TypeOK == ColumnsSumToOne(gamma)
IsDist == IsDistribution(W(alpha))
OneIsMean == \A k \in 1..Len(gamma) : REq(W(ROne)[k], MeanWeight(gamma)[k])
InfIsUniform == \A k \in 1..Len(gamma) : REq(W(Inf)[k], <<1, Len(gamma)>>)
\* a stronger prior never moves the weights away from the uniform distribution ...
Shrinks == \A b \in Alphas : ALe(alpha, b) => RLe(Spread(W(b)), Spread(W(alpha)))
\* ... and never reorders the classes
OrderKept == \A k, j \in 1..Len(gamma) : RLt(MeanWeight(gamma)[k], MeanWeight(gamma)[j]) => RLe(W(alpha)[k], W(alpha)[j])
=============================================================================
