-------------------------------- MODULE Pipeline -------------------------------
(***************************************************************************)
(* The documented separation chain as a composition of stages (C17):       *)
(*   Fit (per-frequency mixture model, posteriors (F, K, T))               *)
(*   -> DHTV alignment on (K, F, T)  -> Oracle global alignment            *)
(*   -> mask-based PSDs (F, K, D, D) -> get_bf_vector -> apply             *)
(*   -> output_sxr on the per-source contributions.                        *)
(* Stage relations are those of Posterior / Alignment / Psd / Beamform /   *)
(* Metrics; this module adds the class bookkeeping between the stages and  *)
(* the end-to-end invariants, computed here from the logged data:          *)
(*   Accuracy : arg-max class of the aligned posterior = true source at    *)
(*              >= 99 % of the time-frequency points                        *)
(*   Bookkeeping : injected permutation field composed with the returned   *)
(*              frequency mapping is constant over frequency, and the      *)
(*              global mapping turns class k into source k                 *)
(*   Sir      : signal power >= 1000 x interference power (30 dB) for      *)
(*              every source and every interference-cancelling beamformer  *)
(***************************************************************************)
EXTENDS Num, Flat, TLC

\* aligned posterior post (K, F, T) flat Flt; truth (F, T) flat ints
ArgMaxK(post, K, f, t) ==
  CHOOSE k \in 0..(K - 1) : \A j \in 0..(K - 1) :
     FLt(Get(post, <<j, f, t>>), Get(post, <<k, f, t>>)) \/ (Get(post, <<j, f, t>>) = Get(post, <<k, f, t>>) /\ k <= j)
Correct(post, truth, K, F, T) ==
  Cardinality({p \in (0..(F - 1)) \X (0..(T - 1)) : ArgMaxK(post, K, p[1], p[2]) = Get(truth, <<p[1], p[2]>>)})
Accuracy99(post, truth, K, F, T) == 100 * Correct(post, truth, K, F, T) >= 99 * F * T
\* field[f][k] = true source of class k at frequency f before alignment; mapping (K, F): aligned[k, f] = in[mapping[k, f], f]
Consistent(field, mapping, K, F) ==
  \A f \in 1..F : \A k \in 1..K : field[f][mapping[k][f] + 1] = field[1][mapping[k][1] + 1]
\* after the frequency alignment class k carries source src[k]; the global mapping g (aligned2[k] = aligned[g[k]]) must undo it
GlobalOK(field, mapping, g, K) == \A k \in 1..K : field[1][mapping[g[k] + 1][1] + 1] = k - 1
\* powers of the contributions c[ks][kt] (flat complex (F, T) each)
Power(c) == FSum([i \in 1..Len(c.data) |-> ZAbs2(c.data[i])])
SirOK(contrib, K, factor) ==
  \A kt \in 1..K :
     LET s == Power(contrib[kt][kt])
         i == FSum([ks \in 1..K |-> IF ks = kt THEN FZero ELSE Power(contrib[ks][kt])])
     IN  FLe(FMul(FInt(factor), i), s)
=============================================================================
