SPECIFICATION Spec
CONSTANTS
  K = 2
  Vals = {0, 1, 2, 3}
INVARIANT GreedyIsPerm
INVARIANT OptimalIsPerm
INVARIANT OptimalIsMax
INVARIANT OptimalGeGreedy
INVARIANT OptimalIsFirst
INVARIANT GreedyTakesMax
INVARIANT OptValueEquivariant
INVARIANT OptimalSeqAgrees
INVARIANT MaxSeqAgrees
