------------------------------- MODULE MC_Plan --------------------------------
(* Every DHTV segment configuration for STFT sizes 2..MaxStft:                 *)
(*   valid (start+width <= F) and shift <= width  =>  the plan covers all bins *)
EXTENDS Alignment, TLC
CONSTANTS MaxStft
VARIABLES cfg, plan
vars == <<cfg, plan>>
Cfgs == {c \in (2..MaxStft) \X (0..(MaxStft \div 2 + 1)) \X (1..(MaxStft \div 2 + 1)) \X (1..(MaxStft \div 2 + 1)) :
           /\ c[2] + c[3] <= c[1] \div 2 + 1      \* start + width <= F
           /\ c[4] <= c[3]}                        \* shift <= width
Init == /\ cfg \in Cfgs
        /\ plan = Plan(cfg[1], cfg[2], cfg[3], cfg[4], 3, 2)
Next == UNCHANGED vars
Spec == Init /\ [][Next]_vars
F == cfg[1] \div 2 + 1
PlanCovers == PlanCoversAll(plan, F)
SegmentsInRange == \A i \in 1..Len(plan) : 0 <= plan[i][2] /\ plan[i][2] < plan[i][3] /\ plan[i][3] <= F
FirstIsMain == plan[1][1] = 3 /\ \A i \in 2..Len(plan) : plan[i][1] = 2
\* NOTE: shift <= width/3 does NOT imply OverlapTwoThirds(plan): the stretched last segment can
\* overlap less (TLC counterexample: stft 8, start 0, width 3, shift 1 -> <<3,0,3>>, <<2,1,5>>).
\* The C16 consistency clause therefore evaluates OverlapTwoThirds per case as a premise.
=============================================================================
