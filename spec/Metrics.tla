-------------------------------- MODULE Metrics --------------------------------
(***************************************************************************)
(* SI-SDR and the invasive SXR measures of pb_bss.evaluation on integer    *)
(* signals (optionally scaled by a float gain given as Flt).               *)
(* All quantities are linear power ratios <<num, den>> of integers; the    *)
(* common factor 1/T of the mean powers cancels.  dB values of the code    *)
(* are inverted by the encoder (10^(x/10)) and compared in Flt.            *)
(***************************************************************************)
EXTENDS Num, TLC

Energy(x) == FoldLeft(LAMBDA a, t : a + x[t] * x[t], 0, [t \in 1..Len(x) |-> t])
Inner(x, y) == FoldLeft(LAMBDA a, t : a + x[t] * y[t], 0, [t \in 1..Len(x) |-> t])

(* si_sdr: alpha = <s, e>/<s, s>;  |alpha s|^2 / |e - alpha s|^2 = a^2 / (b E - a^2) *)
SiSdrRatio(est, ref) == LET a == Inner(ref, est) b == Energy(ref) E == Energy(est)
                        IN  <<a * a, b * E - a * a>>

(* input_sxr : images[k][d][t], noise[d][t]  -> per (k, d) integer powers *)
SPow(images, k, d) == Energy(images[k][d])
IPow(images, k, d) == SumSeq([j \in 1..Len(images) |-> IF j = k THEN 0 ELSE Energy(images[j][d])])
NPow(noise, d) == Energy(noise[d])
\* powers after optional channel averaging: sequences over d (length D or 1); the 1/D cancels
ChanS(images, k, avg) == LET D == Len(images[1]) IN
   IF avg THEN << SumSeq([d \in 1..D |-> SPow(images, k, d)]) >> ELSE [d \in 1..D |-> SPow(images, k, d)]
ChanI(images, k, avg) == LET D == Len(images[1]) IN
   IF avg THEN << SumSeq([d \in 1..D |-> IPow(images, k, d)]) >> ELSE [d \in 1..D |-> IPow(images, k, d)]
ChanN(noise, avg) == LET D == Len(noise) IN
   IF avg THEN << SumSeq([d \in 1..D |-> NPow(noise, d)]) >> ELSE [d \in 1..D |-> NPow(noise, d)]

(* output_sxr : contrib[ks][kt][t], noise[kt][t] *)
OutS(contrib, ks, kt) == Energy(contrib[ks][kt])
\* selections: injective maps ks -> kt in itertools.permutations(range(Kt), Ks) generation order,
\* i.e. lexicographic order of the tuples
IsSel(s, Ks, Kt) == DOMAIN s = 1..Ks /\ (\A i \in 1..Ks : s[i] \in 1..Kt) /\ \A i, j \in 1..Ks : i # j => s[i] # s[j]
Sels(Ks, Kt) == {s \in [1..Ks -> 1..Kt] : \A i, j \in 1..Ks : i # j => s[i] # s[j]}
SelLexLe(p, q) == p = q \/ \E i \in DOMAIN p : p[i] < q[i] /\ \A j \in DOMAIN p : j < i => p[j] = q[j]
Captured(contrib, s) == SumSeq([k \in 1..Len(contrib) |-> OutS(contrib, k, s[k])])
BestSel(contrib) ==
  LET Ks == Len(contrib) Kt == Len(contrib[1]) P == Sels(Ks, Kt)
  IN  CHOOSE s \in P : \A q \in P : Captured(contrib, q) < Captured(contrib, s)
                                    \/ (Captured(contrib, q) = Captured(contrib, s) /\ SelLexLe(s, q))
SelTie(contrib) ==
  LET Ks == Len(contrib) Kt == Len(contrib[1]) P == Sels(Ks, Kt) b == BestSel(contrib)
  IN  \E q \in P : q # b /\ Captured(contrib, q) = Captured(contrib, b)
OutSS(contrib, s, k) == OutS(contrib, k, s[k])
OutII(contrib, s, k) == SumSeq([j \in 1..Len(contrib) |-> IF j = k THEN 0 ELSE OutS(contrib, j, s[k])])
OutNN(noise, s, k) == Energy(noise[s[k]])

(* comparison of a linear ratio returned by the code (Flt rho) with (num * gn) / (den * gd),
   num, den integers, gn, gd Flt gains (squared scales).  den = 0 -> +inf expected, num = 0 -> 0 *)
PInfF == <<2, 0>>
RatioOK(rho, num, den, gn, gd, slack) ==
  IF den = 0 THEN (IF num = 0 THEN TRUE ELSE rho = PInfF)
  ELSE IF num = 0 THEN rho = FZero
  ELSE IsFlt(rho) /\ CloseRel(FMul(rho, FMul(FInt(den), gd)), FMul(FInt(num), gn), slack)
\* geometric mean over sources (mean of dB values): rho^K * prod(den gd) = prod(num gn)
FProd(s) == FoldLeft(LAMBDA a, x : FMul(a, x), FOne, s)
GeoOK(rho, nums, dens, gn, gd, slack) ==
  LET K == Len(nums)
  IN  IF \E k \in 1..K : dens[k] = 0 /\ nums[k] # 0 THEN rho = PInfF
      ELSE IF \E k \in 1..K : nums[k] = 0 THEN TRUE
      ELSE IsFlt(rho) /\ CloseRel(FMul(FProd([k \in 1..K |-> rho]), FProd([k \in 1..K |-> FMul(FInt(dens[k]), gd)])),
                                   FProd([k \in 1..K |-> FMul(FInt(nums[k]), gn)]), slack)
=============================================================================
