SPECIFICATION Spec
CONSTANTS
  Ids = {1, 2}
  Kinds = {"watson", "cwmm"}
  Stateful = {"watson", "cwmm", "bingham", "cbmm"}
  Dims = {3}
  MaxCs = {500, 50, 20}
  Datas = {1, 2, 3}
  MaxLen = 7
INVARIANT ImplRefinesAbs
INVARIANT RejectsOnlyMismatch
