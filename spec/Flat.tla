--------------------------------- MODULE Flat ----------------------------------
(* Flat (row-major) tensors [shape |-> <<..>>, data |-> <<..>>] with NumPy          *)
(* broadcasting: a field of lower rank or with singleton axes is read at any index  *)
(* of a larger shape by aligning trailing axes and clipping singleton axes to 0.    *)
EXTENDS Integers, Sequences, SequencesExt, FiniteSets, TLC, Tensor

\* 1-based offset of a 0-based index in a row-major tensor
Off(shape, idx) == 1 + FoldLeft(LAMBDA acc, i : acc * shape[i] + idx[i], 0, Iota(Len(shape)))
\* index of a broadcast operand: trailing alignment, singleton axes -> 0
BIdx(shape, idx) ==
  LET r == Len(shape) R == Len(idx)
  IN  [i \in 1..r |-> IF shape[i] = 1 THEN 0 ELSE idx[R - r + i]]
Get(f, idx) == f.data[Off(f.shape, BIdx(f.shape, idx))]
Size(f) == Prod(f.shape)
WellFormed(f) == Len(f.data) = Prod(f.shape)
BroadcastsTo(shape, full) ==
  /\ Len(shape) <= Len(full)
  /\ \A i \in 1..Len(shape) : shape[i] = 1 \/ shape[i] = full[Len(full) - Len(shape) + i]
\* NumPy axis normalisation relative to a rank
Ax(a, rank) == ((a % rank) + rank) % rank
\* shape with the given (normalised) axes set to 1  (keepdims reduction)
KeepdimsShape(full, axes) == [i \in 1..Len(full) |-> IF (i - 1) \in axes THEN 1 ELSE full[i]]
\* shape with the given axes removed (squeeze)
SqueezedShape(full, axes) == LET keep == SelectSeq(Iota(Len(full)), LAMBDA i : (i - 1) \notin axes)
                             IN  [j \in 1..Len(keep) |-> full[keep[j]]]
\* all indices of `full` that agree with idx outside `axes` (the reduction group of idx)
Group(full, axes, idx) ==
  LET ax == SetToSortSeq(axes, <)
      sub == AllIdx([j \in 1..Len(ax) |-> full[ax[j] + 1]])
  IN  [g \in 1..Len(sub) |-> [i \in 1..Len(full) |->
          IF (i - 1) \in axes THEN sub[g][CHOOSE j \in 1..Len(ax) : ax[j] = i - 1] ELSE idx[i]]]
=============================================================================
