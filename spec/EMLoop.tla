--------------------------------- MODULE EMLoop --------------------------------
(***************************************************************************)
(* The fit loop of the mixture trainers as a state machine over abstract   *)
(* (uninterpreted) kernels: E(model), A(affiliation) (optional inline      *)
(* alignment), M(affiliation).  Values are terms, so two runs are equal    *)
(* iff they applied the same kernels in the same order.                    *)
(*   array start : iteration 1 has NO E-step (the start affiliation goes   *)
(*                 straight into the M-step)                               *)
(*   model start : every iteration begins with an E-step (cACGMM only)     *)
(* A session is a chain of fits, each continued from the model returned by *)
(* the previous one.  events records the kernel applications (= the hook   *)
(* events of the real trainers).                                           *)
(***************************************************************************)
EXTENDS Integers, Sequences, TLC
CONSTANTS MaxBudget, MaxFits
VARIABLES pc, model, aff, iter, budget, aligner, events, fits, total
vars == <<pc, model, aff, iter, budget, aligner, events, fits, total>>

E(m) == <<"E", m>>
A(a) == <<"A", a>>
M(a) == <<"M", a>>
\* the whole-run result after n iterations from an array start a0 (reference semantics)
RECURSIVE Whole(_, _, _)
Whole(a0, n, al) == IF n = 1 THEN M(a0)
                    ELSE LET prev == Whole(a0, n - 1, al) e == E(prev) IN M(IF al THEN A(e) ELSE e)

Init == /\ pc = "idle" /\ model = <<"none">> /\ aff = <<"a0">> /\ iter = 0 /\ budget = 0
        /\ aligner \in BOOLEAN /\ events = <<>> /\ fits = 0 /\ total = 0
\* start a fit: from the array a0 (first fit) or continued from the returned model
FitCall(n) == /\ pc = "idle" /\ fits < MaxFits /\ n \in 1..MaxBudget /\ total + n <= MaxBudget
              /\ budget' = n /\ iter' = 0 /\ fits' = fits + 1
              /\ pc' = IF model = <<"none">> THEN "mstep" ELSE "estep"
              /\ UNCHANGED <<model, aff, aligner, events, total>>
EStep == /\ pc = "estep"
         /\ aff' = E(model)
         /\ events' = Append(events, "estep")
         /\ pc' = IF aligner THEN "align" ELSE "mstep"
         /\ UNCHANGED <<model, iter, budget, aligner, fits, total>>
Align == /\ pc = "align"
         /\ aff' = A(aff)
         /\ events' = Append(events, "align")
         /\ pc' = "mstep"
         /\ UNCHANGED <<model, iter, budget, aligner, fits, total>>
MStep == /\ pc = "mstep"
         /\ model' = M(aff)
         /\ events' = Append(events, "mstep")
         /\ iter' = iter + 1 /\ total' = total + 1
         /\ pc' = IF iter + 1 = budget THEN "idle" ELSE "estep"
         /\ UNCHANGED <<aff, budget, aligner, fits>>
Next == (\E n \in 1..MaxBudget : FitCall(n)) \/ EStep \/ Align \/ MStep
Spec == Init /\ [][Next]_vars

\* a chain of continued fits equals the uninterrupted fit with the summed budget
SplitEqualsWhole == (pc = "idle" /\ total > 0) => model = Whole(<<"a0">>, total, aligner)
\* one M-step per iteration
MStepCount == Len(SelectSeq(events, LAMBDA e : e = "mstep")) = total
\* an array start has no E-step before the first M-step; afterwards E [A] M alternate
LoopShape == /\ Len(events) > 0 => events[1] = "mstep"
             /\ \A i \in 1..(Len(events) - 1) :
                  /\ events[i] = "mstep" => events[i + 1] = "estep"
                  /\ events[i] = "estep" => events[i + 1] = (IF aligner THEN "align" ELSE "mstep")
                  /\ events[i] = "align" => events[i + 1] = "mstep"
=============================================================================
