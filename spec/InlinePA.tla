-------------------------------- MODULE InlinePA --------------------------------
(***************************************************************************)
(* Built-in spatial / spectral alignment of the integration models         *)
(* (log_pdf_to_affiliation_for_integration_models_with_inline_pa), exact   *)
(* on a lattice: log-pdfs are integer multiples of ln 2 (ms, me : K x T),   *)
(* so likelihoods are powers of two and the auxiliary function             *)
(*   Aux(pi) = sum_{k,t} gamma_pi[k][t] (ms[pi k][t] + me[k][t])  (x ln 2)  *)
(* is rational.  The chosen permutation maximises Aux, hence is never      *)
(* worse than the identity; the returned posterior is Bayes' rule for the  *)
(* permuted spatial stream with the mixture weights.                       *)
(***************************************************************************)
EXTENDS Posterior, Assignment

Pow2i(n) == 2 ^ n
Lik(ms, me, p) == [k \in 1..Len(ms) |-> [t \in 1..Len(ms[1]) |-> Pow2i(ms[p[k]][t] + me[k][t])]]
Ones(K, T) == [k \in 1..K |-> [t \in 1..T |-> 1]]
AllOn(K, T) == [k \in 1..K |-> [t \in 1..T |-> TRUE]]
\* candidate posterior (no weights, as in the search loop of the code)
Cand(ms, me, p) == BayesR(Ones(Len(ms), Len(ms[1])), Lik(ms, me, p), AllOn(Len(ms), Len(ms[1])), <<0, 1>>)
Aux(ms, me, p) ==
  RSum([i \in 1..(Len(ms) * Len(ms[1])) |->
          LET k == ((i - 1) \div Len(ms[1])) + 1 t == ((i - 1) % Len(ms[1])) + 1
          IN  RMul(Cand(ms, me, p)[k][t], <<ms[p[k]][t] + me[k][t], 1>>)])
IsBest(ms, me, p) == \A q \in PermSet(Len(ms)) : RLe(Aux(ms, me, q), Aux(ms, me, p))
\* posterior for a chosen permutation with (lattice) weights w[k]
Post(ms, me, w, p) == BayesR([k \in 1..Len(ms) |-> [t \in 1..Len(ms[1]) |-> w[k]]], Lik(ms, me, p), AllOn(Len(ms), Len(ms[1])), <<0, 1>>)
=============================================================================
