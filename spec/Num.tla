--------------------------------- MODULE Num ---------------------------------
(***************************************************************************)
(* Number representations used by every pb_bss specification module.       *)
(*  - Int helpers (Abs, Sgn, GCD, floor division with sign)                *)
(*  - Rat  : <<n, d>>, d > 0, reduced  (exact lattice results)              *)
(*  - Cx   : <<re, im>> over Int (Gaussian integers)                        *)
(*  - Flt  : <<m, e>> = m * 2^e, m = 0 or 2^19 <= |m| < 2^20 (20 bit        *)
(*           software float; every product split so nothing exceeds 2^31)  *)
(*  - Close(x, y, scale, slack): |x-y| <= slack * 2^-19 * scale             *)
(* TLC integers are 32 bit; overflow is a TLC error (never silent).        *)
(***************************************************************************)
EXTENDS Integers, Sequences, FiniteSets, SequencesExt

Abs(x) == IF x < 0 THEN -x ELSE x
Sgn(x) == IF x < 0 THEN -1 ELSE IF x > 0 THEN 1 ELSE 0
Max2(a, b) == IF a >= b THEN a ELSE b
Min2(a, b) == IF a <= b THEN a ELSE b

RECURSIVE GCD(_, _)
GCD(a, b) == IF b = 0 THEN Abs(a) ELSE GCD(b, a % b)

\* truncated division toward zero and floor division (TLC's \div floors)
TDiv(a, b) == Sgn(a) * Sgn(b) * (Abs(a) \div Abs(b))

SumSeq(s) == FoldLeft(LAMBDA acc, x : acc + x, 0, s)
MkSeq(n, Op(_)) == [i \in 1..n |-> Op(i)]

(***************************** rationals ***********************************)
RNorm(n, d) == LET g == GCD(n, d)
                   s == IF d < 0 THEN -1 ELSE 1
               IN  IF n = 0 THEN <<0, 1>> ELSE <<s * (n \div g), s * (d \div g)>>
RInt(n)     == <<n, 1>>
RAdd(a, b)  == RNorm(a[1] * b[2] + b[1] * a[2], a[2] * b[2])
RSub(a, b)  == RNorm(a[1] * b[2] - b[1] * a[2], a[2] * b[2])
RMul(a, b)  == RNorm(a[1] * b[1], a[2] * b[2])
RDiv(a, b)  == RNorm(a[1] * b[2], a[2] * b[1])
RNeg(a)     == <<-a[1], a[2]>>
RLe(a, b)   == a[1] * b[2] <= b[1] * a[2]
RLt(a, b)   == a[1] * b[2] <  b[1] * a[2]
REq(a, b)   == a[1] * b[2] =  b[1] * a[2]
RSum(s)     == FoldLeft(LAMBDA acc, x : RAdd(acc, x), <<0, 1>>, s)
IsRat(x)    == /\ x \in Seq(Int) /\ Len(x) = 2 /\ x[2] > 0

(************************* Gaussian integers *******************************)
CAdd(a, b)  == <<a[1] + b[1], a[2] + b[2]>>
CSub(a, b)  == <<a[1] - b[1], a[2] - b[2]>>
CMul(a, b)  == <<a[1] * b[1] - a[2] * b[2], a[1] * b[2] + a[2] * b[1]>>
CConj(a)    == <<a[1], -a[2]>>
CAbs2(a)    == a[1] * a[1] + a[2] * a[2]
CScale(k, a) == <<k * a[1], k * a[2]>>
CZero       == <<0, 0>>
CSum(s)     == FoldLeft(LAMBDA acc, x : CAdd(acc, x), CZero, s)

(***************************** Flt *****************************************)
Pow2 == [i \in 0..30 |-> 2^i]
P19 == 524288
P20 == 1048576

\* number of bits of x > 0 (x < 2^31): k with 2^(k-1) <= x < 2^k
BitLen(x) ==
  IF x < 65536
  THEN IF x < 256
       THEN IF x < 16
            THEN IF x < 4 THEN (IF x < 2 THEN (IF x < 1 THEN 0 ELSE 1) ELSE 2)
                          ELSE (IF x < 8 THEN 3 ELSE 4)
            ELSE IF x < 64 THEN (IF x < 32 THEN 5 ELSE 6)
                           ELSE (IF x < 128 THEN 7 ELSE 8)
       ELSE IF x < 4096
            THEN IF x < 1024 THEN (IF x < 512 THEN 9 ELSE 10)
                             ELSE (IF x < 2048 THEN 11 ELSE 12)
            ELSE IF x < 16384 THEN (IF x < 8192 THEN 13 ELSE 14)
                              ELSE (IF x < 32768 THEN 15 ELSE 16)
  ELSE IF x < 16777216
       THEN IF x < 1048576
            THEN IF x < 262144 THEN (IF x < 131072 THEN 17 ELSE 18)
                               ELSE (IF x < 524288 THEN 19 ELSE 20)
            ELSE IF x < 4194304 THEN (IF x < 2097152 THEN 21 ELSE 22)
                                ELSE (IF x < 8388608 THEN 23 ELSE 24)
       ELSE IF x < 268435456
            THEN IF x < 67108864 THEN (IF x < 33554432 THEN 25 ELSE 26)
                                 ELSE (IF x < 134217728 THEN 27 ELSE 28)
            ELSE IF x < 1073741824 THEN (IF x < 536870912 THEN 29 ELSE 30)
                                   ELSE 31

FZero == <<0, 0>>
\* normalise m * 2^e (|m| < 2^31) to 20 bit mantissa (truncation toward zero)
FNorm(m, e) ==
  IF m = 0 THEN FZero
  ELSE LET a == Abs(m)
           k == BitLen(a)
       IN  IF k > 20 THEN <<Sgn(m) * (a \div Pow2[k - 20]), e + (k - 20)>>
           ELSE IF k < 20 THEN <<m * Pow2[20 - k], e - (20 - k)>>
           ELSE <<m, e>>
FInt(n)  == FNorm(n, 0)                      \* |n| < 2^31
FRat(r)  == LET a == FNorm(r[1], 0) b == FNorm(r[2], 0) IN  <<a, b>>  \* pair, see FDiv
IsFlt(x) == /\ x \in Seq(Int) /\ Len(x) = 2
            /\ \/ x = FZero
               \/ (Abs(x[1]) >= P19 /\ Abs(x[1]) < P20)
FNeg(a)  == <<-a[1], a[2]>>
FAbs(a)  == <<Abs(a[1]), a[2]>>
FSgn(a)  == Sgn(a[1])

FMul(a, b) ==
  IF a[1] = 0 \/ b[1] = 0 THEN FZero
  ELSE LET bm == Abs(b[1])
           bh == bm \div 1024
           bl == bm % 1024
           p  == Abs(a[1]) * bh + ((Abs(a[1]) * bl) \div 1024)   \* < 2^31, units 2^10
       IN  FNorm(Sgn(a[1]) * Sgn(b[1]) * p, a[2] + b[2] + 10)

FAddRaw(a, b) ==   \* requires a[2] >= b[2], both non-zero
  LET d == a[2] - b[2]
  IN  IF d > 22 THEN a
      ELSE LET A == a[1] * 256
               B == IF d <= 8 THEN b[1] * Pow2[8 - d]
                    ELSE Sgn(b[1]) * (Abs(b[1]) \div Pow2[d - 8])
           IN  FNorm(A + B, a[2] - 8)
FAdd(a, b) ==
  IF a[1] = 0 THEN b ELSE IF b[1] = 0 THEN a
  ELSE IF a[2] >= b[2] THEN FAddRaw(a, b) ELSE FAddRaw(b, a)
FSub(a, b) == FAdd(a, FNeg(b))

FDiv(a, b) ==      \* b # 0
  IF a[1] = 0 THEN FZero
  ELSE LET am == Abs(a[1]) bm == Abs(b[1])
           n1 == am * 1024
           q1 == n1 \div bm
           r1 == n1 % bm
           q2 == (r1 * 1024) \div bm
       IN  FNorm(Sgn(a[1]) * Sgn(b[1]) * (q1 * 1024 + q2), a[2] - b[2] - 20)

\* comparisons (normalised operands)
FLt(a, b) ==
  LET sa == Sgn(a[1]) sb == Sgn(b[1])
  IN  IF sa # sb THEN sa < sb
      ELSE IF sa = 0 THEN FALSE
      ELSE IF sa > 0 THEN (a[2] < b[2] \/ (a[2] = b[2] /\ a[1] < b[1]))
      ELSE (a[2] > b[2] \/ (a[2] = b[2] /\ a[1] < b[1]))
FLe(a, b) == ~FLt(b, a)
FMax(a, b) == IF FLt(a, b) THEN b ELSE a
FMin(a, b) == IF FLt(b, a) THEN b ELSE a
FSum(s)    == FoldLeft(LAMBDA acc, x : FAdd(acc, x), FZero, s)
FSumAbs(s) == FoldLeft(LAMBDA acc, x : FAdd(acc, FAbs(x)), FZero, s)
FOne  == <<P19, -19>>
FTwo  == <<P19, -18>>
FPow2(k) == <<P19, k - 19>>                  \* 2^k, any integer k
FScaleI(k, a) == FMul(FInt(k), a)
FSq(a) == FMul(a, a)

\* |x - y| <= slack * 2^-19 * scale      (slack: small Nat, scale: Flt >= 0)
Close(x, y, scale, slack) ==
  FLe(FAbs(FSub(x, y)), FMul(FNorm(slack, -19), scale))
\* relative closeness with scale = |x| + |y|
CloseRel(x, y, slack) == Close(x, y, FAdd(FAbs(x), FAbs(y)), slack)

(*************************** complex Flt ***********************************)
ZZero == <<FZero, FZero>>
ZAdd(a, b)  == <<FAdd(a[1], b[1]), FAdd(a[2], b[2])>>
ZSub(a, b)  == <<FSub(a[1], b[1]), FSub(a[2], b[2])>>
ZMul(a, b)  == <<FSub(FMul(a[1], b[1]), FMul(a[2], b[2])),
                 FAdd(FMul(a[1], b[2]), FMul(a[2], b[1]))>>
ZConj(a)    == <<a[1], FNeg(a[2])>>
ZAbs2(a)    == FAdd(FSq(a[1]), FSq(a[2]))
ZScale(s, a) == <<FMul(s, a[1]), FMul(s, a[2])>>    \* s real Flt
ZSum(s)     == FoldLeft(LAMBDA acc, x : ZAdd(acc, x), ZZero, s)
ZL1(a)      == FAdd(FAbs(a[1]), FAbs(a[2]))
ZClose(x, y, scale, slack) ==
  /\ Close(x[1], y[1], scale, slack) /\ Close(x[2], y[2], scale, slack)
IsZ(x) == /\ x \in Seq(Seq(Int)) /\ Len(x) = 2 /\ IsFlt(x[1]) /\ IsFlt(x[2])
=============================================================================
