SPECIFICATION TSpec
CONSTANTS
  Ids = {1, 2}
  Kinds = {"watson", "cwmm", "bingham", "cbmm", "cacgmm", "vmfmm"}
  Stateful = {"watson", "cwmm", "bingham", "cbmm"}
  Dims = {2, 3}
  MaxCs = {500, 50, 0, 20}
  Datas = {1, 2, 3}
  MaxLen = 100
INVARIANT FlushInv
INVARIANT ImplRefinesAbs
INVARIANT TableConsistent
POSTCONDITION Accepted
CHECK_DEADLOCK FALSE
