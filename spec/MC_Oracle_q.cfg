SPECIFICATION Spec
CONSTANTS
  K = 3
  NF = 1
  T = 2
  Vals = {0, 1, 2}
INVARIANT InvertsOptimalMultiply
INVARIANT InvertsGreedyEuclid
INVARIANT InvertsGreedyMultiply
INVARIANT MappingIsPerm
INVARIANT MappingInvertsField
