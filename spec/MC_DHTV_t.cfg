SPECIFICATION Spec
CONSTANTS
  K = 2
  NF = 3
  T = 2
  Vals = {0, 1}
  Metrics = {"multiply", "euclidean"}
  Algs = {"greedy", "optimal"}
INVARIANT PermPerBin
INVARIANT NetReorder
INVARIANT PlanCovers
INVARIANT RunAgrees
INVARIANT IdentityOnFixpoint
