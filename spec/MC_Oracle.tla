------------------------------ MODULE MC_Oracle -------------------------------
(* Oracle alignment undoes every per-frequency permutation of a reference with *)
(* pairwise distinct rows per bin (C15), and never breaks bijectivity (C14).   *)
EXTENDS Alignment, TLC
CONSTANTS K, NF, T, Vals
VARIABLES ref, field, mask
vars == <<ref, field, mask>>
Rows == [1..T -> Vals]
DistinctRows(r) == \A f \in 1..NF : \A a, b \in 1..K : a # b => r[a][f] # r[b][f]
Init == /\ ref \in {r \in [1..K -> [1..NF -> Rows]] : DistinctRows(r)}
        /\ field \in [1..NF -> Perms(K)]
        /\ mask = [k \in 1..K |-> [f \in 1..NF |-> ref[field[f][k]][f]]]
Next == UNCHANGED vars
Spec == Init /\ [][Next]_vars
Out(metric, alg) == ApplyMapping(mask, OracleRun(metric, alg, mask, ref))
EqualNorms == \A f \in 1..NF : \A a, b \in 1..K : Dot(ref[a][f], ref[a][f]) = Dot(ref[b][f], ref[b][f])
\* optimal + multiply inverts for distinct rows (sum_k <r_k, r_p(k)> <= sum_k |r_k|^2, equality iff p fixes rows)
InvertsOptimalMultiply == Out("multiply", "optimal") = ref
\* euclidean: the correct assignment has distance 0, every other entry is < 0
InvertsGreedyEuclid == Out("euclidean", "greedy") = ref
\* greedy + multiply needs rows of equal norm (then multiply has the order of cos)
InvertsGreedyMultiply == EqualNorms => Out("multiply", "greedy") = ref
MappingIsPerm == /\ IsPermPerBin(OracleRun("multiply", "optimal", mask, ref), K, NF)
                 /\ IsPermPerBin(OracleRun("multiply", "greedy", mask, ref), K, NF)
                 /\ IsPermPerBin(OracleRun("euclidean", "greedy", mask, ref), K, NF)
\* the oracle mapping is the inverse of the injected field
MappingInvertsField == \A f \in 1..NF : \A k \in 1..K :
                          field[f][OracleRun("multiply", "optimal", mask, ref)[k][f]] = k
=============================================================================
