------------------------------- MODULE Trace_Beam ------------------------------
(* Trace specification for the beamforming module (C11, C12, C13).  A record holds *)
(* a list of per-bin items (r.items); every relation is evaluated for every item.  *)
EXTENDS Beamform, BfName, TraceKit
VARIABLES l, verdicts
vars == <<l, verdicts>>

All(r, P(_)) == \A i \in 1..Len(r.items) : P(r.items[i])
Fin(v) == ZIsVec(v)
NonDiag(M) == \E i, j \in 1..Len(M) : i # j /\ M[i][j] # ZZero

MvdrChecks(r) ==
  IF r.exc # "" THEN << <<"raises", FALSE>> >>
  ELSE IF ~All(r, LAMBDA it : Fin(it.w)) THEN << <<"finite", FALSE>> >>
  ELSE << <<"distortionless", All(r, LAMBDA it : Distortionless(it.w, it.a))>>,
          <<"kkt", All(r, LAMBDA it : KKT(it.phin, it.w, it.a))>>,
          <<"probes", All(r, LAMBDA it : \A j \in 1..Len(it.probes) : NoBetterProbe(it.phin, it.w, it.a, it.probes[j]))>> >>
LcmvChecks(r) ==
  IF r.exc # "" THEN << <<"raises", FALSE>> >>
  ELSE IF ~All(r, LAMBDA it : Fin(it.w)) THEN << <<"finite", FALSE>> >>
  ELSE << <<"constraints", All(r, LAMBDA it : LcmvOK(it.As, it.resp, it.w))>> >>
SoudenChecks(r) ==
  IF r.exc # "" THEN << <<"raises", FALSE>> >>
  ELSE IF ~All(r, LAMBDA it : Fin(it.w)) THEN << <<"finite", FALSE>> >>
  ELSE << <<"souden", All(r, LAMBDA it : SoudenOK(it.phin, it.a, it.w, r.ref))>> >>
WmwfChecks(r) ==
  IF r.exc # "" THEN << <<"raises", FALSE>> >>
  ELSE IF ~All(r, LAMBDA it : Fin(it.w)) THEN << <<"finite", FALSE>> >>
  ELSE << <<"wmwf", All(r, LAMBDA it : WmwfOK(it.phin, it.a, it.sigma, r.mu, it.w, r.ref))>> >>
\* two computations that must agree (per item: vectors w1, w2)
PairChecks(r) ==
  IF r.exc # "" THEN << <<"raises", FALSE>> >>
  ELSE IF ~All(r, LAMBDA it : Fin(it.w1) /\ Fin(it.w2)) THEN << <<"finite", FALSE>> >>
  ELSE << <<r.what, All(r, LAMBDA it : VecClose(it.w1, it.w2, SLK))>> >>
\* automatic reference channel: r.cands[c].items[f].w for every candidate c; first arg-max of
\* SNR_c = sum_f w^H Phi_xx w / max(sum_f w^H Phi_nn w, tiny)
RefChecks(r) ==
  IF r.exc # "" THEN << <<"raises", FALSE>> >>
  ELSE LET C == Len(r.cands)
           num(c) == FSum([f \in 1..Len(r.items) |-> QuadS(r.items[f].phix, r.cands[c][f])[1][1]])
           \* the library's guard: the noise power is floored at the smallest normal double, so an all-zero candidate (0 / 0) has SNR 0
           den(c) == FMax(FSum([f \in 1..Len(r.items) |-> QuadS(r.items[f].phin, r.cands[c][f])[1][1]]), FNorm(1, -1022))
           \* snr(a) > snr(b)  <=>  num(a) den(b) > num(b) den(a)   (denominators positive)
           better(a, b) == FLt(FMul(num(b), den(a)), FMul(num(a), den(b)))
           clearly(a, b) == FLt(FMul(FMul(num(b), den(a)), FAdd(FOne, FNorm(SLK * 8, -19))), FMul(num(a), den(b)))
           ch == r.chosen + 1
       IN << <<"range", ch \in 1..C>>,
             <<"argmax", ch \in 1..C => \A c \in 1..C : ~clearly(c, ch)>>,
             <<"first", ch \in 1..C => \A c \in 1..(ch - 1) : ~clearly(c, ch) => better(ch, c) \/ ~clearly(ch, c)>> >>
GevChecks(r) ==
  IF r.exc # "" THEN << <<"raises", FALSE>> >>
  ELSE IF ~All(r, LAMBDA it : Fin(it.w)) THEN << <<"finite", FALSE>> >>
  ELSE << <<"eigen", All(r, LAMBDA it : GevOK(it.phix, it.phin, it.w))>>,
          <<"maximal", All(r, LAMBDA it : \A j \in 1..Len(it.probes) : GevMaximal(it.phix, it.phin, it.w, it.probes[j]))>> >>
PcaChecks(r) ==
  IF r.exc # "" THEN << <<"raises", FALSE>> >>
  ELSE IF ~All(r, LAMBDA it : Fin(it.w)) THEN << <<"finite", FALSE>> >>
  ELSE << <<"eigen", All(r, LAMBDA it : PcaOK(it.phi, it.w))>>,
          <<"maximal", All(r, LAMBDA it : \A j \in 1..Len(it.probes) :
                            GevMaximal(it.phi, Identity(Len(it.w)), it.w, it.probes[j]))>>,
          <<"scaling", All(r, LAMBDA it :
               CASE r.scaling = "none" -> CloseRel(Norm2(it.w), FOne, SLK)
                 [] r.scaling = "trace" -> CloseRel(Norm2(it.w), TraceM(it.phi)[1], SLK)
                 \* |w| = lambda  <=>  |w|^2 |w|^4 = (w^H Phi w)^2
                 [] r.scaling = "eigenvalue" ->
                      CloseRel(FMul(Norm2(it.w), FSq(Norm2(it.w))), FSq(QuadS(it.phi, it.w)[1][1]), SLK * 4))>> >>
Rank1Checks(r) ==
  IF r.exc # "" THEN << <<"raises", FALSE>> >>
  ELSE IF ~All(r, LAMBDA it : ZIsMat(it.r1)) THEN << <<"finite", FALSE>> >>
  ELSE << <<"rank_one", All(r, LAMBDA it : RankOneOK(it.r1, SLK))>>,
          <<"trace", All(r, LAMBDA it : ZClose(TraceM(it.r1), TraceM(it.phi), FAdd(ZAbs1(TraceM(it.phi)), ZAbs1(TraceM(it.r1))), SLK))>>,
          <<"direction", All(r, LAMBDA it : Len(it.a) > 0 => \A c \in 1..Len(it.a) : Parallel(Col(it.r1, c), it.a, SLK))>> >>
BanChecks(r) ==
  IF r.exc # "" THEN << <<"raises", FALSE>> >>
  ELSE IF ~All(r, LAMBDA it : Fin(it.out)) THEN << <<"finite", FALSE>> >>
  ELSE << <<"ban", All(r, LAMBDA it : BanOK(it.phin, it.w, it.out))>> >>
\* get_bf_vector(name) versus the composition of primitives the specification prescribes
NameChecks(r) ==
  LET p == PipelineOf(r.name)
  IN IF ~p.ok THEN << <<"rejected", r.exc_direct \in {"ValueError", "AssertionError"}>> >>
     ELSE << <<"pipeline", r.pipeline = p>>,
             <<"accepted", r.exc_direct = "" /\ r.exc_composed = "">>,
             \* bit-identical wherever every step of the name is a public primitive (both sides then run the same code); the
             \* scaled-GEV steering vector Phi_nn w_gev is a private helper of the wrapper that the composition re-implements:
             \* there the two results are compared as numbers (any arrangement of that product is the same composition)
             <<"identical", IF p.pre = "atf_scaled_gev" /\ r.d_direct # r.d_composed
                            THEN HasKey(r, "wd") /\ Len(r.wd) = Len(r.wc) /\ \A f \in 1..Len(r.wd) : ZIsVec(r.wd[f]) /\ ZIsVec(r.wc[f]) /\ VecClose(r.wd[f], r.wc[f], 8)
                            ELSE r.d_direct = r.d_composed>> >>
\* apply_beamforming_vector: out[t] = sum_d conj(w_d) x[d][t]
ApplyChecks(r) ==
  IF r.exc # "" THEN << <<"raises", FALSE>> >>
  ELSE << <<"shape", r.shape = r.expect_shape>>,       \* one output sequence per leading index: (..., F, T), also for axes of length one
          <<"apply", All(r, LAMBDA it : \A t \in 1..Len(it.out) :
               LET d == ZDotS(it.w, [j \in 1..Len(it.w) |-> it.x[j][t]])
               IN  ZClose(d[1], it.out[t], FAdd(d[2], ZAbs1(it.out[t])), SLK))>> >>
\* phase_correction per leading index: items have w, out : F x D
PhaseChecks(r) ==
  IF r.exc # "" THEN << <<"raises", FALSE>> >>
  ELSE IF ~All(r, LAMBDA it : ZIsMat(it.out)) THEN << <<"finite", FALSE>> >>
  ELSE << <<"magnitude", All(r, LAMBDA it : \A f \in 1..Len(it.w) :
               /\ CloseRel(Norm2(it.out[f]), Norm2(it.w[f]), SLK) /\ Parallel(it.out[f], it.w[f], SLK))>>,
          <<"first_bin", All(r, LAMBDA it : VecClose(it.out[1], it.w[1], SLK))>>,
          <<"aligned", All(r, LAMBDA it : \A f \in 2..Len(it.w) :
               LET d == ZDotS(it.out[f], it.out[f - 1])
               IN  /\ Close(d[1][2], FZero, d[2], SLK)
                   /\ FLe(FNeg(FMul(FNorm(SLK, -19), d[2])), d[1][1]))>> >>
FiniteChecks(r) ==
  IF r.exc # "" THEN << <<"raises", FALSE>> >>
  ELSE << <<"finite", All(r, LAMBDA it : Fin(it.w))>> >>

(* ---- exact lattice variants: w = n / den with n Gaussian integers (from the code's doubles),
        Phi, a Gaussian integers; every relation is an integer identity ---- *)
CDotI(x, y) == CSum([i \in 1..Len(x) |-> CMul(CConj(x[i]), y[i])])
CMatVec(M, v) == TLCEval([i \in 1..Len(M) |-> CSum([j \in 1..Len(v) |-> CMul(M[i][j], v[j])])])
CParallel(x, y) == \A i, j \in 1..Len(x) : i < j => CMul(x[i], y[j]) = CMul(x[j], y[i])
ExactChecks(r) ==
  IF r.exc # "" THEN << <<"raises", FALSE>> >>
  ELSE IF ~All(r, LAMBDA it : it.isint) THEN << <<"rational", FALSE>> >>
  ELSE CASE r.kind = "mvdrx" ->
         << <<"distortionless", All(r, LAMBDA it : CDotI(it.n, it.a) = <<it.den, 0>>)>>,
            <<"kkt", All(r, LAMBDA it : LET v == CMatVec(it.phin, it.n) mu == CDotI(it.a, v)
                                        IN  CParallel(v, it.a) /\ mu[2] = 0 /\ mu[1] > 0)>> >>
       [] r.kind = "soudenx" ->
         << <<"souden", All(r, LAMBDA it : LET v == CMatVec(it.phin, it.n)
                                           IN  CParallel(v, it.a) /\ CDotI(it.n, it.a) = CScale(it.den, it.a[r.ref]))>> >>
       [] r.kind = "wmwfx" ->
         \* (a a^H + mu Phi) n = den a conj(a_ref),  mu = r.mu[1] / r.mu[2]
         << <<"wmwf", All(r, LAMBDA it :
               LET an == CDotI(it.a, it.n) pn == CMatVec(it.phin, it.n)
               IN  \A d \in 1..Len(it.a) :
                     CAdd(CScale(r.mu[2], CMul(it.a[d], an)), CScale(r.mu[1], pn[d]))
                       = CScale(r.mu[2] * it.den, CMul(it.a[d], CConj(it.a[r.ref]))))>> >>

Checks(r) == CASE r.kind = "mvdr" -> MvdrChecks(r) [] r.kind = "lcmv" -> LcmvChecks(r)
               [] r.kind = "souden" -> SoudenChecks(r) [] r.kind = "wmwf" -> WmwfChecks(r)
               [] r.kind = "pair" -> PairChecks(r) [] r.kind = "refch" -> RefChecks(r)
               [] r.kind = "gev" -> GevChecks(r) [] r.kind = "pca" -> PcaChecks(r)
               [] r.kind = "rank1" -> Rank1Checks(r) [] r.kind = "ban" -> BanChecks(r)
               [] r.kind = "name" -> NameChecks(r) [] r.kind = "apply" -> ApplyChecks(r)
               [] r.kind = "phase" -> PhaseChecks(r) [] r.kind = "finite" -> FiniteChecks(r)
               [] r.kind \in {"mvdrx", "soudenx", "wmwfx"} -> ExactChecks(r)
NT(r) == IF r.kind = "name" THEN PipelineOf(r.name).ok /\ (PipelineOf(r.name).pre # "none" \/ PipelineOf(r.name).ban)
         ELSE IF r.kind \in {"mvdrx", "soudenx", "wmwfx"} THEN r.exc = "" /\ Len(r.items) > 0 /\ r.items[1].phin[1][2] # CZero
         ELSE IF r.kind \in {"mvdr", "lcmv", "souden", "wmwf", "gev", "ban"} /\ r.exc = "" /\ Len(r.items) > 0
              THEN NonDiag(r.items[1].phin)
         ELSE IF r.kind \in {"pca", "rank1"} /\ r.exc = "" /\ Len(r.items) > 0 THEN NonDiag(r.items[1].phi)
         ELSE r.exc = ""
Init == l = 1 /\ verdicts = <<>>
Next == /\ l <= Len(Trace)
        /\ LET r == Trace[l] IN
             verdicts' = Append(verdicts, Verdict(r.id, FailedOf(Checks(r)), NT(r), ""))
        /\ l' = l + 1
Spec == Init /\ [][Next]_vars
FlushInv == Flush(l, verdicts)
=============================================================================
