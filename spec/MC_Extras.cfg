SPECIFICATION Spec
CONSTANTS
  Ks = {2, 3}
  Ts = {1, 2, 3}
INVARIANT TypeOK
INVARIANT IsDist
INVARIANT OneIsMean
INVARIANT InfIsUniform
INVARIANT Shrinks
INVARIANT OrderKept
CHECK_DEADLOCK FALSE
