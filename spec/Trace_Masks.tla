------------------------------ MODULE Trace_Masks ------------------------------
(* Trace specification for the oracle masks (C18): every output element of a call *)
(* is compared exactly with the value Masks.tla defines for that axis layout.     *)
EXTENDS Masks, TraceKit
VARIABLES l, verdicts
vars == <<l, verdicts>>

IsRatR(c) == Len(c) = 2 /\ c[2] > 0
EqRatR(c, nd) == IF nd[2] = 0 THEN c[1] = 0 ELSE c[1] * nd[2] = c[2] * nd[1]
IsRatC2(c) == Len(c) = 2 /\ Len(c[1]) = 2 /\ Len(c[2]) = 2 /\ c[1][2] > 0 /\ c[2][2] > 0
Idx(r) == AllIdx(r.out_shape)
AllOut(r, P(_)) == \A i \in 1..Len(Idx(r)) : P(Idx(r)[i])

\* the code can only fail when no point is admitted: the strongest point carries >= the fraction
LorenzPremiseWeak(r, o) ==
  LET f == Full(r, o) g == LGroup(r, f)
      pw == [j \in 1..Len(g) |-> Pow(r, g[j])]
      total == SumSeq(pw)
  IN  total > 0 /\ \A j \in 1..Len(pw) : pw[j] * r.frac[2] < r.frac[1] * total
ExpShape(r) == IF r.fn \in {"ibm", "wiener", "lorenz"} THEN OutShapeOf(r) ELSE r.shape
LevelOK(r, c, lev) ==
  CASE lev = "hi" -> EqRatR(c, LevelHi(r))
    [] lev = "lo" -> EqRatR(c, LevelLo(r))
    [] lev = "tie" -> EqRatR(c, LevelHi(r)) \/ EqRatR(c, LevelLo(r))
    [] OTHER -> FALSE

Checks(r) ==
  IF r.exc # "" THEN
     \* lorenz_mask raises ValueError when a single point already carries the Lorenz fraction
     \* (outside the property's domain); any other exception is a violation
     << <<"raises", /\ r.fn = "lorenz" /\ r.exc = "ValueError"
                     /\ \E i \in 1..Len(AllIdx(ExpShape(r))) : ~LorenzPremiseWeak(r, AllIdx(ExpShape(r))[i])>> >>
  ELSE IF r.out_shape # ExpShape(r) THEN << <<"shape", FALSE>> >>
  ELSE CASE r.fn = "ibm" ->
         << <<"typed", AllOut(r, LAMBDA o : IsRatR(At(r.out, o)))>>,
            <<"value", AllOut(r, LAMBDA o : IsRatR(At(r.out, o)) => EqRatR(At(r.out, o), IBM(r, o)))>> >>
       [] r.fn = "wiener" ->
         << <<"typed", AllOut(r, LAMBDA o : IsRatR(At(r.out, o)))>>,
            <<"value", AllOut(r, LAMBDA o : IsRatR(At(r.out, o)) => EqRatR(At(r.out, o), Wiener(r, o)))>>,
            <<"sum_one", AllOut(r, LAMBDA o : (IsRatR(At(r.out, o)) /\ SumPow(r, Full(r, o)) > 0) =>
                 RSum([k \in 1..KSize(r) |-> LET c == At(r.out, SetAx(o, IF HasDa(r) /\ ~r.keepdims /\ Da(r) < Ka(r) THEN Ka(r) - 1 ELSE Ka(r), k - 1)) IN c]) = <<1, 1>>)>> >>
       [] r.fn = "ratio" ->
         << <<"mod", ModOK(r)>>,
            <<"typed", AllOut(r, LAMBDA o : IsRatR(At(r.out, o)))>>,
            <<"value", AllOut(r, LAMBDA o : IsRatR(At(r.out, o)) => EqRatR(At(r.out, o), Ratio(r, o)))>> >>
       [] r.fn = "icm" ->
         << <<"typed", AllOut(r, LAMBDA o : ICMDen(r, o) # 0 => IsRatC2(At(r.out, o)))>>,
            <<"value", AllOut(r, LAMBDA o : (ICMDen(r, o) # 0 /\ IsRatC2(At(r.out, o))) =>
                 LET c == At(r.out, o) n == ICMNum(r, o) d == ICMDen(r, o)
                 IN  c[1][1] * d = c[1][2] * n[1] /\ c[2][1] * d = c[2][2] * n[2])>> >>
       [] r.fn = "psm" ->
         \* defined where the mixture is non-zero (Re of the complex mask); where the mixture
         \* vanishes the eps guard only promises a finite value, and 0 for a silent source
         << <<"typed", AllOut(r, LAMBDA o : (ICMDen(r, o) # 0 \/ CAbs2(Sig(r, o)) = 0) => IsRatR(At(r.out, o)))>>,
            <<"finite", AllOut(r, LAMBDA o : At(r.out, o)[2] # 0 \/ At(r.out, o) = <<0, 0>>)>>,
            <<"value", AllOut(r, LAMBDA o : IsRatR(At(r.out, o)) =>
                 IF ICMDen(r, o) # 0 THEN EqRatR(At(r.out, o), <<ICMNum(r, o)[1], ICMDen(r, o)>>)
                 ELSE (CAbs2(Sig(r, o)) = 0 => At(r.out, o)[1] = 0))>> >>
       [] r.fn = "quantile" ->
         << <<"mod", ModOK(r)>>,
            <<"typed", AllOut(r, LAMBDA o : IsRatR(At(r.out, o)))>>,
            <<"value", AllOut(r, LAMBDA o : IsRatR(At(r.out, o)) => LevelOK(r, At(r.out, o), QuantileLevel(r, o)))>> >>
       [] r.fn = "lorenz" ->
         << <<"typed", AllOut(r, LAMBDA o : IsRatR(At(r.out, o)))>>,
            <<"value", AllOut(r, LAMBDA o : (IsRatR(At(r.out, o)) /\ LorenzPremiseWeak(r, o)) =>
                           LevelOK(r, At(r.out, o), LorenzLevel(r, o)))>> >>
\* non-trivial: >= 2 sources with power at some point and the layout differs from the default
NT(r) == /\ r.exc = "" /\ r.out_shape = ExpShape(r)
         /\ IF r.fn \in {"quantile", "lorenz"}
            THEN \E i \in 1..Len(Idx(r)) : \E j \in 1..Len(Idx(r)) : At(r.out, Idx(r)[i]) # At(r.out, Idx(r)[j])
            ELSE /\ KSize(r) >= 2 /\ (Ka(r) # 0 \/ HasDa(r))
                 /\ \E i \in 1..Prod(r.shape) : LET ix == AllIdx(r.shape)[i]
                       IN  Cardinality({k \in 0..(KSize(r) - 1) : CAbs2(Sig(r, SetAx(ix, Ka(r), k))) > 0}) >= 2
Init == l = 1 /\ verdicts = <<>>
Next == /\ l <= Len(Trace)
        /\ LET r == Trace[l] IN
             verdicts' = Append(verdicts, Verdict(r.id, FailedOf(Checks(r)), NT(r), ""))
        /\ l' = l + 1
Spec == Init /\ [][Next]_vars
FlushInv == Flush(l, verdicts)
=============================================================================
