------------------------------- MODULE MC_Mvdr ---------------------------------
(* D = 2 lattice instance pinning the conventions the trace relations rely on:     *)
(* for every Hermitian PD Phi = [[p, c], [conj c, q]] and steering vector a over a  *)
(* Gaussian-integer lattice, x = adj(Phi) a satisfies Phi x = det a, so             *)
(* w = x / (a^H x) has w^H a = 1 and Phi w = mu a with mu = det / (a^H x) > 0, and  *)
(* no lattice vector p does better: det |p^H a|^2 <= (a^H x) p^H Phi p.             *)
(* Souden for Phi_xx = a a^H: column ref of Phi^-1 Phi_xx / tr(.) = x conj(a_ref)/(a^H x). *)
EXTENDS Num, TLC
CV == {<<0, 0>>, <<1, 0>>, <<0, 1>>, <<-1, 0>>, <<1, 1>>, <<2, -1>>}
VARIABLES p, q, c, a
vars == <<p, q, c, a>>
Init == /\ p \in 1..3 /\ q \in 1..3 /\ c \in CV /\ a \in CV \X CV
        /\ p * q > CAbs2(c)            \* positive definite
        /\ a # <<CZero, CZero>>
Next == UNCHANGED vars
Spec == Init /\ [][Next]_vars
Det == p * q - CAbs2(c)
Phi(i, j) == IF i = 1 /\ j = 1 THEN <<p, 0>> ELSE IF i = 2 /\ j = 2 THEN <<q, 0>> ELSE IF i = 1 THEN c ELSE CConj(c)
X == << CSub(CScale(q, a[1]), CMul(c, a[2])), CSub(CScale(p, a[2]), CMul(CConj(c), a[1])) >>   \* adj(Phi) a
S == CAdd(CMul(CConj(a[1]), X[1]), CMul(CConj(a[2]), X[2]))                                     \* a^H x
PhiX(i) == CAdd(CMul(Phi(i, 1), X[1]), CMul(Phi(i, 2), X[2]))
AdjugateSolves == PhiX(1) = CScale(Det, a[1]) /\ PhiX(2) = CScale(Det, a[2])
SRealPositive == S[2] = 0 /\ S[1] > 0
\* w = x / S : w^H a = conj(S)/conj(S)... = 1  <=>  x^H a = conj(S)
Distortionless == CAdd(CMul(CConj(X[1]), a[1]), CMul(CConj(X[2]), a[2])) = CConj(S)
Quad(v) == CAdd(CAdd(CMul(CMul(CConj(v[1]), Phi(1, 1)), v[1]), CMul(CMul(CConj(v[1]), Phi(1, 2)), v[2])),
                CAdd(CMul(CMul(CConj(v[2]), Phi(2, 1)), v[1]), CMul(CMul(CConj(v[2]), Phi(2, 2)), v[2])))
NoLatticeVectorBetter ==
  \A v \in CV \X CV : LET pa == CAdd(CMul(CConj(v[1]), a[1]), CMul(CConj(v[2]), a[2]))
                      IN  Det * CAbs2(pa) <= S[1] * Quad(v)[1]
\* Souden (rank-one target a a^H): column r of Phi^-1 a a^H is x conj(a_r) / det, trace = S / det
\* => w = x conj(a_r) / S and w^H a = a_r conj(S)/S = a_r
SoudenReproducesReference ==
  \A r \in 1..2 : LET w == <<CMul(X[1], CConj(a[r])), CMul(X[2], CConj(a[r]))>>     \* times 1/S
                  IN  CAdd(CMul(CConj(w[1]), a[1]), CMul(CConj(w[2]), a[2])) = CScale(S[1], a[r])
=============================================================================
