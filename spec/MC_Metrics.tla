------------------------------ MODULE MC_Metrics -------------------------------
(* What the SXR definitions imply, on all small integer scenes:                  *)
(*   1/SDR = 1/SIR + 1/SNR, SDR <= min(SIR, SNR), rescaling laws, and for        *)
(*   output_sxr: selection maximises captured power, invariance under output     *)
(*   permutations.  K = 2 sources, 2 outputs, T = 2 samples over Vals.           *)
EXTENDS Metrics
CONSTANTS Vals
ValsQ == {0, 1}
ValsT == {-1, 0, 1}
VARIABLES c, n
Init == /\ c \in [1..2 -> [1..2 -> [1..2 -> Vals]]]     \* contrib[ks][kt][t]
        /\ n \in [1..2 -> [1..2 -> Vals]]                \* noise[kt][t]
Next == UNCHANGED <<c, n>>
Spec == Init /\ [][Next]_<<c, n>>
s == BestSel(c)
SS(k) == OutSS(c, s, k)
II(k) == OutII(c, s, k)
NN(k) == OutNN(n, s, k)
\* 1/SDR = 1/SIR + 1/SNR  <=>  (I+N)/S = I/S + N/S : holds by construction of SDR = S/(I+N);
\* the non-trivial content: SDR <= SIR and SDR <= SNR (cross-multiplied, S > 0)
SdrBelowBoth == \A k \in 1..2 : SS(k) > 0 => (SS(k) * II(k) <= SS(k) * (II(k) + NN(k)) /\ SS(k) * NN(k) <= SS(k) * (II(k) + NN(k)))
SelectionMaximises == \A q \in Sels(2, 2) : Captured(c, q) <= Captured(c, s)
\* permuting the outputs (swap kt) permutes the selection and leaves S, I, N per source unchanged
Swap(x) == [k \in 1..2 |-> [j \in 1..2 |-> x[k][3 - j]]]
OutputOrderInvariant ==
  LET c2 == Swap(c) n2 == [j \in 1..2 |-> n[3 - j]] s2 == BestSel(c2)
  IN  ~SelTie(c) => \A k \in 1..2 : /\ OutSS(c2, s2, k) = SS(k) /\ OutII(c2, s2, k) = II(k) /\ OutNN(n2, s2, k) = NN(k)
\* scaling all images by 2: S and I scale by 4, N unchanged -> SIR unchanged, SNR times 4
ImageScaling ==
  LET c2 == [k \in 1..2 |-> [j \in 1..2 |-> [t \in 1..2 |-> 2 * c[k][j][t]]]] s2 == BestSel(c2)
  IN  s2 = s /\ \A k \in 1..2 : OutSS(c2, s2, k) = 4 * SS(k) /\ OutII(c2, s2, k) = 4 * II(k)
=============================================================================
