-------------------------------- MODULE Density --------------------------------
(***************************************************************************)
(* Closed-form log densities of the distribution objects (C07).            *)
(* Algebra (differences, triangular solves, quadratic forms, sums) is      *)
(* evaluated here in Flt; scalar transcendental functions are kernels:     *)
(* a kernel entry [fn, arg, val] is accepted only if arg equals the        *)
(* quantity computed HERE at that use site; val comes from an independent  *)
(* evaluator (math / mpmath in the orchestrator).                          *)
(*  Gaussian (full)   : -D/2 ln 2pi - sum ln L_ii - 1/2 |v|^2,  L L^T = S, L v = y - m  *)
(*  Gaussian diagonal : -D/2 ln 2pi - 1/2 sum ln s_i - 1/2 sum d_i^2 / s_i               *)
(*  Gaussian spherical: -D/2 ln 2pi - D/2 ln s - 1/2 |d|^2 / s                          *)
(*  complex Gaussian  : -D ln pi - 2 sum ln L_ii - |v|^2,  L L^H = S, L v = y           *)
(*  cACG              : -D ln(z^H B^-1 z) - sum ln lambda_e,  B = U diag(lambda) U^H     *)
(*  complex Watson    : kappa |w^H z|^2 - ln(2 pi^D / (D-1)! 1F1(1; D; kappa))           *)
(*  von Mises-Fisher  : kappa mu^T x - [(D/2) ln 2pi + ln I_{D/2-1}(kappa) - (D/2-1) ln kappa] *)
(*  complex Bingham   : z^H B z - ln c(lambda)                                          *)
(***************************************************************************)
EXTENDS LinAlg

DS == 256
KernOK(k, x, sc) == Close(k.arg, x, FAdd(FAbs(x), sc), DS)
\* lower-triangular L with positive diagonal and L L^H = S (S: D x D of Z)
CholOK(L, S) ==
  LET D == Len(S)
  IN  /\ \A a \in 1..D : FSgn(L[a][a][1]) > 0 /\ L[a][a][2] = FZero /\ \A b \in (a + 1)..D : L[a][b] = ZZero
      /\ \A a, b \in 1..D :
           LET terms == [e \in 1..D |-> ZMul(L[a][e], ZConj(L[b][e]))]
           IN  ZClose(ZSum(terms), S[a][b], FAdd(FSum([e \in 1..D |-> ZL1(terms[e])]), ZL1(S[a][b])), DS)
\* L v = d
SolveOK(L, v, d) ==
  \A a \in 1..Len(d) :
     LET terms == [e \in 1..Len(d) |-> ZMul(L[a][e], v[e])]
     IN  ZClose(ZSum(terms), d[a], FAdd(FSum([e \in 1..Len(d) |-> ZL1(terms[e])]), ZL1(d[a])), DS)
=============================================================================
