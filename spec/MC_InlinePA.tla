------------------------------ MODULE MC_InlinePA -------------------------------
EXTENDS InlinePA
CONSTANTS K, T
VARIABLES ms, me
Init == ms \in [1..K -> [1..T -> 0..2]] /\ me \in [1..K -> [1..T -> 0..2]]
Next == UNCHANGED <<ms, me>>
Spec == Init /\ [][Next]_<<ms, me>>
Best == CHOOSE p \in PermSet(K) : IsBest(ms, me, p)
NeverWorseThanIdentity == RLe(Aux(ms, me, IdPerm(K)), Aux(ms, me, Best))
\* relabelling the spatial classes does not change the optimum value
OptimumInvariant == \A q \in PermSet(K) :
   Aux([k \in 1..K |-> ms[q[k]]], me, CHOOSE p \in PermSet(K) : IsBest([k \in 1..K |-> ms[q[k]]], me, p)) = Aux(ms, me, Best)
PosteriorIsDistribution == \A t \in 1..T : ColSumR(Post(ms, me, [k \in 1..K |-> 1], Best), t) = <<1, 1>>
=============================================================================
