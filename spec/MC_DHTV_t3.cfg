SPECIFICATION Spec
CONSTANTS
  K = 3
  NF = 3
  T = 1
  Vals = {0, 1}
  Metrics = {"multiply", "euclidean"}
  Algs = {"greedy", "optimal"}
INVARIANT PermPerBin
INVARIANT NetReorder
INVARIANT PlanCovers
INVARIANT RunAgrees
