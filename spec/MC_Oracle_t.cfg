SPECIFICATION Spec
CONSTANTS
  K = 2
  NF = 3
  T = 2
  Vals = {0, 1}
INVARIANT InvertsOptimalMultiply
INVARIANT InvertsGreedyEuclid
INVARIANT InvertsGreedyMultiply
INVARIANT MappingIsPerm
INVARIANT MappingInvertsField
