----------------------------- MODULE Trace_Session -----------------------------
(***************************************************************************)
(* Trace specification for C20.                                            *)
(*  session records : one TLC-generated behaviour of Session.tla replayed  *)
(*    into real trainer objects; each record is one operation with what    *)
(*    the implementation did.  The trace spec takes the SAME actions       *)
(*    (New, Fit) and compares accepted / dimension / result classes.       *)
(*  call records    : one public call with read-only arguments: arguments  *)
(*    unchanged, result reproducible; a memo of (function, argument        *)
(*    digests, seed) -> result digest carried across the whole trace must  *)
(*    stay functional.                                                     *)
(***************************************************************************)
EXTENDS Session, TraceKit
VARIABLES l, verdicts, memo
tvars == <<vars, l, verdicts, memo>>

MemoKey(r) == <<r.fn, r.argdigest, r.seed>>
MemoOK(r, d) == \A i \in 1..Len(memo) : memo[i][1] = MemoKey(r) => memo[i][2] = d

TInit == Init /\ l = 1 /\ verdicts = <<>> /\ memo = <<>>

Rec == Trace[l]
Consume(failed, nt) == /\ verdicts' = Append(verdicts, Verdict(Rec.id, failed, nt, ""))
                       /\ l' = l + 1

Reset == /\ l <= Len(Trace) /\ Rec.kind = "reset"
         /\ tr' = [i \in Ids |-> Unused] /\ hist' = <<>> /\ last' = [op |-> "init"]
         /\ UNCHANGED memo /\ Consume(<<>>, FALSE)

TNew == /\ l <= Len(Trace) /\ Rec.kind = "new"
        /\ New(Rec.trid, Rec.tkind, Rec.dim, Rec.maxc)
        /\ UNCHANGED memo
        /\ Consume(FailedOf(<< <<"constructed", Rec.exc = "">> >>), FALSE)

TFit == /\ l <= Len(Trace) /\ Rec.kind = "fit"
        /\ Fit(Rec.trid, Rec.D, Rec.data)
        /\ LET key == [fn |-> "fit", argdigest |-> Rec.argdigest, seed |-> 0]
           IN  /\ memo' = IF last'.accepted /\ Rec.accepted THEN Append(memo, <<MemoKey(key), Rec.d>>) ELSE memo
               /\ Consume(FailedOf(<<
                    <<"accepted", Rec.accepted = last'.accepted>>,
                    <<"rejection_explicit", ~last'.accepted => Rec.exc = "AssertionError">>,
                    <<"dimension", tr[Rec.trid].kind \in Stateful => Rec.dim_after = last'.dim_after>>,
                    \* history-free: the result equals that of a fresh trainer on the same arguments
                    <<"history_free", (Rec.accepted /\ last'.accepted) => Rec.d = Rec.d_fresh>>,
                    <<"functional", (Rec.accepted /\ last'.accepted) => MemoOK(key, Rec.d)>>,
                    \* ... and that of a fresh trainer in a fresh interpreter process that met the fits in another order
                    \* (Rec.d_proc = "" when no reference evaluation was made)
                    <<"process_history_free", (Rec.accepted /\ last'.accepted /\ Rec.d_proc # "") => Rec.d = Rec.d_proc>> >>),
                    Len(hist) >= 2)

\* a stuttering-free step for operations the specification cannot take (more ops than MaxLen etc.)
TCall == /\ l <= Len(Trace) /\ Rec.kind = "call"
         /\ UNCHANGED vars
         /\ memo' = IF Rec.exc = "" THEN Append(memo, <<MemoKey(Rec), Rec.d1>>) ELSE memo
         /\ Consume(FailedOf(<<
              <<"writes_input", Rec.exc # "ReadOnlyValueError">>,
              <<"raises", Rec.exc = "" \/ Rec.exc_expected>>,
              <<"args_unchanged", Rec.args_same>>,
              <<"deterministic", Rec.exc = "" => Rec.d1 = Rec.d2>>,
              <<"functional", Rec.exc = "" => MemoOK(Rec, Rec.d1)>> >>), Rec.nargs >= 1)

TNext == Reset \/ TNew \/ TFit \/ TCall
TSpec == TInit /\ [][TNext]_tvars
FlushInv == Flush(l, verdicts)
\* the safety properties of Session.tla must hold along every replayed behaviour as well
=============================================================================
