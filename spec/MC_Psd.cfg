SPECIFICATION Spec
CONSTANTS
  MaskVals = {0, 1, 2}
INVARIANT Hermitian
INVARIANT PositiveSemidefinite
INVARIANT ScaleInvariant
INVARIANT LayoutInvariant
INVARIANT ZeroMaskZero
