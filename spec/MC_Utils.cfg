SPECIFICATION Spec
INVARIANT UnsqueezeKeepsSize
INVARIANT InterleaveIsMerge
