--------------------------------- MODULE PbBss ---------------------------------
(***************************************************************************)
(* Root of the pb_bss specification: the catalogue of public entry points  *)
(* and the module that defines each of them.  Every entry is bound to the  *)
(* implementation by the trace specification named in the right column     *)
(* (harness/props/cXX.py runs it); the exhaustive instances MC_*.cfg check  *)
(* the defining modules themselves.                                        *)
(*                                                                         *)
(*  pb_bss.permutation_alignment                                           *)
(*    _mapping_from_score_matrix      Assign!Greedy / Assign!OptimalSeq     Trace_Align (assign, assignf)        *)
(*    apply_mapping / __call__        Assign!ApplyMapping                   Trace_Align (apply)                  *)
(*    DHTV...alignment_plan           Align!Plan                            Trace_Align (plan)                   *)
(*    DHTV...calculate_mapping        Align!DHTVRun, step machine MC_DHTV   Trace_Align (dhtvx), Trace_DHTV      *)
(*    Greedy...calculate_mapping      Align!GreedyPARun                     Trace_Align (greedyx, consist)       *)
(*    Oracle...calculate_mapping      Align!OracleRun                       Trace_Align (oraclex, apply)         *)
(*    interleave, sample_random_mapping   Utils!InterleaveLists             Trace_Utils                          *)
(*  pb_bss.distribution (mixtures)                                         *)
(*    log_pdf_to_affiliation          Post!BayesR                           Trace_MM (bayesx, posterior)         *)
(*    ..._with_inline_pa              IPA!IsBest, IPA!Post                  Trace_MM (inlinepa)                  *)
(*    estimate_mixture_weight         Wgt!StdWeightShape / IntWeightShape   Trace_MM (weightx, mstep, domain)    *)
(*    <Trainer>.fit / fit_predict     EM!Spec (loop), Trace_MM relations    Trace_MM (loop, mstep, qform, twin, domain, fixedpoint), Trace_LL *)
(*    <Model>.predict                 Post (Bayes with schema weights)      Trace_MM (posterior)                 *)
(*    reusable trainers               Sess!Spec                             Trace_Session                        *)
(*  pb_bss.distribution (single)                                           *)
(*    <Distribution>.log_pdf          Density closed forms                  Trace_Density                        *)
(*    <DistributionTrainer>.fit       Trace_MM estimator relations          Trace_MM (mstep K = 1, gaussx, twin) *)
(*  pb_bss.initializer                Trace_MM (init, flag)                                                       *)
(*  pb_bss.extraction                                                      *)
(*    get_power_spectral_density_matrix, condition_covariance   Psd         Trace_Psd                            *)
(*    get_mvdr / lcmv / souden / wmwf / gev / pca / ban / rank-one   Beamform, LinAlg   Trace_Beam               *)
(*    get_bf_vector                   Name!PipelineOf                       Trace_Beam (name)                    *)
(*    apply_beamforming_vector, phase_correction   Trace_Beam (apply, phase)                                     *)
(*    mask_module.*                   Masks                                 Trace_Masks                          *)
(*  pb_bss.evaluation                                                      *)
(*    si_sdr, input_sxr, output_sxr, set_snr / get_snr   Metrics            Trace_Metrics                        *)
(*  pb_bss.utils                      Utils (unsqueeze, labels_to_one_hot, is_broadcast_compatible)   Trace_Utils *)
(*    reshape (mini-language)         Rsh!Apply, MC_Reshape (exhaustive)    Trace_Utils (reshape; cases = TLC dump) *)
(*  documented pipeline               Pipeline                              Trace_Pipeline                       *)
(*                                                                         *)
(*  growth (spec/Extras.tla, MC_Extras, Trace_Extras)                      *)
(*    _estimate_mixture_weight_with_dirichlet_prior_concentration   Ext!DirichletWeight   Trace_Extras (dirichlet) *)
(*    math.solve.stable_solve          Ext!StableSolveOK                    Trace_Extras (solve)                 *)
(*    get_mvdr_vector_merl             Ext!MerlOK                           Trace_Extras (merl)                  *)
(*                                                                         *)
(* Not yet specified (growth backlog): biased_binary_mask,                 *)
(* voiced_unvoiced_split_characteristic, BinaryGMM (k-means), samplers,    *)
(* pb_bss.evaluation.wrapper (needs absent third-party packages).          *)
(***************************************************************************)
EXTENDS Integers, Sequences

Assign == INSTANCE Assignment
Align  == INSTANCE Alignment
Post   == INSTANCE Posterior
IPA    == INSTANCE InlinePA
PsdM   == INSTANCE Psd
MasksM == INSTANCE Masks
Metr   == INSTANCE Metrics
Beam   == INSTANCE Beamform
Name   == INSTANCE BfName
UtilsM == INSTANCE Utils
Rsh    == INSTANCE Reshape
Dens   == INSTANCE Density
Pipe   == INSTANCE Pipeline
ModelM == INSTANCE Model
Ext    == INSTANCE Extras

\* cross-module facts the properties rely on (checked by SANY for well-formedness; the instances check them)
\* the optimal assignment is a permutation attaining the maximal score, hence never below the greedy one (C15)
OptimalDominatesGreedy(S) == Assign!Score(S, Assign!OptimalSeq(S)) >= Assign!Score(S, Assign!Greedy(S))
\* a plan covers every bin whenever it exists and shift <= width (C16)
PlanCoverage(stft, start, width, shift) ==
  (Align!PlanValid(stft, start, width) /\ shift <= width) =>
     Align!PlanCoversAll(Align!Plan(stft, start, width, shift, 1, 1), stft \div 2 + 1)
=============================================================================
