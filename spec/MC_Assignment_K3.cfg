SPECIFICATION Spec
CONSTANTS
  K = 3
  Vals = {0, 1, 2}
INVARIANT GreedyIsPerm
INVARIANT OptimalIsPerm
INVARIANT OptimalIsMax
INVARIANT OptimalGeGreedy
INVARIANT OptimalIsFirst
INVARIANT GreedyTakesMax
INVARIANT OptValueEquivariant
INVARIANT OptimalSeqAgrees
INVARIANT MaxSeqAgrees
