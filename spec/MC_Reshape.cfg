SPECIFICATION Spec
CONSTANTS
  Alphabet = {"a", "b", "c"}
  MaxSrc = 3
  Sizes = {1, 2, 3}
INVARIANT ValidInv
INVARIANT RearrangementInv
INVARIANT InverseInv
INVARIANT FlattenInv
