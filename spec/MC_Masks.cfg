SPECIFICATION Spec
INVARIANT IBMOneHot
INVARIANT IBMAtMax
INVARIANT WienerRange
INVARIANT WienerSumOne
INVARIANT ICMReconstructs
INVARIANT MoveAxisEquivariant
INVARIANT PooledShape
INVARIANT PooledOneHot
