SPECIFICATION Spec
CONSTANTS
  MaxStft = 64
INVARIANT PlanCovers
INVARIANT SegmentsInRange
INVARIANT FirstIsMain
