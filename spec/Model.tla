--------------------------------- MODULE Model ---------------------------------
(***************************************************************************)
(* Schema of the fitted mixture / distribution models and the relations    *)
(* between two models (hyper-properties C04, C05, C06, C20).               *)
(* A model is a sequence of fields [name, t = [shape, data], cplx];        *)
(* eigenvector-type parameters enter through their phase-invariant form    *)
(* (covariance U diag(l) U^H, mode outer product w w^H).                   *)
(* ClassAx(kind, name): position of the class axis counted from the END    *)
(* (-1 = last) or 0 when the field has no class axis.                      *)
(***************************************************************************)
EXTENDS Num, Flat

ClassAxTable ==
  [posterior |-> -2, weight |-> -2,
   cacg_covariance |-> -3, cacg_eigenvalues |-> -2,
   watson_mode_outer |-> -3, watson_concentration |-> -1,
   bingham_covariance |-> -3, bingham_eigenvalues |-> -2,
   gaussian_mean |-> -2, gaussian_covariance_full |-> -3, gaussian_covariance_diagonal |-> -2,
   gaussian_covariance_spherical |-> -1,
   vmf_mean |-> -2, vmf_concentration |-> -1,
   log_pdf |-> -2, log_likelihood |-> 0]
\* integration models store the weight squeezed: class axis among the kept axes of (F, K, N)
IntWeightClassAx(wca) ==
  LET axes == {Ax(wca[i], 3) : i \in 1..Len(wca)}
  IN  IF 1 \in axes THEN 0 ELSE IF 2 \in axes THEN -1 ELSE -2
FieldClassAx(f, integration, wca) ==
  IF f.name = "weight" /\ integration THEN IntWeightClassAx(wca) ELSE ClassAxTable[f.name]

Field(m, name) == m[CHOOSE i \in 1..Len(m) : m[i].name = name]
Names(m) == {m[i].name : i \in 1..Len(m)}
AbsF(f, x) == IF f.cplx THEN ZL1(x) ELSE FAbs(x)
FMaxAbs(f) == FoldLeft(LAMBDA acc, x : FMax(acc, AbsF(f, x)), FZero, f.t.data)
ElemOK(f, x) == IF f.cplx THEN IsZ(x) ELSE IsFlt(x)
FieldFinite(f) == \A i \in 1..Len(f.t.data) : ElemOK(f, f.t.data[i])
ElemClose(f, a, b, sc, slack) == IF f.cplx THEN ZClose(a, b, sc, slack) ELSE Close(a, b, sc, slack)

\* B[idx] ~ A[Map(idx)] for every index of B; scale: |a| + |b| + 2^-12 max|A|
\* amp: measured effect (max over the field, in double precision) of a one-ulp perturbation of the initialisation on the
\* same run; "up to rounding" for iterated fits means: within the rounding tolerance OR within AmpFactor times what such a
\* perturbation does to this very problem (EM iterations amplify rounding on ill-conditioned classes).  amp = 0 for
\* everything that is not an iterated fit.
AmpFactor == 1024
RelatedByA(fa, fb, Map(_), slack, amp) ==
  \* eigenvalues and concentrations are positive quantities whose SMALL values matter (log-determinants, floors):
  \* they are compared purely relatively; other fields get an absolute floor of 2^-12 max|A|
  LET floor == IF fa.name \in {"cacg_eigenvalues", "bingham_eigenvalues", "watson_concentration", "vmf_concentration"}
               THEN FZero ELSE FMul(FPow2(-12), FMaxAbs(fa))
      idxs == AllIdx(fb.t.shape)
  IN  \A i \in 1..Len(idxs) :
        LET b == fb.t.data[Off(fb.t.shape, idxs[i])]
            a == Get(fa.t, Map(idxs[i]))
            diff == IF fa.cplx THEN ZSub(b, a) ELSE FSub(b, a)
        IN  \/ ElemClose(fa, a, b, FAdd(FAdd(AbsF(fa, a), AbsF(fb, b)), floor), slack)
            \/ (amp # FZero /\ FLe(AbsF(fa, diff), FMul(FInt(AmpFactor), amp)))
RelatedBy(fa, fb, Map(_), slack) == RelatedByA(fa, fb, Map, slack, FZero)
\* fine mode: the encoder also supplies res = B - A o Map computed in double precision; it must be consistent with
\* the (coarse) Flt difference and small: |res| <= 2^fine (|a| + |b| + floor)
FineByA(fa, fb, res, Map(_), slack, fine, amp) ==
  LET floor == IF fa.name \in {"cacg_eigenvalues", "bingham_eigenvalues", "watson_concentration", "vmf_concentration"}
               THEN FZero ELSE FMul(FPow2(-12), FMaxAbs(fa))
      idxs == AllIdx(fb.t.shape)
  IN  \A i \in 1..Len(idxs) :
        LET o == Off(fb.t.shape, idxs[i])
            b == fb.t.data[o]
            a == Get(fa.t, Map(idxs[i]))
            rr == res.data[o]
            sc == FAdd(FAdd(AbsF(fa, a), AbsF(fb, b)), floor)
            diff == IF fa.cplx THEN ZSub(b, a) ELSE FSub(b, a)
        IN  /\ ElemOK(fa, rr)
            /\ ElemClose(fa, rr, diff, sc, slack)
            /\ FLe(AbsF(fa, rr), FAdd(FMul(FPow2(fine), sc), FMul(FInt(AmpFactor), amp)))
FineBy(fa, fb, res, Map(_), slack, fine) == FineByA(fa, fb, res, Map, slack, fine, FZero)
\* same model
SameField(fa, fb, slack) == fa.t.shape = fb.t.shape /\ RelatedBy(fa, fb, LAMBDA ix : ix, slack)
SameFine(fa, fb, res, slack, fine) == fa.t.shape = fb.t.shape /\ FineBy(fa, fb, res, LAMBDA ix : ix, slack, fine)
\* B = A with the class axis permuted: B[.., k, ..] = A[.., pi[k], ..]   (pi 0-based values, 1-based domain)
PermFieldA(fa, fb, cax, pi, slack, amp) ==
  /\ fa.t.shape = fb.t.shape
  /\ IF cax = 0 \/ fa.t.shape[Len(fa.t.shape) + 1 + cax] = 1
     THEN RelatedByA(fa, fb, LAMBDA ix : ix, slack, amp)
     ELSE LET p == Len(fa.t.shape) + 1 + cax
          IN  RelatedByA(fa, fb, LAMBDA ix : [ix EXCEPT ![p] = pi[ix[p] + 1]], slack, amp)
PermField(fa, fb, cax, pi, slack) == PermFieldA(fa, fb, cax, pi, slack, FZero)
PermFineA(fa, fb, res, cax, pi, slack, fine, amp) ==
  /\ fa.t.shape = fb.t.shape
  /\ IF cax = 0 \/ fa.t.shape[Len(fa.t.shape) + 1 + cax] = 1
     THEN FineByA(fa, fb, res, LAMBDA ix : ix, slack, fine, amp)
     ELSE LET p == Len(fa.t.shape) + 1 + cax
          IN  FineByA(fa, fb, res, LAMBDA ix : [ix EXCEPT ![p] = pi[ix[p] + 1]], slack, fine, amp)
PermFine(fa, fb, res, cax, pi, slack, fine) == PermFineA(fa, fb, res, cax, pi, slack, fine, FZero)
\* B = A at leading index lead (B lacks the leading axes)
SliceFieldA(fa, fb, lead, slack, amp) ==
  /\ Len(fa.t.shape) = Len(fb.t.shape) + Len(lead)
  /\ SubSeq(fa.t.shape, Len(lead) + 1, Len(fa.t.shape)) = fb.t.shape
  /\ RelatedByA(fa, fb, LAMBDA ix : lead \o ix, slack, amp)
SliceField(fa, fb, lead, slack) == SliceFieldA(fa, fb, lead, slack, FZero)
\* the stacked call and the call on one slice perform the same arithmetic: fine residual mode
SliceFineA(fa, fb, res, lead, slack, fine, amp) ==
  /\ Len(fa.t.shape) = Len(fb.t.shape) + Len(lead)
  /\ SubSeq(fa.t.shape, Len(lead) + 1, Len(fa.t.shape)) = fb.t.shape
  /\ FineByA(fa, fb, res, LAMBDA ix : lead \o ix, slack, fine, amp)
=============================================================================
