-------------------------------- MODULE MC_Utils --------------------------------
(* Exhaustive small instances of the layout helpers. *)
EXTENDS Utils
VARIABLES shape, axes, la, lb
vars == <<shape, axes, la, lb>>
Shapes == UNION {[1..r -> 1..2] : r \in 0..2}
AxesSets == UNION {[1..n -> -4..3] : n \in 1..2}
Lists == UNION {[1..n -> 1..2] : n \in 0..3}
Init == /\ shape \in Shapes /\ axes \in AxesSets /\ la \in Lists /\ lb \in Lists
Next == UNCHANGED vars
Spec == Init /\ [][Next]_vars
UnsqueezeKeepsSize == UnsqueezeValid(shape, axes) =>
   /\ Len(UnsqueezeShape(shape, axes)) = Len(shape) + Len(axes)
   /\ Prod(UnsqueezeShape(shape, axes)) = Prod(shape)
   /\ \A i \in 1..Len(axes) : UnsqueezeShape(shape, axes)[Ax(axes[i], Len(shape) + Len(axes)) + 1] = 1
InterleaveIsMerge ==
   LET m == InterleaveLists(<<la, lb>>)
   IN  /\ Len(m) = Len(la) + Len(lb)
       /\ \A i \in 1..Len(la) : \E j \in 1..Len(m) : m[j] = la[i]
       /\ (Len(la) = Len(lb) /\ Len(la) > 0) => (m[1] = la[1] /\ m[2] = lb[1])
=============================================================================
