------------------------------ MODULE MC_Posterior -----------------------------
(* All small posterior problems: K classes, N observations, weights over WVals,   *)
(* likelihoods over LVals, every source-activity mask, eps in {0, 1/8}.           *)
EXTENDS Posterior
CONSTANTS K, N, WVals, LVals
VARIABLES w, lik, sam, eps, g
vars == <<w, lik, sam, eps, g>>
Init == /\ w \in [1..K -> [1..N -> WVals]]
        /\ lik \in [1..K -> [1..N -> LVals]]
        /\ sam \in [1..K -> [1..N -> BOOLEAN]]
        /\ eps \in {<<0, 1>>, <<1, 8>>}
        /\ g = BayesR(w, lik, sam, eps)
Next == UNCHANGED vars
Spec == Init /\ [][Next]_vars
InUnit == \A k \in 1..K, n \in 1..N : RLe(<<0, 1>>, g[k][n]) /\ RLe(g[k][n], <<1, 1>>)
SumsToOne == \A n \in 1..N :
   (eps[1] = 0 /\ \E k \in 1..K : sam[k][n]) => ColSumR(g, n) = <<1, 1>>
\* with clipping the column sum deviates by at most K * eps
SumNearOne == \A n \in 1..N : (\E k \in 1..K : sam[k][n]) =>
   LET s == ColSumR(g, n) d == RSub(s, <<1, 1>>) ad == IF d[1] < 0 THEN RNeg(d) ELSE d
   IN  RLe(ad, RMul(<<K, 1>>, eps))
ZeroWhereInactive == eps[1] = 0 => \A k \in 1..K, n \in 1..N : ~sam[k][n] => g[k][n] = <<0, 1>>
AllZeroColumn == eps[1] = 0 => \A n \in 1..N : (\A k \in 1..K : ~sam[k][n]) => \A k \in 1..K : g[k][n] = <<0, 1>>
\* relabelling the classes relabels the posterior
ClassEquivariant ==
  LET p == [k \in 1..K |-> K + 1 - k]
      P(x) == [k \in 1..K |-> x[p[k]]]
  IN  BayesR(P(w), P(lik), P(sam), eps) = P(g)
\* a common factor per observation on the likelihoods does not matter (max-subtraction is harmless)
ScaleFree == BayesR(w, [k \in 1..K |-> [n \in 1..N |-> 3 * lik[k][n]]], sam, eps) = g
=============================================================================
