------------------------------- MODULE Beamform --------------------------------
(***************************************************************************)
(* Defining relations of the beamformers in pb_bss.extraction.beamformer,  *)
(* as polynomial identities over Flt (no inversion, no decomposition on    *)
(* the specification side: the code's vector is the certificate).          *)
(*   MVDR    : w^H a = 1  and  Phi w = mu a, mu real > 0   (KKT; for PD Phi *)
(*             this is equivalent to minimal w^H Phi w among all           *)
(*             distortionless vectors)                                     *)
(*   LCMV    : w^H a_k = r_k                                               *)
(*   Souden  : Phi_nn w || a  and  w^H a = a_ref   (rank-one target)       *)
(*   WMWF    : (sigma a a^H + mu Phi_nn) w = sigma a conj(a_ref)           *)
(*   GEV     : Phi_xx w = lambda Phi_nn w, lambda = Rayleigh(w) >= Rayleigh(p) *)
(*   PCA     : Phi w = lambda w, maximal, scaling options                  *)
(*   BAN     : out = g w, g real > 0, g^2 (w^H Phi w)^2 = w^H Phi Phi w     *)
(***************************************************************************)
EXTENDS LinAlg

SLK == 96          \* default slack: 96 * 2^-19 ~ 1.8e-4 of the scale of the terms
One == <<FOne, FZero>>
RealPos(z, sc, slack) == FSgn(z[1]) > 0 /\ Close(z[2], FZero, sc, slack)

Distortionless(w, a) == LET d == ZDotS(w, a) IN ZClose(d[1], One, FAdd(d[2], FOne), SLK)
\* Phi w = mu a with mu real positive
KKT(phi, w, a) ==
  LET v == MatVecS(phi, w)     \* entries with the scale of their terms (cancellation aware)
      mu == DotYS(a, v)          \* a^H Phi w = mu |a|^2
  IN  /\ ParallelS(v, a, SLK)
      /\ Close(mu[1][2], FZero, mu[2], SLK)
      /\ FLe(FNeg(FMul(FNorm(SLK, -19), mu[2])), mu[1][1])
\* optimality against a probe p (any vector with p^H a # 0): q(w) |p^H a|^2 <= q(p) (1 + tol)
\* interval of a real quadratic form: value -+ SLK 2^-19 scale (cancellation aware)
QLo(q) == FSub(q[1][1], FMul(FNorm(SLK, -19), q[2]))
QHi(q) == FAdd(q[1][1], FMul(FNorm(SLK, -19), q[2]))
Pos(x) == IF FSgn(x) > 0 THEN x ELSE FZero
\* a probe is CLEARLY better only if even the pessimistic bounds say so
NoBetterProbe(phi, w, a, p) ==
  LET qw == QuadS(phi, w) qp == QuadS(phi, p)
      pa == ZDotS(p, a)
      paLo == Pos(FSub(ZAbs2(pa[1]), FMul(FNorm(4 * SLK, -19), FSq(pa[2]))))
  IN  ~FLt(FMul(QHi(qp), FAdd(FOne, FNorm(SLK, -19))), FMul(Pos(QLo(qw)), paLo))

LcmvOK(As, resp, w) ==
  \A k \in 1..Len(As) : LET d == ZDotS(w, As[k]) IN ZClose(d[1], <<resp[k], FZero>>, FAdd(d[2], FAbs(resp[k])), SLK)

SoudenOK(phin, a, w, ref) ==
  LET v == MatVecS(phin, w) d == ZDotS(w, a)
  IN  /\ ParallelS(v, a, SLK)
      /\ ZClose(d[1], a[ref], FAdd(d[2], ZAbs1(a[ref])), SLK)

WmwfOK(phin, a, sigma, mu, w, ref) ==
  LET aw == ZDotS(a, w)                                   \* a^H w
      nv == MatVecS(phin, w)
  IN  \A d \in 1..Len(a) :
        LET lhs == ZAdd(ZScale(sigma, ZMul(a[d], aw[1])), ZScale(mu, nv[d][1]))
            rhs == ZScale(sigma, ZMul(a[d], ZConj(a[ref])))
            sc == FAdd(FAdd(FMul(sigma, FMul(ZAbs1(a[d]), aw[2])), FMul(FAbs(mu), nv[d][2])), ZAbs1(rhs))
        IN  ZClose(lhs, rhs, sc, SLK)

Rayleigh(phix, phin, v) == <<QuadS(phix, v)[1][1], QuadS(phin, v)[1][1]>>     \* <<num, den>> real parts
GevOK(phix, phin, w) ==
  LET xv == MatVecS(phix, w) nv == MatVecS(phin, w) r == Rayleigh(phix, phin, w)
      \* residual measured against the whole vector (backward error of an eigenpair): a component that is exactly zero
      \* in exact arithmetic comes back as ~1e-17 from LAPACK and must not be judged relative to itself
      whole == FSum([d \in 1..Len(w) |-> FAdd(FMul(FAbs(r[2]), xv[d][2]), FMul(FAbs(r[1]), nv[d][2]))])
  IN  /\ FSgn(r[2]) > 0
      \* den * (Phi_xx w)_d = num * (Phi_nn w)_d
      /\ \A d \in 1..Len(w) : ZClose(ZScale(r[2], xv[d][1]), ZScale(r[1], nv[d][1]), whole, SLK)
\* probe p clearly better than w:  num_p den_w > num_w den_p even with pessimistic bounds
GevMaximal(phix, phin, w, p) ==
  LET xw == QuadS(phix, w) nw == QuadS(phin, w) xp == QuadS(phix, p) np == QuadS(phin, p)
  IN  ~FLt(FMul(FMul(Pos(QHi(xw)), QHi(np)), FAdd(FOne, FNorm(SLK, -19))), FMul(Pos(QLo(xp)), Pos(QLo(nw))))

Identity(n) == [i \in 1..n |-> [j \in 1..n |-> IF i = j THEN One ELSE ZZero]]
PcaOK(phi, w) == GevOK(phi, Identity(Len(w)), w)
\* BAN: out = g w (g real > 0) and g^2 (w^H Phi w)^2 = |Phi w|^2
\* (error scales: both w^H Phi w and Phi w cancel for the vectors the eigen-solvers return on ill-conditioned noise PSDs)
BanOK(phin, w, out) ==
  LET q == QuadS(phin, w) pws == MatVecS(phin, w)
      pw == [i \in 1..Len(w) |-> pws[i][1]]
      g == ZDotS(w, out)                 \* w^H out = g |w|^2
      gn == FDiv(g[1][1], Norm2(w))
      lhs == FMul(FSq(gn), FSq(q[1][1]))
      n2 == Norm2(pw)
      n2sc == FSum([i \in 1..Len(w) |-> FMul(ZAbs1(pw[i]), pws[i][2])])
      qerr == FMul(FMul(FSq(gn), FAbs(q[1][1])), q[2])
  IN  /\ Parallel(out, w, SLK)
      /\ RealPos(g[1], g[2], SLK)
      /\ Close(lhs, n2, FAdd(FAdd(lhs, n2), FMul(FInt(2), FAdd(n2sc, qerr))), SLK * 4)
RankOneOK(r1, slack) ==
  /\ Hermitian(r1, slack)
  /\ \A i, j, k, m \in 1..Len(r1) : (i < j /\ k < m) =>
        ZClose(ZMul(r1[i][k], r1[j][m]), ZMul(r1[i][m], r1[j][k]),
               FAdd(FMul(ZAbs1(r1[i][k]), ZAbs1(r1[j][m])), FMul(ZAbs1(r1[i][m]), ZAbs1(r1[j][k]))), slack)
=============================================================================
