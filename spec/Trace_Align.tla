------------------------------ MODULE Trace_Align ------------------------------
(***************************************************************************)
(* Trace specification for pb_bss.permutation_alignment (C14, C15, C16).   *)
(* One record per observed call; kinds:                                    *)
(*  assign  : _mapping_from_score_matrix on an integer (or rank) matrix     *)
(*  assignf : the same on a float matrix; the driver supplies, per          *)
(*            permutation in generation order, the exact (Fraction) gap to  *)
(*            the best total in units of eps*sum|S| ; element order by rank *)
(*  apply   : mask / mapping / aligned as row identifiers (exact rows)      *)
(* Mappings are 0-based in the records and 1-based in the specification.   *)
(***************************************************************************)
EXTENDS Assignment, TraceKit, FiniteSets
VARIABLES l, verdicts
vars == <<l, verdicts>>

Plus1(m) == [i \in DOMAIN m |-> m[i] + 1]
Plus1M(m) == [k \in DOMAIN m |-> [f \in DOMAIN m[k] |-> m[k][f] + 1]]
IsIntSeq(m, K) == DOMAIN m = 1..K /\ \A i \in 1..K : m[i] \in Int
WellShaped(m, K, F) == /\ DOMAIN m = 1..K
                       /\ \A k \in 1..K : DOMAIN m[k] = 1..F /\ \A f \in 1..F : m[k][f] \in Int

(* ---- assign ---- *)
AssignChecks(r) ==
  LET K == Len(r.S)
  IN IF r.exc # "" THEN << <<"raises", FALSE>> >>
     ELSE IF ~IsIntSeq(r.res, K) THEN << <<"shape", FALSE>> >>
     ELSE LET m == Plus1(r.res) IN
       IF ~IsPerm(m, K) THEN << <<"perm", FALSE>> >>
       ELSE IF r.alg = "greedy"
            THEN << <<"equal", m = Greedy(r.S)>> >>
            ELSE << <<"max", Score(r.S, m) = MaxScore(r.S)>>,
                    <<"ge_greedy", Score(r.S, m) >= Score(r.S, Greedy(r.S))>>,
                    <<"equal", m = OptimalSeq(r.S)>>,
                    <<"lsa", r.lsa = MaxScore(r.S)>> >>
AssignNT(r) == r.exc = "" /\ IsIntSeq(r.res, Len(r.S)) /\ Plus1(r.res) # IdPerm(Len(r.S))

(* ---- assignf ---- *)
\* r.R: rank matrix (exact element order), r.gaps[i]: gap of the i-th permutation (generation
\* order) to the best exact total, in units of eps*sum|S| (0 for the best), capped.
\* Float rounding of a K-term sum is below K units, so the code's choice must have gap <= 2K,
\* and when every other permutation has gap > 4K the choice is determined.
AssignFChecks(r) ==
  LET K == Len(r.R)
      ps == PermSeqs[K]
  IN IF r.exc # "" THEN << <<"raises", FALSE>> >>
     ELSE IF ~IsIntSeq(r.res, K) THEN << <<"shape", FALSE>> >>
     ELSE LET m == Plus1(r.res) IN
       IF ~IsPerm(m, K) THEN << <<"perm", FALSE>> >>
       ELSE IF r.alg = "greedy"
            THEN << <<"equal", m = Greedy(r.R)>> >>
            ELSE LET idx == CHOOSE i \in 1..Len(ps) : ps[i] = m
                     best == CHOOSE i \in 1..Len(ps) : r.gaps[i] = 0 /\ \A j \in 1..(i-1) : r.gaps[j] # 0
                     clear == \A j \in 1..Len(ps) : j # best => r.gaps[j] > 4 * K
                 IN << <<"gapsdom", Len(r.gaps) = Len(ps)>>,
                       <<"max", r.gaps[idx] <= 2 * K>>,
                       <<"equal", clear => idx = best>> >>
AssignFNT(r) == r.exc = "" /\ IsIntSeq(r.res, Len(r.R)) /\ Plus1(r.res) # IdPerm(Len(r.R))

(* ---- apply ---- *)
ApplyChecks(r) ==
  LET K == Len(r.mask)
      F == Len(r.mask[1])
  IN IF r.exc # "" THEN << <<"raises", FALSE>> >>
     ELSE IF ~WellShaped(r.mapping, K, F) \/ ~WellShaped(r.out, K, F) THEN << <<"shape", FALSE>> >>
     ELSE LET mp == Plus1M(r.mapping) IN
       IF ~IsPermPerBin(mp, K, F) THEN << <<"perm", FALSE>> >>
       ELSE << <<"rows", r.out = ApplyMapping(r.mask, mp)>>,
               <<"multiset", \A f \in 1..F : {r.out[k][f] : k \in 1..K} = {r.mask[k][f] : k \in 1..K}>>,
               <<"equals_ref", r.ref # <<>> => r.out = r.ref>>,
               <<"identity", r.expect_identity => \A k \in 1..K, f \in 1..F : mp[k][f] = k>>,
               <<"consistent", r.expect_consistent =>
                     \A f \in 1..F : \A k \in 1..K : r.truth[mp[k][f]][f] = r.truth[mp[k][1]][1]>> >>
ApplyNT(r) == /\ r.exc = "" /\ WellShaped(r.mapping, Len(r.mask), Len(r.mask[1]))
              /\ \E k \in 1..Len(r.mask), f \in 1..Len(r.mask[1]) : r.mapping[k][f] + 1 # k

Checks(r) == CASE r.kind = "assign"  -> AssignChecks(r)
               [] r.kind = "assignf" -> AssignFChecks(r)
               [] r.kind = "apply"   -> ApplyChecks(r)
NT(r)     == CASE r.kind = "assign"  -> AssignNT(r)
               [] r.kind = "assignf" -> AssignFNT(r)
               [] r.kind = "apply"   -> ApplyNT(r)

Init == l = 1 /\ verdicts = <<>>
Next == /\ l <= Len(Trace)
        /\ LET r == Trace[l] IN
             verdicts' = Append(verdicts, Verdict(r.id, FailedOf(Checks(r)), NT(r), ""))
        /\ l' = l + 1
Spec == Init /\ [][Next]_vars
FlushInv == Flush(l, verdicts)
=============================================================================
