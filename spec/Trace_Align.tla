------------------------------ MODULE Trace_Align ------------------------------
(***************************************************************************)
(* Trace specification for pb_bss.permutation_alignment (C14, C15, C16).   *)
(* One record per observed call; kinds:                                    *)
(*  assign  : _mapping_from_score_matrix on an integer (or rank) matrix     *)
(*  assignf : the same on a float matrix; the driver supplies, per          *)
(*            permutation in generation order, the exact (Fraction) gap to  *)
(*            the best total in units of eps*sum|S| ; element order by rank *)
(*  apply   : mask / mapping / aligned as row identifiers (exact rows)      *)
(* Mappings are 0-based in the records and 1-based in the specification.   *)
(***************************************************************************)
EXTENDS Alignment, TraceKit, FiniteSets
VARIABLES l, verdicts
vars == <<l, verdicts>>

Plus1(m) == [i \in DOMAIN m |-> m[i] + 1]
Plus1M(m) == [k \in DOMAIN m |-> [f \in DOMAIN m[k] |-> m[k][f] + 1]]
IsIntSeq(m, K) == DOMAIN m = 1..K /\ \A i \in 1..K : m[i] \in Int
WellShaped(m, K, F) == /\ DOMAIN m = 1..K
                       /\ \A k \in 1..K : DOMAIN m[k] = 1..F /\ \A f \in 1..F : m[k][f] \in Int

(* ---- assign ---- *)
AssignChecks(r) ==
  LET K == Len(r.S)
  IN IF r.exc # "" THEN << <<"raises", FALSE>> >>
     ELSE IF ~IsIntSeq(r.res, K) THEN << <<"shape", FALSE>> >>
     ELSE LET m == Plus1(r.res) IN
       IF ~IsPerm(m, K) THEN << <<"perm", FALSE>> >>
       ELSE IF r.alg = "greedy"
            THEN << <<"equal", m = Greedy(r.S)>> >>
            ELSE << <<"max", Score(r.S, m) = MaxScoreSeq(r.S)>>,
                    <<"ge_greedy", Score(r.S, m) >= Score(r.S, Greedy(r.S))>>,
                    <<"equal", m = OptimalSeq(r.S)>>,
                    <<"lsa", r.lsa = MaxScoreSeq(r.S)>> >>
AssignNT(r) == r.exc = "" /\ IsIntSeq(r.res, Len(r.S)) /\ Plus1(r.res) # IdPerm(Len(r.S))

(* ---- assignf ---- *)
\* r.R: rank matrix (exact element order), r.gaps[i]: gap of the i-th permutation (generation
\* order) to the best exact total, in units of eps*sum|S| (0 for the best), capped.
\* Float rounding of a K-term sum is below K units, so the code's choice must have gap <= 2K,
\* and when every other permutation has gap > 4K the choice is determined.
AssignFChecks(r) ==
  LET K == Len(r.R)
      ps == PermSeqs[K]
  IN IF r.exc # "" THEN << <<"raises", FALSE>> >>
     ELSE IF ~IsIntSeq(r.res, K) THEN << <<"shape", FALSE>> >>
     ELSE LET m == Plus1(r.res) IN
       IF ~IsPerm(m, K) THEN << <<"perm", FALSE>> >>
       ELSE IF r.alg = "greedy"
            THEN << <<"equal", m = Greedy(r.R)>> >>
            ELSE LET idx == CHOOSE i \in 1..Len(ps) : ps[i] = m
                     best == CHOOSE i \in 1..Len(ps) : r.gaps[i] = 0 /\ \A j \in 1..(i-1) : r.gaps[j] # 0
                     clear == \A j \in 1..Len(ps) : j # best => r.gaps[j] > 4 * K
                 IN << <<"gapsdom", Len(r.gaps) = Len(ps)>>,
                       <<"max", r.gaps[idx] <= 2 * K>>,
                       <<"equal", clear => idx = best>> >>
AssignFNT(r) == r.exc = "" /\ IsIntSeq(r.res, Len(r.R)) /\ Plus1(r.res) # IdPerm(Len(r.R))

(* ---- apply ---- *)
ApplyChecks(r) ==
  LET K == Len(r.mask)
      F == Len(r.mask[1])
  IN IF r.exc # "" THEN << <<"raises", FALSE>> >>
     ELSE IF ~WellShaped(r.mapping, K, F) \/ ~WellShaped(r.out, K, F) THEN << <<"shape", FALSE>> >>
     ELSE LET mp == Plus1M(r.mapping) IN
       IF ~IsPermPerBin(mp, K, F) THEN << <<"perm", FALSE>> >>
       ELSE << <<"rows", r.out = ApplyMapping(r.mask, mp)>>,
               <<"multiset", \A f \in 1..F : {r.out[k][f] : k \in 1..K} = {r.mask[k][f] : k \in 1..K}>>,
               <<"equals_ref", r.ref # <<>> => r.out = r.ref>>,
               <<"identity", r.expect_identity => \A k \in 1..K, f \in 1..F : mp[k][f] = k>>,
               <<"consistent", r.expect_consistent =>
                     \A f \in 1..F : \A k \in 1..K : r.truth[mp[k][f]][f] = r.truth[mp[k][1]][1]>> >>
ApplyNT(r) == /\ r.exc = "" /\ WellShaped(r.mapping, Len(r.mask), Len(r.mask[1]))
              /\ \E k \in 1..Len(r.mask), f \in 1..Len(r.mask[1]) : r.mapping[k][f] + 1 # k

(* ---- plan : DHTVPermutationAlignment.alignment_plan for one configuration ---- *)
PlanChecks(r) ==
  LET valid == PlanValid(r.stft, r.start, r.width)
  IN IF ~valid THEN << <<"raises_valueerror", r.exc = "ValueError">> >>
     ELSE IF r.exc # "" THEN << <<"raises", FALSE>> >>
     ELSE LET p == Plan(r.stft, r.start, r.width, r.shift, r.main, r.sub)
          IN << <<"plan", r.plan = p>>,
                <<"covers", (r.shift <= r.width) => PlanCoversAll(r.plan, r.stft \div 2 + 1)>> >>
PlanNT(r) == r.exc = "" /\ Len(r.plan) >= 2

(* ---- exact replays of the aligners on integer masks (metric multiply / euclidean) ---- *)
\* r.m : K x F x T integers.  Mapping equality is required when no decision of the specified
\* procedure was tied (ties may legitimately be broken by float rounding of the centroid mean).
ExactChecks(r) ==
  LET K == Len(r.m) F == Len(r.m[1])
  IN IF r.exc # "" THEN << <<"raises", FALSE>> >>
     ELSE IF ~WellShaped(r.mapping, K, F) THEN << <<"shape", FALSE>> >>
     ELSE LET mp == Plus1M(r.mapping) IN
       IF ~IsPermPerBin(mp, K, F) THEN << <<"perm", FALSE>> >>
       ELSE CASE r.kind = "dhtvx" ->
                   LET run == DHTVRun(r.metric, r.alg, r.m, Plan(r.stft, r.start, r.width, r.shift, r.main, r.sub))
                   IN << <<"procedure", (ExactComparable(r.metric, r.alg) /\ ~run.tie) => mp = run.map>>,
                         <<"aligned", r.aligned = ApplyMapping(r.m, mp)>> >>
              [] r.kind = "greedyx" ->
                   << <<"procedure", ((r.metric = "cos" => CosComparable(r.m)) /\ ~GreedyPATie(r.metric, r.m)) => mp = GreedyPARun(r.metric, r.m)>>,
                      <<"aligned", r.aligned = ApplyMapping(r.m, mp)>> >>
              [] r.kind = "oraclex" ->
                   LET mask == [k \in 1..K |-> [f \in 1..F |-> r.m[r.field[k][f] + 1][f]]]
                       distinct == \A f \in 1..F : \A a, b \in 1..K : a # b => r.m[a][f] # r.m[b][f]
                       eqnorm == \A f \in 1..F : \A a, b \in 1..K : Dot(r.m[a][f], r.m[a][f]) = Dot(r.m[b][f], r.m[b][f])
                       premise == distinct /\ (r.metric = "multiply" /\ r.alg = "greedy" => eqnorm)
                   IN << <<"procedure", (ExactComparable(r.metric, r.alg) /\ ~OracleTie(r.metric, r.alg, mask, r.m)) => mp = OracleRun(r.metric, r.alg, mask, r.m)>>,
                         <<"inverts", premise => ApplyMapping(mask, mp) = r.m>> >>
\* non-trivial: mapping differs from the identity somewhere and the procedure had no tie
\* (so the equality clause was really evaluated)
ExactNT(r) == /\ r.exc = "" /\ WellShaped(r.mapping, Len(r.m), Len(r.m[1]))
              /\ \E k \in 1..Len(r.m), f \in 1..Len(r.m[1]) : r.mapping[k][f] + 1 # k
              /\ ExactComparable(r.metric, r.alg)
              /\ CASE r.kind = "dhtvx" -> ~DHTVRun(r.metric, r.alg, r.m, Plan(r.stft, r.start, r.width, r.shift, r.main, r.sub)).tie
                   [] r.kind = "greedyx" -> (r.metric = "cos" => CosComparable(r.m)) /\ ~GreedyPATie(r.metric, r.m)
                   [] OTHER -> TRUE

(* ---- consist : blind alignment restores a frequency-consistent order (C16) ---- *)
\* r.truth[k][f] (1-based): true class of input row k in bin f.  For DHTV the premise is evaluated
\* here: >= 70 % of the first segment's bins share one order and every later segment overlaps
\* the already aligned band by >= 2/3.
ConsistChecks(r) ==
  LET K == Len(r.truth) F == Len(r.truth[1])
  IN IF r.exc # "" THEN << <<"raises", FALSE>> >>
     ELSE IF ~WellShaped(r.mapping, K, F) THEN << <<"shape", FALSE>> >>
     ELSE LET mp == Plus1M(r.mapping)
              col(f) == [k \in 1..K |-> r.truth[k][f]]
              premise ==
                IF r.aligner # "dhtv" THEN TRUE
                ELSE LET p == Plan(r.stft, r.start, r.width, r.shift, r.main, r.sub)
                         seg == (p[1][2] + 1)..p[1][3]
                     IN  /\ OverlapTwoThirds(p)
                         /\ \E f0 \in seg : 10 * Cardinality({f \in seg : col(f) = col(f0)}) >= 7 * Cardinality(seg)
          IN IF ~IsPermPerBin(mp, K, F) THEN << <<"perm", FALSE>> >>
             ELSE << <<"consistent", premise =>
                         \A f \in 1..F : \A k \in 1..K : r.truth[mp[k][f]][f] = r.truth[mp[k][1]][1]>>,
                     <<"identity", r.expect_identity => \A k \in 1..K, f \in 1..F : mp[k][f] = k>> >>
ConsistNT(r) == r.exc = "" /\ \E f \in 1..Len(r.truth[1]) : \E k \in 1..Len(r.truth) : r.truth[k][f] # r.truth[k][1]

Checks(r) == CASE r.kind = "assign"  -> AssignChecks(r)
               [] r.kind = "assignf" -> AssignFChecks(r)
               [] r.kind = "apply"   -> ApplyChecks(r)
               [] r.kind = "plan"    -> PlanChecks(r)
               [] r.kind \in {"dhtvx", "greedyx", "oraclex"} -> ExactChecks(r)
               [] r.kind = "consist" -> ConsistChecks(r)
NT(r)     == CASE r.kind = "assign"  -> AssignNT(r)
               [] r.kind = "assignf" -> AssignFNT(r)
               [] r.kind = "apply"   -> ApplyNT(r)
               [] r.kind = "plan"    -> PlanNT(r)
               [] r.kind \in {"dhtvx", "greedyx", "oraclex"} -> ExactNT(r)
               [] r.kind = "consist" -> ConsistNT(r)

Init == l = 1 /\ verdicts = <<>>
Next == /\ l <= Len(Trace)
        /\ LET r == Trace[l] IN
             verdicts' = Append(verdicts, Verdict(r.id, FailedOf(Checks(r)), NT(r), ""))
        /\ l' = l + 1
Spec == Init /\ [][Next]_vars
FlushInv == Flush(l, verdicts)
=============================================================================
