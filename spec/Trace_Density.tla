----------------------------- MODULE Trace_Density -----------------------------
(* Trace specification for C07: one record per (distribution object, evaluation point). *)
EXTENDS Density, TraceKit
VARIABLES l, verdicts
vars == <<l, verdicts>>

Kern(r, name, i) == r.kern[CHOOSE j \in 1..Len(r.kern) : r.kern[j].fn = name /\ r.kern[j].idx = i]
RealZ(x) == <<x, FZero>>
\* expected value as <<value, scale>> from a list of signed terms
Terms(ts) == <<FSum(ts), FSumAbs(ts)>>
\* every kernel value carries the absolute error of ln at a 20-bit argument (2^-19), hence + Len(r.kern) in the scale
ValueOK(r, ts) == IsFlt(r.lp) /\ Close(r.lp, Terms(ts)[1], FAdd(FAdd(Terms(ts)[2], FAbs(r.lp)), FInt(Len(r.kern))), 64)
Half == <<P19, -20>>
DF(r) == FInt(r.D)

GaussFull(r) ==
  LET D == r.D
      \* y - mean is supplied in double precision (r.d) because a 20-bit subtraction of large, nearly equal numbers
      \* is meaningless; it must agree with the Flt difference, and it is what the triangular solve is checked against
      d == r.d
      quad == Norm2(r.v)
  IN << <<"difference", \A a \in 1..D : ZClose(r.d[a], ZSub(r.y[a], r.mean[a]), FAdd(ZL1(r.y[a]), ZL1(r.mean[a])), 16)>>,
        <<"cholesky", CholOK(r.L, r.cov)>>,
        <<"solve", SolveOK(r.L, r.v, d)>>,
        <<"kernel_args", \A a \in 1..D : KernOK(Kern(r, "ln", a), r.L[a][a][1], FZero)>>,
        <<"value", ValueOK(r, <<FNeg(FMul(FMul(Half, DF(r)), r.ln2pi))>>
                               \o [a \in 1..D |-> FNeg(Kern(r, "ln", a).val)]
                               \o <<FNeg(FMul(Half, quad))>>)>> >>
DiffOK(r) == \A a \in 1..r.D : ZClose(r.d[a], ZSub(r.y[a], r.mean[a]), FAdd(ZL1(r.y[a]), ZL1(r.mean[a])), 16)
GaussDiag(r) ==
  LET D == r.D
      d == [a \in 1..D |-> r.d[a][1]]
  IN << <<"difference", DiffOK(r)>>, <<"kernel_args", \A a \in 1..D : KernOK(Kern(r, "ln", a), r.var[a], FZero)>>,
        <<"value", ValueOK(r, <<FNeg(FMul(FMul(Half, DF(r)), r.ln2pi))>>
                               \o [a \in 1..D |-> FNeg(FMul(Half, Kern(r, "ln", a).val))]
                               \o [a \in 1..D |-> FNeg(FMul(Half, FDiv(FSq(d[a]), r.var[a])))])>> >>
GaussSph(r) ==
  LET D == r.D
      d == [a \in 1..D |-> r.d[a][1]]
  IN << <<"difference", DiffOK(r)>>, <<"kernel_args", KernOK(Kern(r, "ln", 1), r.var[1], FZero)>>,
        <<"value", ValueOK(r, <<FNeg(FMul(FMul(Half, DF(r)), r.ln2pi)), FNeg(FMul(FMul(Half, DF(r)), Kern(r, "ln", 1).val))>>
                               \o [a \in 1..D |-> FNeg(FMul(Half, FDiv(FSq(d[a]), r.var[1])))])>> >>
CGauss(r) ==
  LET D == r.D
  IN << <<"cholesky", CholOK(r.L, r.cov)>>,
        <<"solve", SolveOK(r.L, r.v, r.y)>>,
        <<"kernel_args", \A a \in 1..D : KernOK(Kern(r, "ln", a), r.L[a][a][1], FZero)>>,
        <<"value", ValueOK(r, <<FNeg(FMul(DF(r), r.lnpi))>>
                               \o [a \in 1..D |-> FNeg(FMul(FTwo, Kern(r, "ln", a).val))]
                               \o <<FNeg(Norm2(r.v))>>)>> >>
\* projections u_e^H z (columns of U are the eigenvectors)
Proj(r, e) == ZSum([a \in 1..r.D |-> ZMul(ZConj(r.U[a][e]), r.z[a])])
Cacg(r) ==
  LET D == r.D
      qterms == [e \in 1..D |-> FDiv(ZAbs2(Proj(r, e)), r.lam[e])]
      quad == FSum(qterms)
  IN << <<"unit_norm", CloseRel(Norm2(r.z), FOne, DS)>>,
        <<"kernel_args", /\ KernOK(Kern(r, "ln", 0), quad, FZero)
                         /\ \A e \in 1..D : KernOK(Kern(r, "ln", e), r.lam[e], FZero)>>,
        <<"value", ValueOK(r, <<FNeg(FMul(DF(r), Kern(r, "ln", 0).val))>> \o [e \in 1..D |-> FNeg(Kern(r, "ln", e).val)])>> >>
Watson(r) ==
  LET p == ZAbs2(ZDot(r.mode, r.z))
  IN << <<"unit_norm", CloseRel(Norm2(r.z), FOne, DS)>>,
        <<"kernel_args", KernOK(Kern(r, "watson_lognorm", 1), r.kappa, FZero)>>,
        <<"value", ValueOK(r, <<FMul(r.kappa, p), FNeg(Kern(r, "watson_lognorm", 1).val)>>)>> >>
Vmf(r) ==
  LET dot == FSum([a \in 1..r.D |-> FMul(r.mean[a][1], r.z[a][1])])
  IN << <<"unit_norm", CloseRel(Norm2(r.z), FOne, DS)>>,
        <<"kernel_args", KernOK(Kern(r, "vmf_lognorm", 1), r.kappa, FZero)>>,
        <<"value", ValueOK(r, <<FMul(r.kappa, dot), FNeg(Kern(r, "vmf_lognorm", 1).val)>>)>>,
        \* two points of one call: ln p(z) - ln p(z2) = kappa mu^T (z - z2); the normaliser cancels, the differences are
        \* formed in double precision by the encoder, so this resolves far below the 20-bit value check
        <<"pair_difference", (HasKey(r, "has_pair") /\ r.has_pair) =>
              LET ts == [a \in 1..r.D |-> FMul(r.kappa, FMul(r.mean[a][1], r.dz[a][1]))]
              IN  IsFlt(r.dlp) /\ Close(r.dlp, FSum(ts), FAdd(FSumAbs(ts), FPow2(-40)), 256)>> >>
Bingham(r) ==
  LET D == r.D
      qterms == [e \in 1..D |-> FMul(ZAbs2(Proj(r, e)), r.lam[e])]
  IN << <<"unit_norm", CloseRel(Norm2(r.z), FOne, DS)>>,
        <<"kernel_args", \A e \in 1..D : KernOK(Kern(r, "bingham_arg", e), r.lam[e], FOne)>>,
        <<"value", ValueOK(r, qterms \o <<FNeg(Kern(r, "bingham_lognorm", 1).val)>>)>> >>

Checks(r) ==
  IF r.exc # "" THEN << <<"raises", FALSE>> >>
  ELSE CASE r.dist = "gauss_full" -> GaussFull(r) [] r.dist = "gauss_diagonal" -> GaussDiag(r)
         [] r.dist = "gauss_spherical" -> GaussSph(r) [] r.dist = "cgauss" -> CGauss(r)
         [] r.dist = "cacg" -> Cacg(r) [] r.dist = "watson" -> Watson(r) [] r.dist = "vmf" -> Vmf(r)
         [] r.dist = "bingham" -> Bingham(r)
\* non-trivial: covariance non-diagonal (or kappa > 1, or >= 2 distinct Bingham eigenvalues) and the point is not the mode
NT(r) == /\ r.exc = ""
         /\ CASE r.dist \in {"gauss_full", "cgauss"} -> \E a, b \in 1..r.D : a # b /\ r.cov[a][b] # ZZero
              [] r.dist \in {"watson", "vmf"} -> FLt(FOne, r.kappa)
              [] r.dist \in {"cacg", "bingham"} -> \E e \in 2..r.D : r.lam[e] # r.lam[1]
              [] OTHER -> TRUE
Init == l = 1 /\ verdicts = <<>>
Next == /\ l <= Len(Trace)
        /\ LET r == Trace[l] IN
             verdicts' = Append(verdicts, Verdict(r.id, FailedOf(Checks(r)), NT(r), ""))
        /\ l' = l + 1
Spec == Init /\ [][Next]_vars
FlushInv == Flush(l, verdicts)
=============================================================================
