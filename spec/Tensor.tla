------------------------------- MODULE Tensor ---------------------------------
(* Tensors as nested sequences with an explicit shape; indices are 0-based     *)
(* sequences (as in NumPy).  Layout helpers transcribe NumPy's rules.          *)
EXTENDS Integers, Sequences, SequencesExt, FiniteSets, TLC

Iota(n) == [i \in 1..n |-> i]                          \* <<1..n>>
At(t, idx) == FoldLeft(LAMBDA acc, i : acc[idx[i] + 1], t, Iota(Len(idx)))
Prod(s) == FoldLeft(LAMBDA a, x : a * x, 1, s)
\* all index tuples of a shape in row-major order
AllIdx(shape) ==
  FoldLeft(LAMBDA acc, a :
             LET n == shape[a]
             IN  TLCEval([j \in 1..(Len(acc) * n) |-> Append(acc[((j - 1) \div n) + 1], (j - 1) % n)]),
           << <<>> >>, Iota(Len(shape)))
\* NumPy negative-axis normalisation: d % ndim  (0-based, non-negative)
NormAxis(d, n) == ((d % n) + n) % n
\* positions (0-based) of the axes not in `drop`, in order
KeepAxes(n, drop) == SelectSeq([i \in 1..n |-> i - 1], LAMBDA a : a \notin drop)
SubIdx(idx, axes) == [j \in 1..Len(axes) |-> idx[axes[j] + 1]]
SubShape(shape, axes) == [j \in 1..Len(axes) |-> shape[axes[j] + 1]]
\* rank of axis a among the kept axes (1-based position in KeepAxes)
PosIn(axes, a) == CHOOSE j \in 1..Len(axes) : axes[j] = a
\* build an index vector for a tensor of rank n: special axes get given values, the remaining
\* axes (in order) take the leading index l
MkIdx(n, special, l) ==      \* special: function axis -> value on a subset of 0..n-1
  LET keep == KeepAxes(n, DOMAIN special)
  IN  [i \in 1..n |-> IF (i - 1) \in DOMAIN special THEN special[i - 1] ELSE l[PosIn(keep, i - 1)]]
InsAt(s, pos, v) == SubSeq(s, 1, pos) \o <<v>> \o SubSeq(s, pos + 1, Len(s))   \* v becomes element pos+1
RemIdx(s, pos) == SubSeq(s, 1, pos) \o SubSeq(s, pos + 2, Len(s))              \* drop element pos+1
=============================================================================
