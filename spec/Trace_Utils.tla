-------------------------------- MODULE Trace_Utils ------------------------------
EXTENDS Utils, Assignment, TraceKit
VARIABLES l, verdicts
vars == <<l, verdicts>>
Checks(r) ==
  CASE r.kind = "unsqueeze" ->
         IF ~UnsqueezeInRange(r.shape, r.axes) THEN << <<"rejects_out_of_range", r.exc = "IndexError">> >>
         ELSE IF ~UnsqueezeDistinct(r.shape, r.axes) THEN << <<"unspecified", TRUE>> >>
         ELSE IF r.exc # "" THEN << <<"raises", FALSE>> >>
         ELSE << <<"shape", r.out_shape = UnsqueezeShape(r.shape, r.axes)>>, <<"data", r.same_data>> >>
    [] r.kind = "onehot" ->
         IF r.exc # "" THEN << <<"raises", FALSE>> >>
         ELSE << <<"shape", r.out.shape = OneHotShape(r.labels.shape, r.C, r.axis, r.keepdims)>>,
                 <<"value", r.out.shape = OneHotShape(r.labels.shape, r.C, r.axis, r.keepdims) =>
                      \A i \in 1..Len(AllIdx(r.out.shape)) :
                         LET ix == AllIdx(r.out.shape)[i]
                         IN  r.out.data[Off(r.out.shape, ix)] = OneHotAt(r.labels, r.C, r.axis, r.keepdims, ix)>> >>
    [] r.kind = "interleave" -> << <<"interleave", r.exc = "" /\ r.out = InterleaveLists(r.lists)>> >>
    [] r.kind = "bcast" -> << <<"broadcast_compatible", r.exc = "" /\ r.out = BroadcastCompatible(r.shapes)>> >>
    [] r.kind = "randmap" ->
         << <<"perm_per_bin", r.exc = "" /\ IsPermPerBin([k \in 1..Len(r.mapping) |-> [f \in 1..Len(r.mapping[k]) |-> r.mapping[k][f] + 1]],
                                                         r.K, r.F)>> >>
NT(r) == r.exc = ""
Init == l = 1 /\ verdicts = <<>>
Next == /\ l <= Len(Trace)
        /\ LET r == Trace[l] IN verdicts' = Append(verdicts, Verdict(r.id, FailedOf(Checks(r)), NT(r), ""))
        /\ l' = l + 1
Spec == Init /\ [][Next]_vars
FlushInv == Flush(l, verdicts)
=============================================================================
