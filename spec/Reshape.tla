-------------------------------- MODULE Reshape --------------------------------
(***************************************************************************)
(* pb_bss.utils.reshape: the "generalised reshape" mini-language           *)
(*        'a 1 b -> b 1 a'      'a b c -> a*b c'      'a b -> 1 b*a'        *)
(* Source tokens: axis names (one letter) or '1' (an axis of length one    *)
(* that is squeezed).  Target tokens: products of axis names ('a*b': the   *)
(* named axes flattened in C order, first name slowest) or '1' (a new axis *)
(* of length one).  Domain of the specification: every source name occurs  *)
(* exactly once in the target (a pure relabelling of the elements; einsum  *)
(* would silently SUM over a dropped name and take a diagonal for a        *)
(* repeated one - both outside the documented use).  A product in the      *)
(* source is rejected with NotImplementedError.                            *)
(*                                                                         *)
(*   src  : sequence of tokens ("a".."z" or "1")                           *)
(*   tgt  : sequence of groups, a group = sequence of names, <<>> = '1'    *)
(*   size : name -> length                                                 *)
(***************************************************************************)
EXTENDS Flat, FiniteSets

Names(src) == {src[i] : i \in 1..Len(src)} \ {"1"}
Flatten(tgt) == FoldLeft(LAMBDA acc, g : acc \o g, <<>>, tgt)
Valid(src, tgt) ==
  /\ Cardinality(Names(src)) = Len(SelectSeq(src, LAMBDA x : x # "1"))          \* names distinct
  /\ Len(Flatten(tgt)) = Cardinality(Names(src))
  /\ {Flatten(tgt)[i] : i \in 1..Len(Flatten(tgt))} = Names(src)                 \* every name exactly once

InShape(src, size) == [i \in 1..Len(src) |-> IF src[i] = "1" THEN 1 ELSE size[src[i]]]
GroupSize(g, size) == FoldLeft(LAMBDA acc, x : acc * size[x], 1, g)
OutShape(tgt, size) == [j \in 1..Len(tgt) |-> GroupSize(tgt[j], size)]
\* index of name g[p] inside the flattened position o of group g (C order: first name slowest)
NameIdx(g, size, o, p) == (o \div GroupSize(SubSeq(g, p + 1, Len(g)), size)) % size[g[p]]
\* the input index that output index oidx (0-based tuple) reads
Source(src, tgt, size, oidx) ==
  [i \in 1..Len(src) |->
     IF src[i] = "1" THEN 0
     ELSE LET j == CHOOSE j \in 1..Len(tgt) : \E p \in 1..Len(tgt[j]) : tgt[j][p] = src[i]
              p == CHOOSE p \in 1..Len(tgt[j]) : tgt[j][p] = src[i]
          IN  NameIdx(tgt[j], size, oidx[j], p)]
\* result: flat tensor
Apply(src, tgt, size, data) ==
  LET os == OutShape(tgt, size) is == InShape(src, size) idxs == AllIdx(os)
  IN  [shape |-> os, data |-> [k \in 1..Len(idxs) |-> data[Off(is, Source(src, tgt, size, idxs[k]))]]]

\* operation string as the code sees it (tokens separated by blanks; the normaliser removes blanks and commas anyway)
RECURSIVE Join(_, _)
Join(toks, sep) == IF toks = <<>> THEN "" ELSE IF Len(toks) = 1 THEN toks[1] ELSE toks[1] \o sep \o Join(Tail(toks), sep)
GroupStr(g) == IF g = <<>> THEN "1" ELSE Join(g, "*")
OpString(src, tgt) == Join(src, " ") \o " -> " \o Join([j \in 1..Len(tgt) |-> GroupStr(tgt[j])], " ")

(* ---- properties checked on the exhaustive instance ---- *)
Numel(shape) == FoldLeft(LAMBDA acc, x : acc * x, 1, shape)
\* the result is a rearrangement: same number of elements, every input element exactly once
IsRearrangement(src, tgt, size) ==
  LET n == Numel(InShape(src, size))
      r == Apply(src, tgt, size, [k \in 1..n |-> k])
  IN  /\ Numel(r.shape) = n
      /\ {r.data[k] : k \in 1..n} = 1..n
\* pure transposition (every group a single name, no '1'): the inverse operation restores the input
IsTransposition(src, tgt) == (\A j \in 1..Len(tgt) : Len(tgt[j]) = 1) /\ (\A i \in 1..Len(src) : src[i] # "1")
InverseRestores(src, tgt, size) ==
  IsTransposition(src, tgt) =>
    LET n == Numel(InShape(src, size))
        fwd == Apply(src, tgt, size, [k \in 1..n |-> k])
        back == Apply(Flatten(tgt), [i \in 1..Len(src) |-> <<src[i]>>], size, fwd.data)
    IN  back.data = [k \in 1..n |-> k] /\ back.shape = InShape(src, size)
\* flattening everything in source order is the identity on the data (C order)
FlattenIsIdentity(src, size) ==
  LET names == SelectSeq(src, LAMBDA x : x # "1")
      n == Numel(InShape(src, size))
  IN  Apply(src, <<names>>, size, [k \in 1..n |-> k]).data = [k \in 1..n |-> k]
=============================================================================
