-------------------------------- MODULE Trace_DHTV ------------------------------
(***************************************************************************)
(* Trace validation of DHTVPermutationAlignment.calculate_mapping against  *)
(* the DHTV step machine of Alignment.tla / MC_DHTV.tla (C16, net          *)
(* reordering clause, any similarity metric, float masks).                 *)
(* The hook events of one call are consumed one per TLC step; the machine  *)
(* state (segment, remaining iterations, bin cursor, changed flag, running *)
(* mapping, current features) is carried in state variables:               *)
(*   start    -> plan = Plan(cfg), identity mapping                         *)
(*   iter     -> BeginIteration: (s, e, iteration) must be the machine's    *)
(*               schedule; logged centroid = mean of the CURRENT features   *)
(*               over the segment (normalised for cos), in Flt              *)
(*   bin      -> AlignBin: bin = cursor; logged score matrix = scores of    *)
(*               current features against the centroid (Flt); decision =   *)
(*               Greedy(rank matrix) / optimal by exact gaps; update        *)
(*   iter_end -> EndIteration: nothing_changed = ~changed; early exit       *)
(*   end      -> machine is done; returned mapping = accumulated mapping    *)
(*               and final features = ApplyMapping(initial features)        *)
(* After a schedule divergence the remaining events of that call are        *)
(* rejected with clause "diverged" (verdicts stay total).                   *)
(***************************************************************************)
EXTENDS Alignment, Num, TraceKit
VARIABLES l, verdicts, m      \* m: machine state record, or [ok |-> FALSE]
vars == <<l, verdicts, m>>
SLK == 128

Plus1(p) == [i \in DOMAIN p |-> p[i] + 1]
Rec == Trace[l]
K(mm) == Len(mm.map)
\* features as Flt: fv[k][f][t]; ids: ids[k][f]
MeanOK(mm, cen, s, e) ==      \* cen * L ~ sum over the segment (multiply / euclidean) or cen || sum and |cen| = 1 (cos)
  \A k \in 1..K(mm) :
     LET T == Len(cen[k])
         sum(t) == FoldLeft(LAMBDA acc, f : <<FAdd(acc[1], mm.fv[k][f][t]), FAdd(acc[2], FAbs(mm.fv[k][f][t]))>>,
                            <<FZero, FZero>>, [i \in 1..(e - s) |-> s + i])
     IN  IF mm.metric = "cos"
         THEN /\ \A a, b \in 1..T : Close(FMul(cen[k][a], sum(b)[1]), FMul(cen[k][b], sum(a)[1]),
                                          FAdd(FMul(FAbs(cen[k][a]), sum(b)[2]), FMul(FAbs(cen[k][b]), sum(a)[2])), SLK)
              /\ (\E t \in 1..T : sum(t)[1] # FZero) => CloseRel(FSum([t \in 1..T |-> FSq(cen[k][t])]), FOne, SLK)
         ELSE \A t \in 1..T : Close(FMul(cen[k][t], FInt(e - s)), sum(t)[1], FAdd(sum(t)[2], FMul(FAbs(cen[k][t]), FInt(e - s))), SLK)
\* logged score S[kref][kest] against current features of bin f and the centroid
ScoreOK(mm, S, f) ==
  \A i, j \in 1..K(mm) :
     LET T == Len(mm.cen[i])
         prods == [t \in 1..T |-> FMul(mm.fv[j][f][t], mm.cen[i][t])]
         sq == [t \in 1..T |-> FSq(FSub(mm.fv[j][f][t], mm.cen[i][t]))]
     IN  IF mm.metric = "euclidean"
         \* the differences cancel for matching rows: scale = sum (|x| + |c|)^2, not the (tiny) squared distance itself
         THEN FLe(S[i][j], FZero) /\ Close(FSq(S[i][j]), FSum(sq), FSum([t \in 1..T |-> FSq(FAdd(FAbs(mm.fv[j][f][t]), FAbs(mm.cen[i][t])))]), SLK)
         ELSE Close(S[i][j], FSum(prods), FAdd(FSumAbs(prods), FAbs(S[i][j])), SLK)
DecisionOK(mm, r) ==
  LET rp == Plus1(r.rp) Kn == K(mm)
  IN  /\ IsPerm(rp, Kn)
      /\ IF mm.alg = "greedy" THEN rp = Greedy(r.R)
         ELSE LET ps == PermSeqs[Kn]
                  idx == CHOOSE i \in 1..Len(ps) : ps[i] = rp
                  best == CHOOSE i \in 1..Len(ps) : r.gaps[i] = 0 /\ \A j \in 1..(i - 1) : r.gaps[j] # 0
              IN  r.gaps[idx] <= 2 * Kn /\ ((\A j \in 1..Len(ps) : j # best => r.gaps[j] > 4 * Kn) => idx = best)
PermuteFv(x, f, rp) == TLCEval([k \in 1..Len(x) |-> [x[k] EXCEPT ![f] = x[rp[k]][f]]])

Bad == [ok |-> FALSE]
Emit(failed, nt) == /\ verdicts' = Append(verdicts, Verdict(Rec.id, failed, nt, "")) /\ l' = l + 1

Start == /\ l <= Len(Trace) /\ Rec.kind = "start"
         /\ LET p == IF PlanValid(Rec.stft, Rec.start, Rec.width) THEN Plan(Rec.stft, Rec.start, Rec.width, Rec.shift, Rec.main, Rec.sub) ELSE <<>>
                Kn == Len(Rec.ids) F == Len(Rec.ids[1])
            IN  /\ m' = [ok |-> p = Rec.plan /\ p # <<>>, plan |-> p, metric |-> Rec.metric, alg |-> Rec.alg,
                         map |-> [k \in 1..Kn |-> [f \in 1..F |-> k]], ids0 |-> Rec.ids, ids |-> Rec.ids, fv |-> Rec.fv,
                         seg |-> 1, left |-> IF p = <<>> THEN 0 ELSE p[1][1], f |-> 0, changed |-> FALSE, done |-> FALSE, cen |-> <<>>,
                         nbins |-> 0, moved |-> 0]
                \* the working features are the caller's mask (Rec.mv) itself, or for 'cos' its rows scaled to unit length
                \* (fv_t^2 |row|^2 = m_t^2 with equal signs; a zero row stays zero)
                /\ Emit(FailedOf(<< <<"plan", p = Rec.plan>>,
                                    <<"features", \A k \in 1..Kn : \A f \in 1..F :
                                          LET mrow == Rec.mv[k][f] frow == Rec.fv[k][f]
                                              n2 == FSum([t \in 1..Len(mrow) |-> FSq(mrow[t])])
                                          IN  IF Rec.metric # "cos" THEN frow = mrow
                                              ELSE \A t \in 1..Len(mrow) :
                                                     /\ FSgn(frow[t]) = FSgn(mrow[t])
                                                     /\ CloseRel(FMul(FSq(frow[t]), n2), FSq(mrow[t]), 64)>> >>), FALSE)
Iter == /\ l <= Len(Trace) /\ Rec.kind = "iter"
        /\ IF ~m.ok THEN m' = m /\ Emit(<<"diverged">>, FALSE)
           ELSE LET s == m.plan[m.seg][2] e == m.plan[m.seg][3]
                    sched == ~m.done /\ m.f = 0 /\ Rec.s = s /\ Rec.e = e /\ Rec.it = m.plan[m.seg][1] - m.left
                IN  IF ~sched THEN m' = Bad /\ Emit(<<"schedule">>, FALSE)
                    ELSE /\ m' = [m EXCEPT !.f = s + 1, !.changed = FALSE, !.cen = Rec.cen]
                         /\ Emit(FailedOf(<< <<"centroid", MeanOK(m, Rec.cen, s, e)>> >>), FALSE)
Bin == /\ l <= Len(Trace) /\ Rec.kind = "bin"
       /\ IF ~m.ok THEN m' = m /\ Emit(<<"diverged">>, FALSE)
          ELSE LET e == m.plan[m.seg][3]
                   sched == ~m.done /\ m.f > 0 /\ m.f <= e /\ Rec.f + 1 = m.f
               IN  IF ~sched THEN m' = Bad /\ Emit(<<"schedule">>, FALSE)
                   ELSE LET rp == Plus1(Rec.rp)
                            okd == DecisionOK(m, Rec)
                            ident == rp = IdPerm(K(m))
                        IN  /\ m' = IF ~okd THEN Bad
                                    ELSE IF ident THEN [m EXCEPT !.f = m.f + 1, !.nbins = m.nbins + 1]
                                    ELSE [m EXCEPT !.f = m.f + 1, !.changed = TRUE, !.nbins = m.nbins + 1, !.moved = m.moved + 1,
                                                   !.map = PermuteBin(m.map, m.f, rp), !.ids = PermuteBin(m.ids, m.f, rp),
                                                   !.fv = PermuteFv(m.fv, m.f, rp)]
                            /\ Emit(FailedOf(<< <<"score", ScoreOK(m, Rec.S, m.f)>>, <<"decision", okd>> >>), ~ident)
IterEnd == /\ l <= Len(Trace) /\ Rec.kind = "iter_end"
           /\ IF ~m.ok THEN m' = m /\ Emit(<<"diverged">>, FALSE)
              ELSE LET e == m.plan[m.seg][3]
                       sched == ~m.done /\ m.f = e + 1
                   IN  IF ~sched THEN m' = Bad /\ Emit(<<"schedule">>, FALSE)
                       ELSE /\ m' = IF m.changed /\ m.left > 1 THEN [m EXCEPT !.left = m.left - 1, !.f = 0]
                                    ELSE IF m.seg < Len(m.plan) THEN [m EXCEPT !.seg = m.seg + 1, !.left = m.plan[m.seg + 1][1], !.f = 0]
                                    ELSE [m EXCEPT !.done = TRUE, !.f = 0]
                            /\ Emit(FailedOf(<< <<"changed_flag", Rec.nothing_changed = ~m.changed>> >>), FALSE)
End == /\ l <= Len(Trace) /\ Rec.kind = "end"
       /\ IF ~m.ok THEN m' = m /\ Emit(<<"diverged">>, FALSE)
          ELSE /\ m' = m
               /\ Emit(FailedOf(<< <<"terminated", m.done>>,
                                   <<"net_reordering", [k \in 1..K(m) |-> Plus1(Rec.mapping[k])] = m.map>>,
                                   <<"final_features", Rec.ids = m.ids /\ m.ids = ApplyMapping(m.ids0, m.map)>>,
                                   <<"bijective", IsPermPerBin(m.map, K(m), Len(m.map[1]))>> >>), m.moved > 0)
Init == l = 1 /\ verdicts = <<>> /\ m = Bad
Next == Start \/ Iter \/ Bin \/ IterEnd \/ End
Spec == Init /\ [][Next]_vars
FlushInv == Flush(l, verdicts)
=============================================================================
