----------------------------- MODULE Trace_Metrics -----------------------------
(* Trace specification for si_sdr, input_sxr, output_sxr, set_snr/get_snr (C19). *)
EXTENDS Metrics, TraceKit
VARIABLES l, verdicts
vars == <<l, verdicts>>
SL == 24   \* slack in 2^-19 units for a ratio of two integer sums times float gains

(* ---- si_sdr: r.est[i], r.ref[i] integer signals per leading index, r.out[i] Flt ratio ---- *)
SiChecks(r) ==
  IF r.exc # "" THEN << <<"raises", FALSE>> >>
  ELSE IF Len(r.out) # Len(r.est) THEN << <<"shape", FALSE>> >>
  ELSE << <<"value", \A i \in 1..Len(r.est) :
               LET nd == SiSdrRatio(r.est[i], r.ref[i]) IN RatioOK(r.out[i], nd[1], nd[2], FOne, FOne, SL)>> >>

\* near-perfect estimates: est = G ref + e with a large integer gain G and a small integer residual e.  Then
\* alpha = G + <s,e>/<s,s>, the residual est - alpha s = e - (<s,e>/<s,s>) s does not depend on G, and
\*    |alpha s|^2 / |est - alpha s|^2 = (G <s,s> + <s,e>)^2 / (<e,e><s,s> - <s,e>^2)
SiHiChecks(r) ==
  IF r.exc # "" THEN << <<"raises", FALSE>> >>
  ELSE IF Len(r.out) # Len(r.ref) THEN << <<"shape", FALSE>> >>
  ELSE << <<"value", \A i \in 1..Len(r.ref) :
               LET ss == Energy(r.ref[i]) se == Inner(r.ref[i], r.res[i]) ee == Energy(r.res[i])
                   num == FSq(FAdd(FMul(FInt(r.gain[i]), FInt(ss)), FInt(se)))
                   den == ee * ss - se * se
               IN  IF den = 0 THEN r.out[i] = PInfF
                   ELSE IsFlt(r.out[i]) /\ CloseRel(FMul(r.out[i], FInt(den)), num, SL)>> >>

(* ---- input_sxr ---- *)
\* r.out.sdr / sir / snr : matrices [k][d] of Flt ratios (k = 1 when averaged over sources,
\* d = 1 when averaged over channels);  gains: gi = ci^2, gn = cn^2 (Flt)
InChecks(r) ==
  IF r.exc # "" THEN << <<"raises", FALSE>> >>
  ELSE LET K == Len(r.images)
           ND == IF r.avg_ch THEN 1 ELSE Len(r.noise)
           S(k) == ChanS(r.images, k, r.avg_ch)
           I(k) == ChanI(r.images, k, r.avg_ch)
           N == ChanN(r.noise, r.avg_ch)
           shapeok == /\ Len(r.out.sdr) = (IF r.avg_src THEN 1 ELSE K)
                      /\ \A k \in 1..Len(r.out.sdr) : Len(r.out.sdr[k]) = ND
       IN IF ~shapeok THEN << <<"shape", FALSE>> >>
          ELSE IF ~r.avg_src THEN
            << <<"sir", \A k \in 1..K, d \in 1..ND : RatioOK(r.out.sir[k][d], S(k)[d], I(k)[d], FOne, FOne, SL)>>,
               <<"snr", \A k \in 1..K, d \in 1..ND : RatioOK(r.out.snr[k][d], S(k)[d], N[d], r.gi, r.gn, SL)>>,
               \* SDR = S gi / (I gi + N gn): compare rho (I gi + N gn) with S gi
               <<"sdr", \A k \in 1..K, d \in 1..ND :
                    LET den == FAdd(FMul(FInt(I(k)[d]), r.gi), FMul(FInt(N[d]), r.gn))
                    IN  IF den = FZero THEN (S(k)[d] = 0 \/ r.out.sdr[k][d] = PInfF)
                        ELSE IsFlt(r.out.sdr[k][d]) /\ CloseRel(FMul(r.out.sdr[k][d], den), FMul(FInt(S(k)[d]), r.gi), SL)>>,
               <<"decomposition", \A k \in 1..K, d \in 1..ND :
                    LET a == r.out.sdr[k][d] b == r.out.sir[k][d] c == r.out.snr[k][d]
                    IN  (IsFlt(a) /\ IsFlt(b) /\ IsFlt(c) /\ a # FZero /\ b # FZero /\ c # FZero) =>
                          CloseRel(FDiv(FOne, a), FAdd(FDiv(FOne, b), FDiv(FOne, c)), SL)>> >>
          ELSE
            << <<"sir", \A d \in 1..ND : GeoOK(r.out.sir[1][d], [k \in 1..K |-> S(k)[d]], [k \in 1..K |-> I(k)[d]], FOne, FOne, 4 * SL)>>,
               <<"snr", \A d \in 1..ND : GeoOK(r.out.snr[1][d], [k \in 1..K |-> S(k)[d]], [k \in 1..K |-> N[d]], r.gi, r.gn, 4 * SL)>> >>

(* ---- output_sxr ---- *)
OutChecks(r) ==
  IF r.exc # "" THEN << <<"raises", FALSE>> >>
  ELSE LET K == Len(r.images)
           s == BestSel(r.images)
           tie == SelTie(r.images)
       IN IF Len(r.out.sdr) # (IF r.avg_src THEN 1 ELSE K) THEN << <<"shape", FALSE>> >>
          ELSE IF tie THEN << <<"tie_skipped", TRUE>> >>
          ELSE IF ~r.avg_src THEN
            << <<"sir", \A k \in 1..K : RatioOK(r.out.sir[k][1], OutSS(r.images, s, k), OutII(r.images, s, k), FOne, FOne, SL)>>,
               <<"snr", \A k \in 1..K : RatioOK(r.out.snr[k][1], OutSS(r.images, s, k), OutNN(r.noise, s, k), r.gi, r.gn, SL)>>,
               <<"sdr", \A k \in 1..K :
                    LET den == FAdd(FMul(FInt(OutII(r.images, s, k)), r.gi), FMul(FInt(OutNN(r.noise, s, k)), r.gn))
                    IN  IF den = FZero THEN (OutSS(r.images, s, k) = 0 \/ r.out.sdr[k][1] = PInfF)
                        ELSE IsFlt(r.out.sdr[k][1]) /\ CloseRel(FMul(r.out.sdr[k][1], den), FMul(FInt(OutSS(r.images, s, k)), r.gi), SL)>>,
               <<"decomposition", \A k \in 1..K :
                    LET a == r.out.sdr[k][1] b == r.out.sir[k][1] c == r.out.snr[k][1]
                    IN  (IsFlt(a) /\ IsFlt(b) /\ IsFlt(c) /\ a # FZero /\ b # FZero /\ c # FZero) =>
                          CloseRel(FDiv(FOne, a), FAdd(FDiv(FOne, b), FDiv(FOne, c)), SL)>> >>
          ELSE
            << <<"sir", GeoOK(r.out.sir[1][1], [k \in 1..K |-> OutSS(r.images, s, k)], [k \in 1..K |-> OutII(r.images, s, k)], FOne, FOne, 4 * SL)>>,
               <<"snr", GeoOK(r.out.snr[1][1], [k \in 1..K |-> OutSS(r.images, s, k)], [k \in 1..K |-> OutNN(r.noise, s, k)], r.gi, r.gn, 4 * SL)>> >>

(* ---- set_snr then get_snr ---- *)
SnrChecks(r) ==
  IF r.exc # "" THEN << <<"raises", FALSE>> >>
  ELSE << <<"roundtrip", IsFlt(r.got) /\ CloseRel(r.got, r.want, 64)>>,
          <<"x_untouched", r.x_same>> >>

(* ---- result container ---- *)
\* r.rd : "false" | "true" | "prefix";  r.prefix ; r.type : "tuple" | "dict" ; r.keys sorted
ContainerChecks(r) ==
  IF r.exc # "" THEN << <<"raises", FALSE>> >>
  ELSE << <<"container",
            IF r.rd = "false" THEN r.type = "tuple"
            ELSE /\ r.type = "dict"
                 /\ LET p == IF r.rd = "prefix" THEN r.prefix ELSE ""
                    IN  {r.keys[i] : i \in 1..Len(r.keys)} = {p \o "sdr", p \o "sir", p \o "snr"}>>,
          \* the value under (prefix +) "sdr" / "sir" / "snr" is bit-identical to the tuple entry of the same name
          <<"values_by_name", r.values_same>> >>

Checks(r) == CASE r.kind = "sisdr" -> SiChecks(r) [] r.kind = "input" -> InChecks(r)
               [] r.kind = "sisdr_hi" -> SiHiChecks(r) [] r.kind = "output" -> OutChecks(r) [] r.kind = "snr" -> SnrChecks(r)
               [] r.kind = "container" -> ContainerChecks(r)
\* non-trivial: K >= 2, noise non-zero, (output) selection not the identity
NT(r) == CASE r.kind \in {"sisdr", "sisdr_hi"} -> r.exc = ""
           [] r.kind = "input" -> r.exc = "" /\ Len(r.images) >= 2 /\ \E d \in 1..Len(r.noise) : NPow(r.noise, d) > 0
           [] r.kind = "output" -> r.exc = "" /\ Len(r.images) >= 2 /\ ~SelTie(r.images)
                                   /\ BestSel(r.images) # [k \in 1..Len(r.images) |-> k]
           [] r.kind = "snr" -> r.exc = ""
           [] r.kind = "container" -> r.rd # "false"
Init == l = 1 /\ verdicts = <<>>
Next == /\ l <= Len(Trace)
        /\ LET r == Trace[l] IN
             verdicts' = Append(verdicts, Verdict(r.id, FailedOf(Checks(r)), NT(r), ""))
        /\ l' = l + 1
Spec == Init /\ [][Next]_vars
FlushInv == Flush(l, verdicts)
=============================================================================
