-------------------------------- MODULE MC_Psd --------------------------------
(* Exhaustive instance of the PSD definition on a tiny lattice: D = 2, T = 2,   *)
(* all observations over {0,1,i,1+i}, all masks over MaskVals, every layout of  *)
(* a rank-3 observation with a source mask.  Decides what the definition itself *)
(* implies: Hermitian, positive semidefinite on lattice probes, invariant under *)
(* mask rescaling, and layout invariance (every layout of the same data gives   *)
(* the same matrices).                                                          *)
EXTENDS Psd, TLC
CONSTANTS MaskVals
VARIABLES x, m
vars == <<x, m>>
CV == {<<0, 0>>, <<1, 0>>, <<0, 1>>, <<1, 1>>}
Init == /\ x \in [1..2 -> [1..2 -> CV]]          \* x[d][t]
        /\ m \in [1..2 -> MaskVals]               \* m[t]
Next == UNCHANGED vars
Spec == Init /\ [][Next]_vars
Rec(obs, oshape, sd, td, mask, mtype, mshape, kd) ==
  [n |-> Len(oshape), oshape |-> oshape, obs |-> obs, sd |-> sd, td |-> td, kd |-> kd,
   mtype |-> mtype, mshape |-> mshape, mask |-> mask, normalize |-> TRUE]
\* default layout (D, T) with a plain mask (T)
R0 == Rec(x, <<2, 2>>, -2, -1, m, "plain", <<2>>, -2)
\* transposed layout (T, D): sensor_dim = -1, time_dim = 0, mask-free / source mask (K=1, T)
XT == [t \in 1..2 |-> [d \in 1..2 |-> x[d][t]]]
R1 == Rec(XT, <<2, 2>>, -1, 0, <<m>>, "source", <<2, 1>>, 1)   \* mask (T, K) : source_dim 1, time_dim 0
Num0(d, e) == PsdNum(R0, <<>>, 0, d - 1, e - 1)
Den0 == PsdDen(R0, <<>>, 0)
Hermitian == \A d, e \in 1..2 : Num0(d, e) = CConj(Num0(e, d))
Probes == {<<a, b>> : a \in CV \cup {<<-1, 0>>, <<0, -1>>}, b \in CV \cup {<<-1, 0>>, <<0, -1>>}}
Quad(v) == CSum([i \in 1..4 |-> LET d == ((i - 1) \div 2) + 1 e == ((i - 1) % 2) + 1
                                IN  CMul(CMul(CConj(v[d]), Num0(d, e)), v[e])])
PositiveSemidefinite == \A v \in Probes : Quad(v)[1] >= 0 /\ Quad(v)[2] = 0
\* scaling the mask by 2 scales numerator and denominator alike
ScaleInvariant ==
  LET R2 == [R0 EXCEPT !.mask = [t \in 1..2 |-> 2 * m[t]]]
  IN  \A d, e \in 1..2 : CScale(PsdDen(R2, <<>>, 0), Num0(d, e)) = CScale(Den0, PsdNum(R2, <<>>, 0, d - 1, e - 1))
LayoutInvariant ==
  LET m2 == [t \in 1..2 |-> <<m[t]>>]    \* (T, K=1)
      R == [R1 EXCEPT !.mask = m2]
  IN  /\ OutShape(R) = <<1, 2, 2>>
      /\ \A d, e \in 1..2 : PsdNum(R, <<>>, 0, d - 1, e - 1) = Num0(d, e) /\ PsdDen(R, <<>>, 0) = Den0
ZeroMaskZero == (Den0 = 0) => \A d, e \in 1..2 : Num0(d, e) = CZero
=============================================================================
