-------------------------------- MODULE Trace_MM -------------------------------
(***************************************************************************)
(* Trace specification for the mixture models: posteriors (C01), mixture   *)
(* weights (C08/C09), initializers (C01).                                  *)
(***************************************************************************)
EXTENDS Posterior, Weights, Model, LinAlg, InlinePA, TraceKit
VARIABLES l, verdicts
vars == <<l, verdicts>>
SL == 64

IsRatP(c) == Len(c) = 2 /\ c[2] > 0
AllData(f, P(_)) == \A i \in 1..Len(f.data) : P(f.data[i])

(* ---- bayesx : log_pdf_to_affiliation on a lattice problem, exact ---- *)
\* r.w, r.lik : K x N integers; r.sam : K x N BOOLEAN (r.has_sam); r.eps : <<p, q>>; r.out : K x N rationals
BayesXChecks(r) ==
  IF r.exc # "" THEN << <<"raises", FALSE>> >>
  ELSE LET K == Len(r.w) N == Len(r.w[1])
           sam == IF r.has_sam THEN r.sam ELSE [k \in 1..K |-> [n \in 1..N |-> TRUE]]
           g == BayesR(r.w, r.lik, sam, r.eps)
       IN IF ~(\A k \in 1..K, n \in 1..N : IsRatP(r.out[k][n])) THEN << <<"finite_rational", FALSE>> >>
          ELSE << <<"bayes", \A k \in 1..K, n \in 1..N : REq(r.out[k][n], g[k][n])>>,
                  <<"zero_inactive", \A k \in 1..K, n \in 1..N : (r.eps[1] = 0 /\ ~sam[k][n]) => r.out[k][n][1] = 0>> >>

(* ---- posterior : predict / fit_predict / E-step of a model (Flt) ---- *)
\* r.aff, r.lik, r.w (stored weight), r.sam ("none" or flat BOOLEAN), r.eps (Flt), r.zero (flat BOOLEAN: exact zeros)
\* r.full = documented shape (..L, K, N); r.wshape_expected computed here from the schema
PostChecks(r) ==
  IF r.exc # "" THEN << <<"raises", r.exc_explicit>> >>
  ELSE IF r.aff.shape # r.full THEN << <<"shape", FALSE>> >>
  ELSE IF ~AllData(r.aff, IsFlt) THEN << <<"finite", FALSE>> >>
  ELSE LET R == Len(r.full) K == r.full[R - 1] N == r.full[R]
           cols == AllIdx(RemIdx(r.full, R - 2))            \* indices (..l, n)
           idx(c, k) == InsAt(c, R - 2, k)
           active(c, k) == IF r.has_sam THEN Get(r.sam, idx(c, k)) ELSE TRUE
           fullT == [shape |-> r.full]
           \* integration models store the weight squeezed over the tied axes; the E-step re-expands it
           W == IF r.integration THEN [shape |-> KeepdimsShape(r.full, Axes(fullT, r.wca)), data |-> r.w.data] ELSE r.w
           expW == IF r.integration THEN IntWeightShape(fullT, r.wca) ELSE StdWeightShape(fullT, r.wca, r.wca_int)
           term(c, k) == IF active(c, k) THEN FMul(Get(W, idx(c, k)), Get(r.lik, idx(c, k))) ELSE FZero
           Z(c) == FSum([k \in 1..K |-> term(c, k - 1)])
           a(c, k) == Get(r.aff, idx(c, k))
           colsum(c) == FSum([k \in 1..K |-> a(c, k - 1)])
           clip(x) == IF r.eps = FZero THEN x ELSE FMax(r.eps, FMin(FSub(FOne, r.eps), x))
       IN IF r.w.shape # expW \/ ~AllData(r.w, IsFlt) \/ ~AllData(r.lik, IsFlt) THEN << <<"weight_shape", r.w.shape = expW>>, <<"finite_inputs", AllData(r.w, IsFlt) /\ AllData(r.lik, IsFlt)>> >>
          ELSE
          << <<"range", AllData(r.aff, LAMBDA x : FLe(FZero, x) /\ FLe(x, FOne))>>,
             <<"sum_one", \A i \in 1..Len(cols) : LET c == cols[i] IN
                  \* premise of the property: some active class has non-zero mass at this observation
                  IF \E k \in 0..(K - 1) : active(c, k) /\ term(c, k) # FZero
                  THEN Close(colsum(c), FOne, FAdd(FOne, FMul(FInt(K), FMul(FInt(2 ^ 19), r.eps))), SL)
                  ELSE (\A k \in 0..(K - 1) : ~active(c, k)) => \A k \in 0..(K - 1) : a(c, k) = FZero \/ r.eps # FZero>>,
             <<"zero_inactive", \A i \in 1..Len(cols) : \A k \in 0..(K - 1) :
                  (~active(cols[i], k) /\ r.eps = FZero) => a(cols[i], k) = FZero>>,
             <<"bayes", \A i \in 1..Len(cols) : LET c == cols[i] z == Z(c) IN
                  z # FZero => \A k \in 0..(K - 1) :
                     Close(a(c, k), clip(FDiv(term(c, k), z)), FOne, SL)>> >>
\* non-trivial: K >= 2 and some observation with >= 2 classes in (0.01, 0.99)
PostNT(r) ==
  /\ r.exc = "" /\ r.aff.shape = r.full /\ AllData(r.aff, IsFlt)
  /\ LET R == Len(r.full) K == r.full[R - 1]
         cols == AllIdx(RemIdx(r.full, R - 2))
         mid(x) == FLt(<<P19 + 10486, -26>>, x) /\ FLt(x, FSub(FOne, <<P19 + 10486, -26>>))   \* ~0.01
     IN  K >= 2 /\ \E i \in 1..Len(cols) :
            Cardinality({k \in 0..(K - 1) : mid(Get(r.aff, InsAt(cols[i], R - 2, k)))}) >= 2

(* ---- init : initializer outputs ---- *)
InitChecks(r) ==
  IF r.exc # "" THEN << <<"raises", FALSE>> >>
  ELSE IF r.aff.shape # r.full THEN << <<"shape", FALSE>> >>
  ELSE IF ~AllData(r.aff, IsFlt) THEN << <<"finite", FALSE>> >>
  ELSE LET R == Len(r.full) K == r.full[R - 1]
           cols == AllIdx(RemIdx(r.full, R - 2))
           a(c, k) == Get(r.aff, InsAt(c, R - 2, k))
       IN << <<"range", AllData(r.aff, LAMBDA x : FLe(FZero, x) /\ FLe(x, FOne))>>,
             <<"sum_one", \A i \in 1..Len(cols) : Close(FSum([k \in 1..K |-> a(cols[i], k - 1)]), FOne, FOne, SL)>>,
             <<"one_hot", r.one_hot => AllData(r.aff, LAMBDA x : x = FZero \/ x = FOne)>> >>

(* ---- flag : deterministic flag initializer, exact ---- *)
\* r.N, r.K, r.minimum <<p, q>>, r.out : K x N rationals (one leading index per record list r.outs)
FlagChecks(r) ==
  IF r.exc # "" THEN << <<"raises", FALSE>> >>
  ELSE LET K == r.K N == r.N
           assigned(n) == ((n - 1) * K) \div N + 1        \* floor(i K / N), 0-based i = n-1
           rem == RSub(<<1, 1>>, RMul(<<K - 1, 1>>, r.minimum))
       IN << <<"shape", \A i \in 1..Len(r.outs) : Len(r.outs[i]) = K /\ \A k \in 1..K : Len(r.outs[i][k]) = N>>,
             <<"exact", \A i \in 1..Len(r.outs) : \A k \in 1..K, n \in 1..N :
                  /\ IsRatP(r.outs[i][k][n])
                  /\ REq(r.outs[i][k][n], IF k = assigned(n) THEN rem ELSE r.minimum)>> >>

(* ---- weightx : estimate_mixture_weight on lattice affiliations, exact ---- *)
\* r.aff : flat integers (units 1/r.affden), r.sal : flat integers or has_sal = FALSE, r.out flat rationals
WeightXChecks(r) ==
  IF r.exc # "" THEN << <<"raises", FALSE>> >>
  ELSE LET axes == Axes(r.aff, r.wca)
           expshape == IF r.integration THEN IntWeightShape(r.aff, r.wca) ELSE StdWeightShape(r.aff, r.wca, r.wca_int)
           R == Rank(r.aff) K == r.aff.shape[R - 1]
       IN IF r.out.shape # expshape THEN << <<"shape", FALSE>> >>
          ELSE IF ~AllData(r.out, IsRatP) THEN << <<"finite_rational", FALSE>> >>
          ELSE IF (~r.integration /\ ClassTiedInt(r.aff, r.wca, r.wca_int)) \/ (r.integration /\ ClassAx(r.aff) \in axes)
               THEN << <<"uniform", AllData(r.out, LAMBDA x : REq(x, <<1, K>>))>> >>
          ELSE LET kd == KeepdimsShape(r.aff.shape, axes)
                   oidx == AllIdx(kd)
                   S(o) == LET g == Group(r.aff.shape, axes, o)
                           IN  SumSeq([j \in 1..Len(g) |-> Get(r.aff, g[j]) * (IF r.has_sal THEN SalAt(r.sal, g[j]) ELSE 1)])
                   cnt(o) == Len(Group(r.aff.shape, axes, o))
                   ksize == kd[R - 1]
                   norm(o) == SumSeq([k \in 1..ksize |-> S([o EXCEPT ![R - 1] = k - 1])])
                   \* value of the code's (possibly squeezed) output at keepdims index o
                   outAt(o) == IF r.integration THEN r.out.data[Off(r.out.shape, SubIdx(o, KeepAxes(R, axes)))]
                               ELSE Get(r.out, o)
               IN << <<"value", \A i \in 1..Len(oidx) : LET o == oidx[i] IN
                          IF r.has_sal \/ r.integration
                          THEN (IF norm(o) = 0 THEN (r.integration \/ outAt(o)[1] = 0)
                                ELSE outAt(o)[1] * norm(o) = outAt(o)[2] * S(o))
                          ELSE outAt(o)[1] * (cnt(o) * r.affden) = outAt(o)[2] * S(o)>> >>

(* ---- twin : two models that must be related (C04 same, C05 class permutation, C06 slice, C20 split) ---- *)
\* r.rel in {"same", "perm", "slice"}; r.A, r.B : models; r.pi (perm), r.lead (slice); r.slack
TwinChecks(r) ==
  IF r.exc # "" THEN << <<r.exc_clause, FALSE>> >>
  ELSE IF Names(r.A) # Names(r.B) THEN << <<"fields", FALSE>> >>
  ELSE IF ~(\A i \in 1..Len(r.A) : FieldFinite(r.A[i])) \/ ~(\A i \in 1..Len(r.B) : FieldFinite(r.B[i]))
       THEN << <<"finite", FALSE>> >>
  ELSE [i \in 1..Len(r.A) |->
         LET fa == r.A[i] fb == Field(r.B, fa.name)
             cax == FieldClassAx(fa, r.integration, r.wca)
         IN  <<fa.name,
               CASE r.rel = "same" -> IF r.fine < 0 THEN SameFine(fa, fb, Field(r.R, fa.name).t, r.slack, r.fine) ELSE SameField(fa, fb, r.slack)
                 [] r.rel = "perm" -> LET amp == IF Len(r.amp) = 0 THEN FZero ELSE r.amp[i]
                                      IN  IF r.fine < 0 THEN PermFineA(fa, fb, Field(r.R, fa.name).t, cax, r.pi, r.slack, r.fine, amp)
                                          ELSE PermFieldA(fa, fb, cax, r.pi, r.slack, amp)
                 [] r.rel = "slice" -> LET amp == IF Len(r.amp) = 0 THEN FZero ELSE r.amp[i]
                                       IN  IF r.fine < 0 THEN SliceFineA(fa, fb, Field(r.R, fa.name).t, r.lead, r.slack, r.fine, amp)
                                           ELSE SliceFieldA(fa, fb, r.lead, r.slack, amp)>>]
\* non-trivial: perm: pi not the identity and the classes differ; slice: >= 2 differing slices (driver flag
\* cross-checked: the compared field has > 1 element); same: the transformation was non-trivial (driver)
TwinNT(r) == /\ r.exc = "" /\ Len(r.A) > 0
             /\ (r.rel = "perm" => \E k \in 1..Len(r.pi) : r.pi[k] # k - 1)
             /\ \E i \in 1..Len(r.A) : Len(r.A[i].t.data) > 1 /\ \E j \in 2..Len(r.A[i].t.data) : r.A[i].t.data[j] # r.A[i].t.data[1]

(* ---- domain : fitted parameters stay inside their documented domain (C09) ---- *)
\* r.fields : raw fields (name, t, cplx); r.full = affiliation shape; options: r.floor, r.norm, r.kmin, r.kmax (Flt),
\* r.eps (Flt affiliation clipping), r.wca / r.wca_int / r.integration
DField(r, name) == Field(r.fields, name)
DHas(r, name) == name \in Names(r.fields)
\* rows of the last axis of a flat tensor, as sequences
LastAxisRows(t) == LET d == t.shape[Len(t.shape)] n == Prod(t.shape) \div d
                   IN  [i \in 1..n |-> SubSeq(t.data, (i - 1) * d + 1, i * d)]
\* D x D matrices of the last two axes
LastMats(t) == LET d == t.shape[Len(t.shape)] n == Prod(t.shape) \div (d * d)
               IN  [i \in 1..n |-> [a \in 1..d |-> SubSeq(t.data, (i - 1) * d * d + (a - 1) * d + 1, (i - 1) * d * d + a * d)]]
Unitary(U) == LET d == Len(U) IN \A a, b \in 1..d :
                 ZClose(ZSum([e \in 1..d |-> ZMul(ZConj(U[e][a]), U[e][b])]), IF a = b THEN <<FOne, FZero>> ELSE ZZero, FOne, 64)
FMaxSeq(s) == FoldLeft(LAMBDA acc, x : FMax(acc, x), s[1], s)
WeightDomain(r) ==
  LET w == DField(r, "weight").t
      fullT == [shape |-> r.full]
      R == Len(r.full) K == r.full[R - 1]
      expW == IF r.integration THEN IntWeightShape(fullT, r.wca) ELSE StdWeightShape(fullT, r.wca, r.wca_int)
      W == IF r.integration THEN [shape |-> KeepdimsShape(r.full, Axes(fullT, r.wca)), data |-> w.data] ELSE w
      cax == Len(W.shape) - 2
      cols == AllIdx(RemIdx(W.shape, cax))
      tol == FAdd(FNorm(64, -19), FMul(FInt(K), r.eps))
  IN << <<"weight_shape", w.shape = expW>>,
        <<"weight_nonneg", \A i \in 1..Len(w.data) : FLe(FZero, w.data[i])>>,
        <<"weight_sum", w.shape = expW =>
             \A i \in 1..Len(cols) :
                LET s == FSum([k \in 1..W.shape[cax + 1] |-> Get(W, InsAt(cols[i], cax, k - 1))])
                IN  IF W.shape[cax + 1] = 1 THEN TRUE     \* tied over classes by a tuple: mean over classes
                    ELSE FLe(FAbs(FSub(s, FOne)), tol)>>,
        \* r.rowsum: sum over classes of the posterior the last M-step consumed (last E-step, or the initialisation).
        \* Every observation's posterior either sums to one or is entirely zero (no class both active and of non-zero
        \* weight: the documented corner of the source-activity mask); anything in between is a broken E-step.
        \* (Keeps the recorded weight_sum findings specific: they cover all-zero observations only.)
        <<"posterior_rows_zero_or_one", \A i \in 1..Len(r.rowsum.data) :
             LET x == r.rowsum.data[i] IN IsFlt(x) /\ (FLe(FAbs(x), tol) \/ FLe(FAbs(FSub(x, FOne)), tol))>> >>   \* zero up to K eps clipping
CacgDomain(r) ==
  LET U == DField(r, "cacg_eigenvectors").t lam == DField(r, "cacg_eigenvalues").t
      rows == LastAxisRows(lam)
  IN << <<"cacg_unitary", \A i \in 1..Len(LastMats(U)) : Unitary(LastMats(U)[i])>>,
        \* 'eigenvalue' norm: every eigenvalue in [floor, 1] and the maximum exactly 1; 'trace': positive, unit trace up to
        \* flooring; none: relative floor.  (separate clauses: a finding on one of them must not hide the others)
        <<"cacg_eigenvalue_floor", \A i \in 1..Len(rows) :
             CASE r.norm = "eigenvalue" -> \A j \in 1..Len(rows[i]) : FLe(r.floor, rows[i][j])
               [] r.norm = "trace" -> \A j \in 1..Len(rows[i]) : FLe(FMul(FMul(r.floor, FMaxSeq(rows[i])), FSub(FOne, FNorm(64, -19))), rows[i][j])
               \* relative floor; the product is formed in Flt, hence the (1 - 64 2^-19) factor
               [] OTHER -> \A j \in 1..Len(rows[i]) : FLe(FMul(FMul(r.floor, FMaxSeq(rows[i])), FSub(FOne, FNorm(64, -19))), rows[i][j])>>,
        <<"cacg_eigenvalue_le_one", r.norm = "eigenvalue" => \A i \in 1..Len(rows) : \A j \in 1..Len(rows[i]) : FLe(rows[i][j], FOne)>>,
        <<"cacg_eigenvalue_max_is_one", r.norm = "eigenvalue" => \A i \in 1..Len(rows) : FMaxSeq(rows[i]) = FOne>>,
        <<"cacg_positive_definite", \A i \in 1..Len(rows) : \A j \in 1..Len(rows[i]) : FSgn(rows[i][j]) > 0 \/ r.floor = FZero>>,
        <<"cacg_unit_trace", r.norm = "trace" => \A i \in 1..Len(rows) :
             /\ FLe(FSum(rows[i]), FAdd(FOne, FAdd(FNorm(64, -19), FMul(FInt(Len(rows[i])), r.floor))))
             /\ FLe(FSub(FOne, FNorm(64, -19)), FSum(rows[i]))>> >>
WatsonDomain(r) ==
  LET m == LastAxisRows(DField(r, "watson_mode").t) c == DField(r, "watson_concentration").t.data
  IN << <<"watson_unit_mode", \A i \in 1..Len(m) : CloseRel(Norm2(m[i]), FOne, 64)>>,
        <<"watson_concentration_range", \A i \in 1..Len(c) : FLe(FZero, c[i]) /\ FLe(c[i], r.kmax)>> >>
VmfDomain(r) ==
  LET m == LastAxisRows(DField(r, "vmf_mean").t) c == DField(r, "vmf_concentration").t.data
  IN << <<"vmf_unit_mean", \A i \in 1..Len(m) : CloseRel(FSum([j \in 1..Len(m[i]) |-> FSq(m[i][j])]), FOne, 64) \/ r.zero_resultant>>,
        <<"vmf_concentration_range", \A i \in 1..Len(c) : FLe(r.kmin, c[i]) /\ FLe(c[i], r.kmax)>> >>
\* Gaussian covariance: symmetric and positive definite by a Cholesky certificate L (lower triangular, positive diagonal)
GaussDomain(r) ==
  LET name == CHOOSE n \in Names(r.fields) : n \in {"gaussian_covariance_full", "gaussian_covariance_diagonal", "gaussian_covariance_spherical"}
      c == DField(r, name).t
  IN IF name # "gaussian_covariance_full"
     THEN << <<"gaussian_variance_positive", \A i \in 1..Len(c.data) : FSgn(c.data[i]) > 0>> >>
     ELSE LET S == LastMats(c) L == LastMats(DField(r, "gaussian_cholesky").t) d == Len(S[1])
          IN << <<"gaussian_symmetric", \A i \in 1..Len(S) : \A a, b \in 1..d : CloseRel(S[i][a][b], S[i][b][a], 64) \/ (S[i][a][b] = FZero /\ S[i][b][a] = FZero)>>,
                <<"gaussian_positive_definite", \A i \in 1..Len(S) :
                     /\ \A a \in 1..d : FSgn(L[i][a][a]) > 0 /\ \A b \in (a + 1)..d : L[i][a][b] = FZero
                     /\ \A a, b \in 1..d :
                          LET terms == [e \in 1..d |-> FMul(L[i][a][e], L[i][b][e])]
                          IN  Close(FSum(terms), S[i][a][b], FAdd(FSumAbs(terms), FAbs(S[i][a][b])), 64)>> >>
BinghamDomain(r) ==
  LET rows == LastAxisRows(DField(r, "bingham_eigenvalues").t)
  IN << <<"bingham_max_is_zero", \A i \in 1..Len(rows) : FMaxSeq(rows[i]) = FZero>>,
        <<"bingham_nonpositive", \A i \in 1..Len(rows) : \A j \in 1..Len(rows[i]) : FLe(rows[i][j], FZero)>>,
        <<"bingham_ge_minus_max_concentration", \A i \in 1..Len(rows) : \A j \in 1..Len(rows[i]) : FLe(FNeg(r.kmax), rows[i][j])>> >>
DomainChecks(r) ==
  IF r.exc # "" THEN << <<"raises", r.exc_explicit>> >>
  ELSE IF ~(\A i \in 1..Len(r.fields) : FieldFinite(r.fields[i])) THEN << <<"finite", FALSE>> >>
  ELSE WeightDomain(r)
       \o (IF DHas(r, "cacg_eigenvalues") THEN CacgDomain(r) ELSE <<>>)
       \o (IF DHas(r, "watson_mode") THEN WatsonDomain(r) ELSE <<>>)
       \o (IF DHas(r, "vmf_mean") THEN VmfDomain(r) ELSE <<>>)
       \o (IF DHas(r, "gaussian_mean") THEN GaussDomain(r) ELSE <<>>)
       \o (IF DHas(r, "bingham_eigenvalues") THEN BinghamDomain(r) ELSE <<>>)
\* non-trivial: a guard was active (an eigenvalue at its floor, a concentration at a bound) or degenerate data
DomainNT(r) ==
  /\ r.exc = "" /\ \A i \in 1..Len(r.fields) : FieldFinite(r.fields[i])
  /\ \/ r.degenerate
     \/ (DHas(r, "cacg_eigenvalues") /\ \E x \in {DField(r, "cacg_eigenvalues").t.data[i] : i \in 1..Len(DField(r, "cacg_eigenvalues").t.data)} : x = r.floor)
     \/ (DHas(r, "watson_concentration") /\ \E i \in 1..Len(DField(r, "watson_concentration").t.data) :
            DField(r, "watson_concentration").t.data[i] \in {FZero, r.kmax})
     \/ (DHas(r, "vmf_concentration") /\ \E i \in 1..Len(DField(r, "vmf_concentration").t.data) :
            DField(r, "vmf_concentration").t.data[i] \in {r.kmin, r.kmax})

(* ---- mstep : the M-step returns the documented weighted estimators (C08) ---- *)
\* r.full = (..L, K, N); r.aff, r.sal (has_sal), r.qf (has_qf) flat Flt; r.z flat (..L, N, D) complex or real
\* observations (already on the unit sphere for directional models); r.fields raw parameters; r.mkind
MS == 256
GammaS(r, ld, k, n) == LET ix == ld \o <<k, n>>
                      IN  FMul(Get(r.aff, ix), IF r.has_sal THEN Get(r.sal, ld \o <<n>>) ELSE FOne)
ZAt(r, ld, n, d) == LET v == Get(r.z, ld \o <<n, d>>) IN IF r.zcplx THEN v ELSE <<v, FZero>>
LeadIdx(r) == AllIdx(SubSeq(r.full, 1, Len(r.full) - 2))
KOf(r) == r.full[Len(r.full) - 1]
NOf(r) == r.full[Len(r.full)]
DOf(r) == r.z.shape[Len(r.z.shape)]
Mass(r, ld, k) == FSum([n \in 1..NOf(r) |-> GammaS(r, ld, k, n - 1)])
\* weighted scatter  sum_n g_n c_n z_n z_n^H  (c_n an extra per-observation factor), entry (a, b) -> <<value, scale>>
ScatterS(r, ld, k, a, b, C(_)) ==
  FoldLeft(LAMBDA acc, n : LET t == ZScale(FMul(GammaS(r, ld, k, n - 1), C(n - 1)), ZMul(ZAt(r, ld, n - 1, a), ZConj(ZAt(r, ld, n - 1, b))))
                           IN  <<ZAdd(acc[1], t), FAdd(acc[2], ZL1(t))>>,
           <<ZZero, FZero>>, [n \in 1..NOf(r) |-> n])
FieldAt(r, name, idx) == Get(Field(r.fields, name).t, idx)
\* proportional matrices: A_ab tr(B) = B_ab tr(A)
Proportional(Aab(_, _), Bab(_, _), D, slack) ==
  LET trA == ZSum([d \in 1..D |-> Aab(d - 1, d - 1)[1]]) trB == ZSum([d \in 1..D |-> Bab(d - 1, d - 1)[1]])
      scA == FSum([d \in 1..D |-> Aab(d - 1, d - 1)[2]]) scB == FSum([d \in 1..D |-> Bab(d - 1, d - 1)[2]])
  IN  \A a, b \in 0..(D - 1) :
        ZClose(ZMul(Aab(a, b)[1], trB), ZMul(Bab(a, b)[1], trA),
               FAdd(FMul(scA, scB), FAdd(FMul(Aab(a, b)[2], scB), FMul(Bab(a, b)[2], scA))), slack)
\* covariance U diag(lambda) U^H of a stored eigendecomposition at (ld, k) -> <<value, scale>>
EigCov(r, uname, lname, ld, k, a, b) ==
  LET D == DOf(r)
  IN  FoldLeft(LAMBDA acc, e : LET t == ZScale(FieldAt(r, lname, ld \o <<k, e - 1>>),
                                             ZMul(FieldAt(r, uname, ld \o <<k, a, e - 1>>), ZConj(FieldAt(r, uname, ld \o <<k, b, e - 1>>))))
                               IN  <<ZAdd(acc[1], t), FAdd(acc[2], ZL1(t))>>,
               <<ZZero, FZero>>, [e \in 1..D |-> e])
\* cACG (Tyler step with the documented normalisation and flooring): with S = sum_n g_n z_n z_n^H / q_n, every stored
\* eigenvector u_e satisfies S u_e = ray_e u_e (ray_e = u_e^H S u_e), and the stored eigenvalues are
\*    'eigenvalue' : max(ray_e / ray_max, floor)
\*    'trace'      : max(ray_e, floor ray_max) / tr S            (unit trace before flooring, RELATIVE floor)
\*    none         : D max(ray_e, floor ray_max) / mass          (RELATIVE floor)
CacgMStep(r) ==
  \A i \in 1..Len(LeadIdx(r)) : \A k \in 0..(KOf(r) - 1) :
     LET ld == LeadIdx(r)[i] D == DOf(r)
         invq(n) == FDiv(FOne, IF r.has_qf THEN Get(r.qf, ld \o <<k, n>>) ELSE FOne)
         S(a, b) == ScatterS(r, ld, k, a, b, invq)
         u(a, e) == FieldAt(r, "cacg_eigenvectors", ld \o <<k, a, e>>)
         lam(e) == FieldAt(r, "cacg_eigenvalues", ld \o <<k, e>>)
         Su(a, e) == LET terms == [b \in 1..D |-> ZMul(S(a, b - 1)[1], u(b - 1, e))]
                         scs == [b \in 1..D |-> FMul(S(a, b - 1)[2], ZL1(u(b - 1, e)))]
                     IN  <<ZSum(terms), FSum(scs)>>
         ray(e) == ZSum([a \in 1..D |-> ZMul(ZConj(u(a - 1, e)), Su(a - 1, e)[1])])[1]
         rays == [e \in 1..D |-> ray(e - 1)]
         raymax == FMaxSeq(rays)
         trS == FSum(rays)
         sc == FSum([a \in 1..D |-> S(a - 1, a - 1)[2]])           \* sum of |terms| on the diagonal: error scale of every ray
         tgt(e) == LET f == FMul(r.floor, raymax) IN IF FLt(ray(e), f) THEN f ELSE ray(e)
         mass == Mass(r, ld, k)
     IN  (mass # FZero /\ FSgn(raymax) > 0) =>
           /\ Proportional(LAMBDA a, b : S(a, b),
                           LAMBDA a, b : EigCov(r, "cacg_eigenvectors", "cacg_eigenvalues", ld, k, a, b), D, MS)
              \/ \E e \in 0..(D - 1) : FLt(ray(e), FMul(FMul(r.floor, raymax), FInt(2)))      \* flooring active: see below
           /\ \A e \in 0..(D - 1) : \A a \in 0..(D - 1) :
                 ZClose(Su(a, e)[1], ZScale(ray(e), u(a, e)), FAdd(Su(a, e)[2], FMul(FAbs(ray(e)), ZL1(u(a, e)))), MS)
           /\ \A e \in 0..(D - 1) :
                 CASE r.norm = "eigenvalue" -> Close(FMul(lam(e), raymax), tgt(e), FAdd(sc, FMul(lam(e), raymax)), MS)
                   [] r.norm = "trace" -> Close(FMul(lam(e), trS), tgt(e), FAdd(sc, FMul(lam(e), trS)), MS)
                   [] OTHER -> Close(FMul(lam(e), mass), FMul(FInt(D), tgt(e)), FAdd(FMul(FInt(D), sc), FMul(lam(e), mass)), MS)
\* Watson: mode is an eigenvector of the weighted scatter S with eigenvalue ell = w^H S w / mass, maximal on probes;
\* r.watson_ratio[i] (kernel table from mpmath) = hypergeometric ratio at the returned concentration
WatsonMStep(r) ==
  \A i \in 1..Len(LeadIdx(r)) : \A k \in 0..(KOf(r) - 1) :
     LET ld == LeadIdx(r)[i] D == DOf(r)
         one(n) == FOne
         S(a, b) == ScatterS(r, ld, k, a, b, one)
         w(a) == FieldAt(r, "watson_mode", ld \o <<k, a>>)
         Sw(a) == LET terms == [b \in 1..D |-> ZMul(S(a, b - 1)[1], w(b - 1))]
                      scs == [b \in 1..D |-> FMul(S(a, b - 1)[2], ZL1(w(b - 1)))]
                  IN  <<ZSum(terms), FSum(scs)>>
         ell == LET terms == [a \in 1..D |-> ZMul(ZConj(w(a - 1)), Sw(a - 1)[1])] IN ZSum(terms)[1]   \* w^H S w (real)
         mass == Mass(r, ld, k)
         kap == FieldAt(r, "watson_concentration", ld \o <<k>>)
         ratio == r.watson_ratio[(i - 1) * KOf(r) + k + 1]
     IN  mass # FZero =>
           \* eigenvector: S w = ell w   (|w| = 1)
           /\ \A a \in 0..(D - 1) : ZClose(Sw(a)[1], ZScale(ell, w(a)), FAdd(Sw(a)[2], FMul(FAbs(ell), ZL1(w(a)))), MS)
           \* top eigenvalue: ell >= every diagonal entry of S (Rayleigh quotient of the coordinate vectors)
           /\ \A a \in 0..(D - 1) : FLe(S(a, a)[1][1], FAdd(ell, FMul(FNorm(MS, -19), S(a, a)[2])))
           \* concentration: ratio(kappa) = ell / mass unless clipped (0 below 1/D, kmax above)
           /\ FLe(FZero, kap) /\ FLe(kap, r.kmax)
           /\ \/ (kap = FZero /\ FLe(FMul(ell, FInt(D)), FMul(mass, FAdd(FOne, FNorm(4096, -19)))))
              \/ kap = r.kmax
              \/ Close(FMul(ratio, mass), ell, FAdd(mass, ell), 4096)
\* complex circularly symmetric Gaussian: covariance = sum_n g_n y_n y_n^H / sum_n g_n  (weighted outer-product mean)
CGaussMStep(r) ==
  \A i \in 1..Len(LeadIdx(r)) : \A k \in 0..(KOf(r) - 1) :
     LET ld == LeadIdx(r)[i] D == DOf(r)
         one(n) == FOne
         S(a, b) == ScatterS(r, ld, k, a, b, one)
         mass == Mass(r, ld, k)
     IN  mass # FZero =>
           \A a, b \in 0..(D - 1) :
              LET c == FieldAt(r, "cgauss_covariance", ld \o <<k, a, b>>)
              IN  ZClose(ZScale(mass, c), S(a, b)[1], FAdd(S(a, b)[2], FMul(mass, ZL1(c))), MS)
\* Bingham: every column v_e of the stored eigenvector matrix is an eigenvector of the weighted scatter S / mass with
\* eigenvalue s_e = v_e^H S v_e / mass (ascending), and the concentration eigenvalues solve
\*    d log c(lambda) / d lambda_e = s_e
\* (r.bingham_grad: kernel table from mpmath, the left-hand side at the returned eigenvalues r.bingham_lambda, which TLC
\* checks to be the model's own eigenvalue field), unless the solver's box (max_concentration, duplicate spreading) is active
BinghamMStep(r) ==
  \A i \in 1..Len(LeadIdx(r)) : \A k \in 0..(KOf(r) - 1) :
     LET ld == LeadIdx(r)[i] D == DOf(r)
         one(n) == FOne
         S(a, b) == ScatterS(r, ld, k, a, b, one)
         v(a, e) == FieldAt(r, "cacg_eigenvectors", ld \o <<k, a, e>>)
         Sv(a, e) == LET terms == [b \in 1..D |-> ZMul(S(a, b - 1)[1], v(b - 1, e))]
                         scs == [b \in 1..D |-> FMul(S(a, b - 1)[2], ZL1(v(b - 1, e)))]
                     IN  <<ZSum(terms), FSum(scs)>>
         ray(e) == ZSum([a \in 1..D |-> ZMul(ZConj(v(a - 1, e)), Sv(a - 1, e)[1])])[1]     \* v_e^H S v_e (real)
         mass == Mass(r, ld, k)
         lam(e) == FieldAt(r, "bingham_eigenvalues", ld \o <<k, e>>)
         base == ((i - 1) * KOf(r) + k) * D
         grad(e) == r.bingham_grad[base + e + 1]
         inner == FMul(r.kmax, FSub(FOne, FNorm(1, -8)))      \* strictly inside the solver's box on the eigenvalue gaps
         free == /\ FLt(FNeg(inner), lam(0))                 \* ... and no eigenvalue clipped at -max_concentration
                 /\ \A e \in 1..(D - 1) : /\ FLt(FAdd(lam(e - 1), FNorm(1, -6)), lam(e))
                                          /\ FLt(FSub(lam(e), lam(e - 1)), inner)
     IN  mass # FZero =>
           /\ \A e \in 0..(D - 1) : r.bingham_lambda[base + e + 1] = lam(e)
           \* clipped to the allowed range: 0 >= lambda_e >= -max_concentration (up to the duplicate spreading eps)
           /\ \A e \in 0..(D - 1) : FLe(FNeg(FMul(r.kmax, FAdd(FOne, FNorm(1, -10)))), lam(e)) /\ FLe(lam(e), FNorm(1, -20))
           /\ \A e \in 0..(D - 1) : \A a \in 0..(D - 1) :
                 ZClose(Sv(a, e)[1], ZScale(ray(e), v(a, e)), FAdd(Sv(a, e)[2], FMul(FAbs(ray(e)), ZL1(v(a, e)))), MS)
           /\ \A e, g \in 0..(D - 1) :                    \* orthonormal columns
                 LET d == ZDotS([a \in 1..D |-> v(a - 1, e)], [a \in 1..D |-> v(a - 1, g)])
                 IN  ZClose(d[1], IF e = g THEN <<FOne, FZero>> ELSE ZZero, FAdd(d[2], FOne), MS)
           /\ \A e \in 1..(D - 1) : FLe(ray(e - 1), FAdd(ray(e), FMul(FNorm(MS, -19), mass)))   \* ascending
           /\ free => \A e \in 0..(D - 1) : Close(FMul(grad(e), mass), ray(e), mass, 4 * MS)
\* vMF: mean || resultant r = sum g x, unit; kappa^2 (1 - rb2)^2 = rb2 (D - rb2)^2 with rb2 = |r|^2 / mass^2, clipped
VmfMStep(r) ==
  \A i \in 1..Len(LeadIdx(r)) : \A k \in 0..(KOf(r) - 1) :
     LET ld == LeadIdx(r)[i] D == DOf(r)
         res(a) == FoldLeft(LAMBDA acc, n : LET t == FMul(GammaS(r, ld, k, n - 1), ZAt(r, ld, n - 1, a)[1])
                                            IN  <<FAdd(acc[1], t), FAdd(acc[2], FAbs(t))>>, <<FZero, FZero>>, [n \in 1..NOf(r) |-> n])
         mu(a) == FieldAt(r, "vmf_mean", ld \o <<k, a>>)
         mass == Mass(r, ld, k)
         n2 == FSum([a \in 1..D |-> FSq(res(a - 1)[1])])
         rb2 == FDiv(n2, FSq(mass))
         kap == FieldAt(r, "vmf_concentration", ld \o <<k>>)
     IN  (mass # FZero /\ n2 # FZero) =>
           /\ \A a, b \in 0..(D - 1) : Close(FMul(res(a)[1], mu(b)), FMul(res(b)[1], mu(a)),
                                             FAdd(FMul(res(a)[2], FAbs(mu(b))), FMul(res(b)[2], FAbs(mu(a)))), MS)
           /\ FLe(FZero, FSum([a \in 1..D |-> FMul(res(a - 1)[1], mu(a - 1))]))
           /\ \/ kap = r.kmin \/ kap = r.kmax
              \/ CloseRel(FMul(FSq(kap), FSq(FSub(FOne, rb2))), FMul(rb2, FSq(FSub(FInt(D), rb2))), 4096)
\* Gaussian: weighted mean and pooled scatter (full / diagonal / spherical)
GaussMStep(r) ==
  \A i \in 1..Len(r.glead) : \A k \in 0..(KOf(r) - 1) :
     LET ld == r.glead[i] D == DOf(r)
         mass == Mass(r, ld, k)
         m(a) == FieldAt(r, "gaussian_mean", (IF r.gshared THEN <<>> ELSE ld) \o <<k, a>>)
         msum(a) == FoldLeft(LAMBDA acc, n : LET t == FMul(GammaS(r, ld, k, n - 1), ZAt(r, ld, n - 1, a)[1])
                                             IN  <<FAdd(acc[1], t), FAdd(acc[2], FAbs(t))>>, <<FZero, FZero>>, [n \in 1..NOf(r) |-> n])
         cov(a, b) == FoldLeft(LAMBDA acc, n : LET t == FMul(GammaS(r, ld, k, n - 1),
                                                            FMul(FSub(ZAt(r, ld, n - 1, a)[1], m(a)), FSub(ZAt(r, ld, n - 1, b)[1], m(b))))
                                                IN  <<FAdd(acc[1], t), FAdd(acc[2], FAbs(t))>>, <<FZero, FZero>>, [n \in 1..NOf(r) |-> n])
         pre == (IF r.gshared THEN <<>> ELSE ld)
     IN  mass # FZero =>
           /\ \A a \in 0..(D - 1) : Close(FMul(m(a), mass), msum(a)[1], FAdd(msum(a)[2], FMul(FAbs(m(a)), mass)), MS)
           /\ CASE r.gtype = "full" -> \A a, b \in 0..(D - 1) :
                     LET c == FieldAt(r, "gaussian_covariance_full", pre \o <<k, a, b>>)
                     IN  Close(FMul(c, mass), cov(a, b)[1], FAdd(cov(a, b)[2], FMul(FAbs(c), mass)), MS)
                [] r.gtype = "diagonal" -> \A a \in 0..(D - 1) :
                     LET c == FieldAt(r, "gaussian_covariance_diagonal", pre \o <<k, a>>)
                     IN  Close(FMul(c, mass), cov(a, a)[1], FAdd(cov(a, a)[2], FMul(FAbs(c), mass)), MS)
                [] r.gtype = "spherical" ->
                     LET c == FieldAt(r, "gaussian_covariance_spherical", pre \o <<k>>)
                         tot == FSum([a \in 1..D |-> cov(a - 1, a - 1)[1]])
                     IN  Close(FMul(FMul(c, mass), FInt(D)), tot, FAdd(tot, FMul(FMul(FAbs(c), mass), FInt(D))), MS)

\* integration models: the spectral stream (Gaussian / vMF over the embeddings r.emb (F, N, E)) is pooled over ALL
\* leading indices: one parameter set per class, no leading axis
EmbAt(r, ld, n, a) == Get(r.emb, ld \o <<n, a>>)
EDim(r) == r.emb.shape[Len(r.emb.shape)]
PoolSum(r, k, T(_, _)) ==      \* sum over (lead, n) of gamma * T(lead, n) -> <<value, scale>>
  FoldLeft(LAMBDA acc, i :
     FoldLeft(LAMBDA a2, n : LET t == FMul(GammaS(r, LeadIdx(r)[i], k, n - 1), T(LeadIdx(r)[i], n - 1))
                             IN  <<FAdd(a2[1], t), FAdd(a2[2], FAbs(t))>>, acc, [n \in 1..NOf(r) |-> n]),
     <<FZero, FZero>>, [i \in 1..Len(LeadIdx(r)) |-> i])
PooledGauss(r) ==
  \A k \in 0..(KOf(r) - 1) :
     LET E == EDim(r)
         mass == PoolSum(r, k, LAMBDA ld, n : FOne)[1]
         m(a) == FieldAt(r, "gaussian_mean", <<k, a>>)
         ms(a) == PoolSum(r, k, LAMBDA ld, n : EmbAt(r, ld, n, a))
         cv(a, b) == PoolSum(r, k, LAMBDA ld, n : FMul(FSub(EmbAt(r, ld, n, a), m(a)), FSub(EmbAt(r, ld, n, b), m(b))))
     IN  mass # FZero =>
           /\ \A a \in 0..(E - 1) : Close(FMul(m(a), mass), ms(a)[1], FAdd(ms(a)[2], FMul(FAbs(m(a)), mass)), MS)
           /\ CASE r.gtype = "full" -> \A a, b \in 0..(E - 1) :
                     LET c == FieldAt(r, "gaussian_covariance_full", <<k, a, b>>)
                     IN  Close(FMul(c, mass), cv(a, b)[1], FAdd(cv(a, b)[2], FMul(FAbs(c), mass)), MS)
                [] r.gtype = "diagonal" -> \A a \in 0..(E - 1) :
                     LET c == FieldAt(r, "gaussian_covariance_diagonal", <<k, a>>)
                     IN  Close(FMul(c, mass), cv(a, a)[1], FAdd(cv(a, a)[2], FMul(FAbs(c), mass)), MS)
                [] r.gtype = "spherical" ->
                     LET c == FieldAt(r, "gaussian_covariance_spherical", <<k>>)
                         tot == FSum([a \in 1..E |-> cv(a - 1, a - 1)[1]])
                     IN  Close(FMul(FMul(c, mass), FInt(E)), tot, FAdd(tot, FMul(FMul(FAbs(c), mass), FInt(E))), MS)
PooledVmf(r) ==
  \A k \in 0..(KOf(r) - 1) :
     LET E == EDim(r)
         mass == PoolSum(r, k, LAMBDA ld, n : FOne)[1]
         res(a) == PoolSum(r, k, LAMBDA ld, n : EmbAt(r, ld, n, a))
         mu(a) == FieldAt(r, "vmf_mean", <<k, a>>)
         n2 == FSum([a \in 1..E |-> FSq(res(a - 1)[1])])
         rb2 == FDiv(n2, FSq(mass))
         kap == FieldAt(r, "vmf_concentration", <<k>>)
     IN  (mass # FZero /\ n2 # FZero) =>
           /\ \A a, b \in 0..(E - 1) : Close(FMul(res(a)[1], mu(b)), FMul(res(b)[1], mu(a)),
                                             FAdd(FMul(res(a)[2], FAbs(mu(b))), FMul(res(b)[2], FAbs(mu(a)))), MS)
           /\ \/ kap = r.kmin \/ kap = r.kmax
              \/ CloseRel(FMul(FSq(kap), FSq(FSub(FOne, rb2))), FMul(rb2, FSq(FSub(FInt(E), rb2))), 4096)
\* mixture weights in Flt (same rule as WeightXChecks)
WeightMStep(r) ==
  LET w == Field(r.fields, "weight").t
      fullT == [shape |-> r.full]
      axes == Axes(fullT, r.wca)
      R == Len(r.full) K == KOf(r)
      expW == IF r.integration THEN IntWeightShape(fullT, r.wca) ELSE StdWeightShape(fullT, r.wca, r.wca_int)
  IN IF w.shape # expW THEN FALSE
     ELSE IF (~r.integration /\ ClassTiedInt(fullT, r.wca, r.wca_int)) \/ (r.integration /\ ClassAx(fullT) \in axes)
          THEN \A i \in 1..Len(w.data) : CloseRel(FMul(w.data[i], FInt(K)), FOne, 64)
     ELSE LET kd == KeepdimsShape(r.full, axes)
              oidx == AllIdx(kd)
              usesal == r.has_sal \/ r.always_sal \/ r.integration
              S(o) == LET g == Group(r.full, axes, o)
                      IN  FSum([j \in 1..Len(g) |-> FMul(Get(r.aff, g[j]), IF r.has_sal THEN SalAt(r.sal, g[j]) ELSE FOne)])
              cnt(o) == Len(Group(r.full, axes, o))
              ksize == kd[R - 1]
              norm(o) == FSum([k \in 1..ksize |-> S([o EXCEPT ![R - 1] = k - 1])])
              outAt(o) == IF r.integration THEN w.data[Off(w.shape, SubIdx(o, KeepAxes(R, axes)))] ELSE Get(w, o)
          IN \A i \in 1..Len(oidx) : LET o == oidx[i] IN
               IF usesal THEN (norm(o) = FZero \/ Close(FMul(outAt(o), norm(o)), S(o), FAdd(S(o), norm(o)), MS))
               ELSE Close(FMul(outAt(o), FInt(cnt(o))), S(o), FAdd(S(o), FInt(cnt(o))), MS)
MStepChecks(r) ==
  IF r.exc # "" THEN << <<"raises", FALSE>> >>
  ELSE IF ~(\A i \in 1..Len(r.fields) : FieldFinite(r.fields[i])) THEN << <<"finite", FALSE>> >>
  ELSE << <<"weight", WeightMStep(r)>> >>
       \o (IF r.comp = "cacg" THEN << <<"cacg_tyler_step", CacgMStep(r)>> >> ELSE <<>>)
       \o (IF r.comp = "watson" THEN << <<"watson_estimator", WatsonMStep(r)>> >> ELSE <<>>)
       \o (IF r.comp = "bingham" THEN << <<"bingham_estimator", BinghamMStep(r)>> >> ELSE <<>>)
       \o (IF r.comp = "cgauss" THEN << <<"complex_gaussian_outer_product_mean", CGaussMStep(r)>> >> ELSE <<>>)
       \o (IF r.comp = "vmf" THEN << <<"vmf_estimator", VmfMStep(r)>> >> ELSE <<>>)
       \o (IF r.comp = "gaussian" THEN << <<"gaussian_moments", GaussMStep(r)>> >> ELSE <<>>)
       \o (IF r.pooled = "gaussian" THEN << <<"pooled_gaussian_moments", PooledGauss(r)>> >> ELSE <<>>)
       \o (IF r.pooled = "vmf" THEN << <<"pooled_vmf_estimator", PooledVmf(r)>> >> ELSE <<>>)

(* ---- qform : the quadratic form handed to the next M-step is z^H B_prev^-1 z (C08 alternation) ---- *)
QFormChecks(r) ==
  IF r.exc # "" THEN << <<"raises", FALSE>> >>
  ELSE << <<"quadratic_form",
       \A i \in 1..Len(LeadIdx(r)) : \A k \in 0..(KOf(r) - 1) : \A n \in 0..(NOf(r) - 1) :
          LET ld == LeadIdx(r)[i] D == DOf(r)
              proj(e) == ZSum([a \in 1..D |-> ZMul(ZConj(FieldAt(r, "cacg_eigenvectors", ld \o <<k, a - 1, e>>)), ZAt(r, ld, n, a - 1))])
              terms == [e \in 1..D |-> FDiv(ZAbs2(proj(e - 1)), FieldAt(r, "cacg_eigenvalues", ld \o <<k, e - 1>>))]
          IN  Close(Get(r.qf, ld \o <<k, n>>), FSum(terms), FSumAbs(terms), MS)>> >>

(* ---- loop : the hook event sequence of one fit equals the EMLoop behaviour ---- *)
ExpectedEvents(model_start, n, al) ==
  LET iter(first) == (IF first /\ ~model_start THEN <<>> ELSE (<<"estep">> \o (IF al THEN <<"align">> ELSE <<>>))) \o <<"mstep">>
  IN  FoldLeft(LAMBDA acc, i : acc \o iter(i = 1), <<>>, [i \in 1..n |-> i])
LoopChecks(r) ==
  IF r.exc # "" THEN << <<"raises", FALSE>> >>
  ELSE << <<"event_sequence", r.events = ExpectedEvents(r.model_start, r.iterations, r.aligner)>>,
          <<"iteration_numbers", r.mstep_iterations = [i \in 1..r.iterations |-> i - 1]>> >>

(* ---- fixedpoint : the true partition of separable data is a stable EM fixed point (C03) ---- *)
\* r.truth flat (..L, N) class indices (0-based); r.post flat (..L, K, N) posteriors; r.protos flat (..L, K, D) (complex);
\* r.fields canonical fields of the fitted model; delta = 1/16.  Means / mean directions are weighted averages: after a
\* few iterations from a heavily blurred start they are still pulled towards the other classes (r.strict =
\* iterations >= 5 or blur <= 0.02 marks the records where the closeness of means is claimed)
FPDelta == FPow2(-4)
PAt(r, ld, k, a) == LET v == Get(r.protos, ld \o <<k, a>>) IN IF r.pcplx THEN v ELSE <<v, FZero>>
PNorm2(r, ld, k) == FSum([a \in 1..r.protos.shape[Len(r.protos.shape)] |-> ZAbs2(PAt(r, ld, k, a - 1))])
\* p^H M p for a canonical (..L, K, D, D) field
QuadField(r, name, ld, k) ==
  LET D == r.protos.shape[Len(r.protos.shape)]
      f == Field(r.fields, name)
      pre == IF Len(f.t.shape) = 3 THEN <<>> ELSE ld        \* integration models: no leading axis on the spectral stream
  IN  ZSum([i \in 1..(D * D) |-> LET a == (i - 1) \div D b == (i - 1) % D
                                  IN  ZMul(ZMul(ZConj(PAt(r, ld, k, a)), Get(f.t, pre \o <<k, a, b>>)), PAt(r, ld, k, b))])[1]
ArgMaxClass(r, ld, n) ==
  LET K == KOf(r)
  IN  CHOOSE k \in 0..(K - 1) : \A j \in 0..(K - 1) :
        FLt(Get(r.post, ld \o <<j, n>>), Get(r.post, ld \o <<k, n>>)) \/ (Get(r.post, ld \o <<j, n>>) = Get(r.post, ld \o <<k, n>>) /\ k <= j)
FixedPointChecks(r) ==
  IF r.exc # "" THEN << <<"raises", FALSE>> >>
  ELSE IF ~(\A i \in 1..Len(r.post.data) : IsFlt(r.post.data[i])) \/ ~(\A i \in 1..Len(r.fields) : FieldFinite(r.fields[i]))
       THEN << <<"finite", FALSE>> >>
  ELSE LET leads == LeadIdx(r)
       IN << <<"argmax_is_truth", \A i \in 1..Len(leads) : \A n \in 0..(NOf(r) - 1) :
                  ArgMaxClass(r, leads[i], n) = Get(r.truth, leads[i] \o <<n>>)>> >>
          \o (IF DHas(r, "cacg_covariance") THEN << <<"cacg_principal_direction",
                 \A i \in 1..Len(leads) : \A k \in 0..(KOf(r) - 1) :
                    LET lam == Field(r.fields, "cacg_eigenvalues").t
                        D == lam.shape[Len(lam.shape)]
                        lmax == Get(lam, leads[i] \o <<k, D - 1>>)       \* eigenvalues sorted ascending by the encoder
                    IN  FLe(FMul(FMul(FSub(FOne, FPDelta), lmax), PNorm2(r, leads[i], k)), QuadField(r, "cacg_covariance", leads[i], k))>> >> ELSE <<>>)
          \* (after fewer than 5 iterations from a start blurred beyond 0.45 the mode is still pulled towards the other
          \* prototypes: the direction is claimed from then on, the maximum-posterior class always)
          \o (IF DHas(r, "watson_mode_outer") /\ r.dstrict THEN << <<"watson_mode_direction",
                 \A i \in 1..Len(leads) : \A k \in 0..(KOf(r) - 1) :
                    FLe(FMul(FSub(FOne, FPDelta), PNorm2(r, leads[i], k)), QuadField(r, "watson_mode_outer", leads[i], k))>> >> ELSE <<>>)
          \o (IF DHas(r, "bingham_covariance") THEN << <<"bingham_mode_direction",
                 \A i \in 1..Len(leads) : \A k \in 0..(KOf(r) - 1) :
                    LET lam == Field(r.fields, "bingham_eigenvalues").t
                        lmin == Get(lam, leads[i] \o <<k, 0>>)           \* most negative
                    IN  FLe(FMul(FMul(FPDelta, lmin), PNorm2(r, leads[i], k)), QuadField(r, "bingham_covariance", leads[i], k))>> >> ELSE <<>>)
          \o (IF DHas(r, "vmf_mean") /\ r.mean_kind = "vmf" /\ r.strict THEN << <<"vmf_mean_direction",
                 \A i \in 1..Len(r.mleads) : \A k \in 0..(KOf(r) - 1) :
                    LET f == Field(r.fields, "vmf_mean").t
                        D == f.shape[Len(f.shape)]
                        pre == IF Len(f.shape) = 2 THEN <<>> ELSE r.mleads[i]
                        dot == FSum([a \in 1..D |-> FMul(Get(f, pre \o <<k, a - 1>>), Get(r.mprotos, r.mleads[i] \o <<k, a - 1>>))])
                        pn2 == FSum([a \in 1..D |-> FSq(Get(r.mprotos, r.mleads[i] \o <<k, a - 1>>))])
                    IN  FSgn(dot) > 0 /\ FLe(FMul(FSub(FOne, FPDelta), pn2), FSq(dot))>> >> ELSE <<>>)
          \o (IF DHas(r, "gaussian_mean") /\ r.mean_kind = "gaussian" /\ r.strict THEN << <<"gaussian_mean_close",
                 \A i \in 1..Len(r.mleads) : \A k \in 0..(KOf(r) - 1) :
                    LET f == Field(r.fields, "gaussian_mean").t
                        D == f.shape[Len(f.shape)]
                        pre == IF Len(f.shape) = 2 THEN <<>> ELSE r.mleads[i]
                        d2 == FSum([a \in 1..D |-> FSq(FSub(Get(f, pre \o <<k, a - 1>>), Get(r.mprotos, r.mleads[i] \o <<k, a - 1>>)))])
                        pn2 == FSum([a \in 1..D |-> FSq(Get(r.mprotos, r.mleads[i] \o <<k, a - 1>>))])
                    IN  FLe(d2, FMul(FSq(FPDelta), pn2))>> >> ELSE <<>>)

(* ---- inlinepa : built-in spatial/spectral alignment of the integration models, exact lattice (C14) ---- *)
\* r.ms, r.me : K x T integers (log-pdfs in units of ln 2); r.w : K integers (lattice weights); r.out : K x T rationals
InlinePAChecks(r) ==
  IF r.exc # "" THEN << <<"raises", FALSE>> >>
  ELSE LET Kn == Len(r.ms) Tn == Len(r.ms[1])
       IN IF ~(\A k \in 1..Kn, t \in 1..Tn : IsRatP(r.out[k][t])) THEN << <<"finite_rational", FALSE>> >>
          ELSE << <<"bayes_for_a_best_permutation",
                    \E p \in PermSet(Kn) : /\ IsBest(r.ms, r.me, p)
                                           /\ \A k \in 1..Kn, t \in 1..Tn : REq(r.out[k][t], Post(r.ms, r.me, r.w, p)[k][t])>>,
                  <<"sums_to_one", \A t \in 1..Tn : RSum([k \in 1..Kn |-> r.out[k][t]]) = <<1, 1>>>> >>

\* float problems: r.Q[i] the aligner's criterion sum_n sum_k g_kn lp_kn (g = softmax over classes of lp = spatial_{p_i(k), n} +
\* spectral_{k, n}) of the i-th permutation (first = identity), r.chosen the permutations whose Bayes posterior equals the returned affiliation
InlinePAFChecks(r) ==
  IF r.exc # "" THEN << <<"raises", FALSE>> >>
  ELSE LET tol(x, y) == FMul(FNorm(64, -19), FAdd(FAdd(FAbs(x), FAbs(y)), FOne))
           geq(x, y) == FLe(FSub(y, tol(x, y)), x)
       IN << <<"posterior_of_some_permutation", Len(r.chosen) > 0>>,
             <<"never_worse_than_identity", \E c \in 1..Len(r.chosen) : geq(r.Q[r.chosen[c]], r.Q[1])>>,
             <<"best_permutation", \E c \in 1..Len(r.chosen) : \A i \in 1..Len(r.Q) : geq(r.Q[r.chosen[c]], r.Q[i])>> >>

(* ---- gaussx : weighted Gaussian moments, exact on a lattice with a (possibly huge) common offset (C08) ---- *)
\* x_n = c + u_n with integer u (N x D), weights g_n = r.g[n] / r.gden (integers), saliency folded into g.
\* mean - c = sum g u / sum g ; covariance = sum g (u - m)(u - m)^T / sum g (translation equivariant: the offset must
\* not matter).  r.mean_c : code mean minus offset (rationals), r.cov : rationals (full D x D, diagonal D, spherical 1)
GaussXChecks(r) ==
  IF r.exc # "" THEN << <<"raises", FALSE>> >>
  ELSE LET N == Len(r.u) D == Len(r.u[1])
           G == SumSeq(r.g)
           S1(a) == SumSeq([n \in 1..N |-> r.g[n] * r.u[n][a]])
           S2(a, b) == SumSeq([n \in 1..N |-> r.g[n] * r.u[n][a] * r.u[n][b]])
           \* covariance numerator / denominator: (S2 G - S1 S1) / G^2
           CN(a, b) == S2(a, b) * G - S1(a) * S1(b)
           ok(c, num, den) == IsRatP(c) /\ c[1] * den = c[2] * num
       IN << <<"mean", \A a \in 1..D : ok(r.mean_c[a], S1(a), G)>>,
             <<"covariance",
                 CASE r.gtype = "full" -> \A a, b \in 1..D : ok(r.cov[a][b], CN(a, b), G * G)
                   [] r.gtype = "diagonal" -> \A a \in 1..D : ok(r.cov[a], CN(a, a), G * G)
                   [] r.gtype = "spherical" -> ok(r.cov[1], SumSeq([a \in 1..D |-> CN(a, a)]), G * G * D)>> >>

Checks(r) == CASE r.kind = "bayesx" -> BayesXChecks(r) [] r.kind = "posterior" -> PostChecks(r)
               [] r.kind = "init" -> InitChecks(r) [] r.kind = "flag" -> FlagChecks(r)
               [] r.kind = "weightx" -> WeightXChecks(r)
               [] r.kind = "twin" -> TwinChecks(r) [] r.kind = "inlinepaf" -> InlinePAFChecks(r)
               [] r.kind = "domain" -> DomainChecks(r)
               [] r.kind = "mstep" -> MStepChecks(r) [] r.kind = "qform" -> QFormChecks(r) [] r.kind = "loop" -> LoopChecks(r)
               [] r.kind = "fixedpoint" -> FixedPointChecks(r)
               [] r.kind = "inlinepa" -> InlinePAChecks(r)
               [] r.kind = "gaussx" -> GaussXChecks(r)
NT(r) == CASE r.kind = "posterior" -> PostNT(r)
           [] r.kind = "bayesx" -> r.exc = "" /\ Len(r.w) >= 2
           [] r.kind = "twin" -> TwinNT(r)
           [] r.kind = "domain" -> DomainNT(r)
           [] r.kind = "mstep" -> r.exc = "" /\ KOf(r) >= 2 /\ r.has_sal
           [] r.kind = "loop" -> r.exc = "" /\ r.iterations >= 2
           [] r.kind = "fixedpoint" -> r.exc = "" /\ KOf(r) >= 2
           [] r.kind = "inlinepa" -> r.exc = "" /\ ~IsBest(r.ms, r.me, IdPerm(Len(r.ms)))
           [] OTHER -> r.exc = ""
Init == l = 1 /\ verdicts = <<>>
Next == /\ l <= Len(Trace)
        /\ LET r == Trace[l] IN
             verdicts' = Append(verdicts, Verdict(r.id, FailedOf(Checks(r)), NT(r), ""))
        /\ l' = l + 1
Spec == Init /\ [][Next]_vars
FlushInv == Flush(l, verdicts)
=============================================================================
