-------------------------------- MODULE Trace_MM -------------------------------
(***************************************************************************)
(* Trace specification for the mixture models: posteriors (C01), mixture   *)
(* weights (C08/C09), initializers (C01).                                  *)
(***************************************************************************)
EXTENDS Posterior, Weights, Model, TraceKit
VARIABLES l, verdicts
vars == <<l, verdicts>>
SL == 64

IsRatP(c) == Len(c) = 2 /\ c[2] > 0
AllData(f, P(_)) == \A i \in 1..Len(f.data) : P(f.data[i])

(* ---- bayesx : log_pdf_to_affiliation on a lattice problem, exact ---- *)
\* r.w, r.lik : K x N integers; r.sam : K x N BOOLEAN (r.has_sam); r.eps : <<p, q>>; r.out : K x N rationals
BayesXChecks(r) ==
  IF r.exc # "" THEN << <<"raises", FALSE>> >>
  ELSE LET K == Len(r.w) N == Len(r.w[1])
           sam == IF r.has_sam THEN r.sam ELSE [k \in 1..K |-> [n \in 1..N |-> TRUE]]
           g == BayesR(r.w, r.lik, sam, r.eps)
       IN IF ~(\A k \in 1..K, n \in 1..N : IsRatP(r.out[k][n])) THEN << <<"finite_rational", FALSE>> >>
          ELSE << <<"bayes", \A k \in 1..K, n \in 1..N : REq(r.out[k][n], g[k][n])>>,
                  <<"zero_inactive", \A k \in 1..K, n \in 1..N : (r.eps[1] = 0 /\ ~sam[k][n]) => r.out[k][n][1] = 0>> >>

(* ---- posterior : predict / fit_predict / E-step of a model (Flt) ---- *)
\* r.aff, r.lik, r.w (stored weight), r.sam ("none" or flat BOOLEAN), r.eps (Flt), r.zero (flat BOOLEAN: exact zeros)
\* r.full = documented shape (..L, K, N); r.wshape_expected computed here from the schema
PostChecks(r) ==
  IF r.exc # "" THEN << <<"raises", r.exc_explicit>> >>
  ELSE IF r.aff.shape # r.full THEN << <<"shape", FALSE>> >>
  ELSE IF ~AllData(r.aff, IsFlt) THEN << <<"finite", FALSE>> >>
  ELSE LET R == Len(r.full) K == r.full[R - 1] N == r.full[R]
           cols == AllIdx(RemIdx(r.full, R - 2))            \* indices (..l, n)
           idx(c, k) == InsAt(c, R - 2, k)
           active(c, k) == IF r.has_sam THEN Get(r.sam, idx(c, k)) ELSE TRUE
           fullT == [shape |-> r.full]
           \* integration models store the weight squeezed over the tied axes; the E-step re-expands it
           W == IF r.integration THEN [shape |-> KeepdimsShape(r.full, Axes(fullT, r.wca)), data |-> r.w.data] ELSE r.w
           expW == IF r.integration THEN IntWeightShape(fullT, r.wca) ELSE StdWeightShape(fullT, r.wca, r.wca_int)
           term(c, k) == IF active(c, k) THEN FMul(Get(W, idx(c, k)), Get(r.lik, idx(c, k))) ELSE FZero
           Z(c) == FSum([k \in 1..K |-> term(c, k - 1)])
           a(c, k) == Get(r.aff, idx(c, k))
           colsum(c) == FSum([k \in 1..K |-> a(c, k - 1)])
           clip(x) == IF r.eps = FZero THEN x ELSE FMax(r.eps, FMin(FSub(FOne, r.eps), x))
       IN IF r.w.shape # expW \/ ~AllData(r.w, IsFlt) \/ ~AllData(r.lik, IsFlt) THEN << <<"weight_shape", r.w.shape = expW>>, <<"finite_inputs", AllData(r.w, IsFlt) /\ AllData(r.lik, IsFlt)>> >>
          ELSE
          << <<"range", AllData(r.aff, LAMBDA x : FLe(FZero, x) /\ FLe(x, FOne))>>,
             <<"sum_one", \A i \in 1..Len(cols) : LET c == cols[i] IN
                  \* premise of the property: some active class has non-zero mass at this observation
                  IF \E k \in 0..(K - 1) : active(c, k) /\ term(c, k) # FZero
                  THEN Close(colsum(c), FOne, FAdd(FOne, FMul(FInt(K), FMul(FInt(2 ^ 19), r.eps))), SL)
                  ELSE (\A k \in 0..(K - 1) : ~active(c, k)) => \A k \in 0..(K - 1) : a(c, k) = FZero \/ r.eps # FZero>>,
             <<"zero_inactive", \A i \in 1..Len(cols) : \A k \in 0..(K - 1) :
                  (~active(cols[i], k) /\ r.eps = FZero) => a(cols[i], k) = FZero>>,
             <<"bayes", \A i \in 1..Len(cols) : LET c == cols[i] z == Z(c) IN
                  z # FZero => \A k \in 0..(K - 1) :
                     Close(a(c, k), clip(FDiv(term(c, k), z)), FOne, SL)>> >>
\* non-trivial: K >= 2 and some observation with >= 2 classes in (0.01, 0.99)
PostNT(r) ==
  /\ r.exc = "" /\ r.aff.shape = r.full /\ AllData(r.aff, IsFlt)
  /\ LET R == Len(r.full) K == r.full[R - 1]
         cols == AllIdx(RemIdx(r.full, R - 2))
         mid(x) == FLt(<<P19 + 10486, -26>>, x) /\ FLt(x, FSub(FOne, <<P19 + 10486, -26>>))   \* ~0.01
     IN  K >= 2 /\ \E i \in 1..Len(cols) :
            Cardinality({k \in 0..(K - 1) : mid(Get(r.aff, InsAt(cols[i], R - 2, k)))}) >= 2

(* ---- init : initializer outputs ---- *)
InitChecks(r) ==
  IF r.exc # "" THEN << <<"raises", FALSE>> >>
  ELSE IF r.aff.shape # r.full THEN << <<"shape", FALSE>> >>
  ELSE IF ~AllData(r.aff, IsFlt) THEN << <<"finite", FALSE>> >>
  ELSE LET R == Len(r.full) K == r.full[R - 1]
           cols == AllIdx(RemIdx(r.full, R - 2))
           a(c, k) == Get(r.aff, InsAt(c, R - 2, k))
       IN << <<"range", AllData(r.aff, LAMBDA x : FLe(FZero, x) /\ FLe(x, FOne))>>,
             <<"sum_one", \A i \in 1..Len(cols) : Close(FSum([k \in 1..K |-> a(cols[i], k - 1)]), FOne, FOne, SL)>>,
             <<"one_hot", r.one_hot => AllData(r.aff, LAMBDA x : x = FZero \/ x = FOne)>> >>

(* ---- flag : deterministic flag initializer, exact ---- *)
\* r.N, r.K, r.minimum <<p, q>>, r.out : K x N rationals (one leading index per record list r.outs)
FlagChecks(r) ==
  IF r.exc # "" THEN << <<"raises", FALSE>> >>
  ELSE LET K == r.K N == r.N
           assigned(n) == ((n - 1) * K) \div N + 1        \* floor(i K / N), 0-based i = n-1
           rem == RSub(<<1, 1>>, RMul(<<K - 1, 1>>, r.minimum))
       IN << <<"shape", \A i \in 1..Len(r.outs) : Len(r.outs[i]) = K /\ \A k \in 1..K : Len(r.outs[i][k]) = N>>,
             <<"exact", \A i \in 1..Len(r.outs) : \A k \in 1..K, n \in 1..N :
                  /\ IsRatP(r.outs[i][k][n])
                  /\ REq(r.outs[i][k][n], IF k = assigned(n) THEN rem ELSE r.minimum)>> >>

(* ---- weightx : estimate_mixture_weight on lattice affiliations, exact ---- *)
\* r.aff : flat integers (units 1/r.affden), r.sal : flat integers or has_sal = FALSE, r.out flat rationals
WeightXChecks(r) ==
  IF r.exc # "" THEN << <<"raises", FALSE>> >>
  ELSE LET axes == Axes(r.aff, r.wca)
           expshape == IF r.integration THEN IntWeightShape(r.aff, r.wca) ELSE StdWeightShape(r.aff, r.wca, r.wca_int)
           R == Rank(r.aff) K == r.aff.shape[R - 1]
       IN IF r.out.shape # expshape THEN << <<"shape", FALSE>> >>
          ELSE IF ~AllData(r.out, IsRatP) THEN << <<"finite_rational", FALSE>> >>
          ELSE IF (~r.integration /\ ClassTiedInt(r.aff, r.wca, r.wca_int)) \/ (r.integration /\ ClassAx(r.aff) \in axes)
               THEN << <<"uniform", AllData(r.out, LAMBDA x : REq(x, <<1, K>>))>> >>
          ELSE LET kd == KeepdimsShape(r.aff.shape, axes)
                   oidx == AllIdx(kd)
                   S(o) == LET g == Group(r.aff.shape, axes, o)
                           IN  SumSeq([j \in 1..Len(g) |-> Get(r.aff, g[j]) * (IF r.has_sal THEN SalAt(r.sal, g[j]) ELSE 1)])
                   cnt(o) == Len(Group(r.aff.shape, axes, o))
                   ksize == kd[R - 1]
                   norm(o) == SumSeq([k \in 1..ksize |-> S([o EXCEPT ![R - 1] = k - 1])])
                   \* value of the code's (possibly squeezed) output at keepdims index o
                   outAt(o) == IF r.integration THEN r.out.data[Off(r.out.shape, SubIdx(o, KeepAxes(R, axes)))]
                               ELSE Get(r.out, o)
               IN << <<"value", \A i \in 1..Len(oidx) : LET o == oidx[i] IN
                          IF r.has_sal \/ r.integration
                          THEN (IF norm(o) = 0 THEN (r.integration \/ outAt(o)[1] = 0)
                                ELSE outAt(o)[1] * norm(o) = outAt(o)[2] * S(o))
                          ELSE outAt(o)[1] * (cnt(o) * r.affden) = outAt(o)[2] * S(o)>> >>

(* ---- twin : two models that must be related (C04 same, C05 class permutation, C06 slice, C20 split) ---- *)
\* r.rel in {"same", "perm", "slice"}; r.A, r.B : models; r.pi (perm), r.lead (slice); r.slack
TwinChecks(r) ==
  IF r.exc # "" THEN << <<r.exc_clause, FALSE>> >>
  ELSE IF Names(r.A) # Names(r.B) THEN << <<"fields", FALSE>> >>
  ELSE IF ~(\A i \in 1..Len(r.A) : FieldFinite(r.A[i])) \/ ~(\A i \in 1..Len(r.B) : FieldFinite(r.B[i]))
       THEN << <<"finite", FALSE>> >>
  ELSE [i \in 1..Len(r.A) |->
         LET fa == r.A[i] fb == Field(r.B, fa.name)
             cax == FieldClassAx(fa, r.integration, r.wca)
         IN  <<fa.name,
               CASE r.rel = "same" -> SameField(fa, fb, r.slack)
                 [] r.rel = "perm" -> PermField(fa, fb, cax, r.pi, r.slack)
                 [] r.rel = "slice" -> SliceField(fa, fb, r.lead, r.slack)>>]
\* non-trivial: perm: pi not the identity and the classes differ; slice: >= 2 differing slices (driver flag
\* cross-checked: the compared field has > 1 element); same: the transformation was non-trivial (driver)
TwinNT(r) == /\ r.exc = "" /\ Len(r.A) > 0
             /\ (r.rel = "perm" => \E k \in 1..Len(r.pi) : r.pi[k] # k - 1)
             /\ \E i \in 1..Len(r.A) : Len(r.A[i].t.data) > 1 /\ \E j \in 2..Len(r.A[i].t.data) : r.A[i].t.data[j] # r.A[i].t.data[1]

Checks(r) == CASE r.kind = "bayesx" -> BayesXChecks(r) [] r.kind = "posterior" -> PostChecks(r)
               [] r.kind = "init" -> InitChecks(r) [] r.kind = "flag" -> FlagChecks(r)
               [] r.kind = "weightx" -> WeightXChecks(r)
               [] r.kind = "twin" -> TwinChecks(r)
NT(r) == CASE r.kind = "posterior" -> PostNT(r)
           [] r.kind = "bayesx" -> r.exc = "" /\ Len(r.w) >= 2
           [] r.kind = "twin" -> TwinNT(r)
           [] OTHER -> r.exc = ""
Init == l = 1 /\ verdicts = <<>>
Next == /\ l <= Len(Trace)
        /\ LET r == Trace[l] IN
             verdicts' = Append(verdicts, Verdict(r.id, FailedOf(Checks(r)), NT(r), ""))
        /\ l' = l + 1
Spec == Init /\ [][Next]_vars
FlushInv == Flush(l, verdicts)
=============================================================================
