-------------------------------- MODULE Trace_MM -------------------------------
(***************************************************************************)
(* Trace specification for the mixture models: posteriors (C01), mixture   *)
(* weights (C08/C09), initializers (C01).                                  *)
(***************************************************************************)
EXTENDS Posterior, Weights, Model, LinAlg, TraceKit
VARIABLES l, verdicts
vars == <<l, verdicts>>
SL == 64

IsRatP(c) == Len(c) = 2 /\ c[2] > 0
AllData(f, P(_)) == \A i \in 1..Len(f.data) : P(f.data[i])

(* ---- bayesx : log_pdf_to_affiliation on a lattice problem, exact ---- *)
\* r.w, r.lik : K x N integers; r.sam : K x N BOOLEAN (r.has_sam); r.eps : <<p, q>>; r.out : K x N rationals
BayesXChecks(r) ==
  IF r.exc # "" THEN << <<"raises", FALSE>> >>
  ELSE LET K == Len(r.w) N == Len(r.w[1])
           sam == IF r.has_sam THEN r.sam ELSE [k \in 1..K |-> [n \in 1..N |-> TRUE]]
           g == BayesR(r.w, r.lik, sam, r.eps)
       IN IF ~(\A k \in 1..K, n \in 1..N : IsRatP(r.out[k][n])) THEN << <<"finite_rational", FALSE>> >>
          ELSE << <<"bayes", \A k \in 1..K, n \in 1..N : REq(r.out[k][n], g[k][n])>>,
                  <<"zero_inactive", \A k \in 1..K, n \in 1..N : (r.eps[1] = 0 /\ ~sam[k][n]) => r.out[k][n][1] = 0>> >>

(* ---- posterior : predict / fit_predict / E-step of a model (Flt) ---- *)
\* r.aff, r.lik, r.w (stored weight), r.sam ("none" or flat BOOLEAN), r.eps (Flt), r.zero (flat BOOLEAN: exact zeros)
\* r.full = documented shape (..L, K, N); r.wshape_expected computed here from the schema
PostChecks(r) ==
  IF r.exc # "" THEN << <<"raises", r.exc_explicit>> >>
  ELSE IF r.aff.shape # r.full THEN << <<"shape", FALSE>> >>
  ELSE IF ~AllData(r.aff, IsFlt) THEN << <<"finite", FALSE>> >>
  ELSE LET R == Len(r.full) K == r.full[R - 1] N == r.full[R]
           cols == AllIdx(RemIdx(r.full, R - 2))            \* indices (..l, n)
           idx(c, k) == InsAt(c, R - 2, k)
           active(c, k) == IF r.has_sam THEN Get(r.sam, idx(c, k)) ELSE TRUE
           fullT == [shape |-> r.full]
           \* integration models store the weight squeezed over the tied axes; the E-step re-expands it
           W == IF r.integration THEN [shape |-> KeepdimsShape(r.full, Axes(fullT, r.wca)), data |-> r.w.data] ELSE r.w
           expW == IF r.integration THEN IntWeightShape(fullT, r.wca) ELSE StdWeightShape(fullT, r.wca, r.wca_int)
           term(c, k) == IF active(c, k) THEN FMul(Get(W, idx(c, k)), Get(r.lik, idx(c, k))) ELSE FZero
           Z(c) == FSum([k \in 1..K |-> term(c, k - 1)])
           a(c, k) == Get(r.aff, idx(c, k))
           colsum(c) == FSum([k \in 1..K |-> a(c, k - 1)])
           clip(x) == IF r.eps = FZero THEN x ELSE FMax(r.eps, FMin(FSub(FOne, r.eps), x))
       IN IF r.w.shape # expW \/ ~AllData(r.w, IsFlt) \/ ~AllData(r.lik, IsFlt) THEN << <<"weight_shape", r.w.shape = expW>>, <<"finite_inputs", AllData(r.w, IsFlt) /\ AllData(r.lik, IsFlt)>> >>
          ELSE
          << <<"range", AllData(r.aff, LAMBDA x : FLe(FZero, x) /\ FLe(x, FOne))>>,
             <<"sum_one", \A i \in 1..Len(cols) : LET c == cols[i] IN
                  \* premise of the property: some active class has non-zero mass at this observation
                  IF \E k \in 0..(K - 1) : active(c, k) /\ term(c, k) # FZero
                  THEN Close(colsum(c), FOne, FAdd(FOne, FMul(FInt(K), FMul(FInt(2 ^ 19), r.eps))), SL)
                  ELSE (\A k \in 0..(K - 1) : ~active(c, k)) => \A k \in 0..(K - 1) : a(c, k) = FZero \/ r.eps # FZero>>,
             <<"zero_inactive", \A i \in 1..Len(cols) : \A k \in 0..(K - 1) :
                  (~active(cols[i], k) /\ r.eps = FZero) => a(cols[i], k) = FZero>>,
             <<"bayes", \A i \in 1..Len(cols) : LET c == cols[i] z == Z(c) IN
                  z # FZero => \A k \in 0..(K - 1) :
                     Close(a(c, k), clip(FDiv(term(c, k), z)), FOne, SL)>> >>
\* non-trivial: K >= 2 and some observation with >= 2 classes in (0.01, 0.99)
PostNT(r) ==
  /\ r.exc = "" /\ r.aff.shape = r.full /\ AllData(r.aff, IsFlt)
  /\ LET R == Len(r.full) K == r.full[R - 1]
         cols == AllIdx(RemIdx(r.full, R - 2))
         mid(x) == FLt(<<P19 + 10486, -26>>, x) /\ FLt(x, FSub(FOne, <<P19 + 10486, -26>>))   \* ~0.01
     IN  K >= 2 /\ \E i \in 1..Len(cols) :
            Cardinality({k \in 0..(K - 1) : mid(Get(r.aff, InsAt(cols[i], R - 2, k)))}) >= 2

(* ---- init : initializer outputs ---- *)
InitChecks(r) ==
  IF r.exc # "" THEN << <<"raises", FALSE>> >>
  ELSE IF r.aff.shape # r.full THEN << <<"shape", FALSE>> >>
  ELSE IF ~AllData(r.aff, IsFlt) THEN << <<"finite", FALSE>> >>
  ELSE LET R == Len(r.full) K == r.full[R - 1]
           cols == AllIdx(RemIdx(r.full, R - 2))
           a(c, k) == Get(r.aff, InsAt(c, R - 2, k))
       IN << <<"range", AllData(r.aff, LAMBDA x : FLe(FZero, x) /\ FLe(x, FOne))>>,
             <<"sum_one", \A i \in 1..Len(cols) : Close(FSum([k \in 1..K |-> a(cols[i], k - 1)]), FOne, FOne, SL)>>,
             <<"one_hot", r.one_hot => AllData(r.aff, LAMBDA x : x = FZero \/ x = FOne)>> >>

(* ---- flag : deterministic flag initializer, exact ---- *)
\* r.N, r.K, r.minimum <<p, q>>, r.out : K x N rationals (one leading index per record list r.outs)
FlagChecks(r) ==
  IF r.exc # "" THEN << <<"raises", FALSE>> >>
  ELSE LET K == r.K N == r.N
           assigned(n) == ((n - 1) * K) \div N + 1        \* floor(i K / N), 0-based i = n-1
           rem == RSub(<<1, 1>>, RMul(<<K - 1, 1>>, r.minimum))
       IN << <<"shape", \A i \in 1..Len(r.outs) : Len(r.outs[i]) = K /\ \A k \in 1..K : Len(r.outs[i][k]) = N>>,
             <<"exact", \A i \in 1..Len(r.outs) : \A k \in 1..K, n \in 1..N :
                  /\ IsRatP(r.outs[i][k][n])
                  /\ REq(r.outs[i][k][n], IF k = assigned(n) THEN rem ELSE r.minimum)>> >>

(* ---- weightx : estimate_mixture_weight on lattice affiliations, exact ---- *)
\* r.aff : flat integers (units 1/r.affden), r.sal : flat integers or has_sal = FALSE, r.out flat rationals
WeightXChecks(r) ==
  IF r.exc # "" THEN << <<"raises", FALSE>> >>
  ELSE LET axes == Axes(r.aff, r.wca)
           expshape == IF r.integration THEN IntWeightShape(r.aff, r.wca) ELSE StdWeightShape(r.aff, r.wca, r.wca_int)
           R == Rank(r.aff) K == r.aff.shape[R - 1]
       IN IF r.out.shape # expshape THEN << <<"shape", FALSE>> >>
          ELSE IF ~AllData(r.out, IsRatP) THEN << <<"finite_rational", FALSE>> >>
          ELSE IF (~r.integration /\ ClassTiedInt(r.aff, r.wca, r.wca_int)) \/ (r.integration /\ ClassAx(r.aff) \in axes)
               THEN << <<"uniform", AllData(r.out, LAMBDA x : REq(x, <<1, K>>))>> >>
          ELSE LET kd == KeepdimsShape(r.aff.shape, axes)
                   oidx == AllIdx(kd)
                   S(o) == LET g == Group(r.aff.shape, axes, o)
                           IN  SumSeq([j \in 1..Len(g) |-> Get(r.aff, g[j]) * (IF r.has_sal THEN SalAt(r.sal, g[j]) ELSE 1)])
                   cnt(o) == Len(Group(r.aff.shape, axes, o))
                   ksize == kd[R - 1]
                   norm(o) == SumSeq([k \in 1..ksize |-> S([o EXCEPT ![R - 1] = k - 1])])
                   \* value of the code's (possibly squeezed) output at keepdims index o
                   outAt(o) == IF r.integration THEN r.out.data[Off(r.out.shape, SubIdx(o, KeepAxes(R, axes)))]
                               ELSE Get(r.out, o)
               IN << <<"value", \A i \in 1..Len(oidx) : LET o == oidx[i] IN
                          IF r.has_sal \/ r.integration
                          THEN (IF norm(o) = 0 THEN (r.integration \/ outAt(o)[1] = 0)
                                ELSE outAt(o)[1] * norm(o) = outAt(o)[2] * S(o))
                          ELSE outAt(o)[1] * (cnt(o) * r.affden) = outAt(o)[2] * S(o)>> >>

(* ---- twin : two models that must be related (C04 same, C05 class permutation, C06 slice, C20 split) ---- *)
\* r.rel in {"same", "perm", "slice"}; r.A, r.B : models; r.pi (perm), r.lead (slice); r.slack
TwinChecks(r) ==
  IF r.exc # "" THEN << <<r.exc_clause, FALSE>> >>
  ELSE IF Names(r.A) # Names(r.B) THEN << <<"fields", FALSE>> >>
  ELSE IF ~(\A i \in 1..Len(r.A) : FieldFinite(r.A[i])) \/ ~(\A i \in 1..Len(r.B) : FieldFinite(r.B[i]))
       THEN << <<"finite", FALSE>> >>
  ELSE [i \in 1..Len(r.A) |->
         LET fa == r.A[i] fb == Field(r.B, fa.name)
             cax == FieldClassAx(fa, r.integration, r.wca)
         IN  <<fa.name,
               CASE r.rel = "same" -> SameField(fa, fb, r.slack)
                 [] r.rel = "perm" -> PermField(fa, fb, cax, r.pi, r.slack)
                 [] r.rel = "slice" -> SliceField(fa, fb, r.lead, r.slack)>>]
\* non-trivial: perm: pi not the identity and the classes differ; slice: >= 2 differing slices (driver flag
\* cross-checked: the compared field has > 1 element); same: the transformation was non-trivial (driver)
TwinNT(r) == /\ r.exc = "" /\ Len(r.A) > 0
             /\ (r.rel = "perm" => \E k \in 1..Len(r.pi) : r.pi[k] # k - 1)
             /\ \E i \in 1..Len(r.A) : Len(r.A[i].t.data) > 1 /\ \E j \in 2..Len(r.A[i].t.data) : r.A[i].t.data[j] # r.A[i].t.data[1]

(* ---- domain : fitted parameters stay inside their documented domain (C09) ---- *)
\* r.fields : raw fields (name, t, cplx); r.full = affiliation shape; options: r.floor, r.norm, r.kmin, r.kmax (Flt),
\* r.eps (Flt affiliation clipping), r.wca / r.wca_int / r.integration
DField(r, name) == Field(r.fields, name)
DHas(r, name) == name \in Names(r.fields)
\* rows of the last axis of a flat tensor, as sequences
LastAxisRows(t) == LET d == t.shape[Len(t.shape)] n == Prod(t.shape) \div d
                   IN  [i \in 1..n |-> SubSeq(t.data, (i - 1) * d + 1, i * d)]
\* D x D matrices of the last two axes
LastMats(t) == LET d == t.shape[Len(t.shape)] n == Prod(t.shape) \div (d * d)
               IN  [i \in 1..n |-> [a \in 1..d |-> SubSeq(t.data, (i - 1) * d * d + (a - 1) * d + 1, (i - 1) * d * d + a * d)]]
Unitary(U) == LET d == Len(U) IN \A a, b \in 1..d :
                 ZClose(ZSum([e \in 1..d |-> ZMul(ZConj(U[e][a]), U[e][b])]), IF a = b THEN <<FOne, FZero>> ELSE ZZero, FOne, 64)
FMaxSeq(s) == FoldLeft(LAMBDA acc, x : FMax(acc, x), s[1], s)
WeightDomain(r) ==
  LET w == DField(r, "weight").t
      fullT == [shape |-> r.full]
      R == Len(r.full) K == r.full[R - 1]
      expW == IF r.integration THEN IntWeightShape(fullT, r.wca) ELSE StdWeightShape(fullT, r.wca, r.wca_int)
      W == IF r.integration THEN [shape |-> KeepdimsShape(r.full, Axes(fullT, r.wca)), data |-> w.data] ELSE w
      cax == Len(W.shape) - 2
      cols == AllIdx(RemIdx(W.shape, cax))
      tol == FAdd(FNorm(64, -19), FMul(FInt(K), r.eps))
  IN << <<"weight_shape", w.shape = expW>>,
        <<"weight_nonneg", \A i \in 1..Len(w.data) : FLe(FZero, w.data[i])>>,
        <<"weight_sum", w.shape = expW =>
             \A i \in 1..Len(cols) :
                LET s == FSum([k \in 1..W.shape[cax + 1] |-> Get(W, InsAt(cols[i], cax, k - 1))])
                IN  IF W.shape[cax + 1] = 1 THEN TRUE     \* tied over classes by a tuple: mean over classes
                    ELSE FLe(FAbs(FSub(s, FOne)), tol)>> >>
CacgDomain(r) ==
  LET U == DField(r, "cacg_eigenvectors").t lam == DField(r, "cacg_eigenvalues").t
      rows == LastAxisRows(lam)
  IN << <<"cacg_unitary", \A i \in 1..Len(LastMats(U)) : Unitary(LastMats(U)[i])>>,
        <<"cacg_eigenvalue_range", \A i \in 1..Len(rows) :
             CASE r.norm = "eigenvalue" -> /\ FMaxSeq(rows[i]) = FOne
                                           /\ \A j \in 1..Len(rows[i]) : FLe(r.floor, rows[i][j]) /\ FLe(rows[i][j], FOne)
               [] r.norm = "trace" -> /\ \A j \in 1..Len(rows[i]) : FSgn(rows[i][j]) > 0 \/ r.floor = FZero
                                      /\ FLe(FSum(rows[i]), FAdd(FOne, FAdd(FNorm(64, -19), FMul(FInt(Len(rows[i])), r.floor))))
                                      /\ FLe(FSub(FOne, FNorm(64, -19)), FSum(rows[i]))
               \* relative floor; the product is formed in Flt, hence the (1 - 64 2^-19) factor
               [] OTHER -> \A j \in 1..Len(rows[i]) : FLe(FMul(FMul(r.floor, FMaxSeq(rows[i])), FSub(FOne, FNorm(64, -19))), rows[i][j])>> >>
WatsonDomain(r) ==
  LET m == LastAxisRows(DField(r, "watson_mode").t) c == DField(r, "watson_concentration").t.data
  IN << <<"watson_unit_mode", \A i \in 1..Len(m) : CloseRel(Norm2(m[i]), FOne, 64)>>,
        <<"watson_concentration_range", \A i \in 1..Len(c) : FLe(FZero, c[i]) /\ FLe(c[i], r.kmax)>> >>
VmfDomain(r) ==
  LET m == LastAxisRows(DField(r, "vmf_mean").t) c == DField(r, "vmf_concentration").t.data
  IN << <<"vmf_unit_mean", \A i \in 1..Len(m) : CloseRel(FSum([j \in 1..Len(m[i]) |-> FSq(m[i][j])]), FOne, 64) \/ r.zero_resultant>>,
        <<"vmf_concentration_range", \A i \in 1..Len(c) : FLe(r.kmin, c[i]) /\ FLe(c[i], r.kmax)>> >>
\* Gaussian covariance: symmetric and positive definite by a Cholesky certificate L (lower triangular, positive diagonal)
GaussDomain(r) ==
  LET name == CHOOSE n \in Names(r.fields) : n \in {"gaussian_covariance_full", "gaussian_covariance_diagonal", "gaussian_covariance_spherical"}
      c == DField(r, name).t
  IN IF name # "gaussian_covariance_full"
     THEN << <<"gaussian_variance_positive", \A i \in 1..Len(c.data) : FSgn(c.data[i]) > 0>> >>
     ELSE LET S == LastMats(c) L == LastMats(DField(r, "gaussian_cholesky").t) d == Len(S[1])
          IN << <<"gaussian_symmetric", \A i \in 1..Len(S) : \A a, b \in 1..d : CloseRel(S[i][a][b], S[i][b][a], 64) \/ (S[i][a][b] = FZero /\ S[i][b][a] = FZero)>>,
                <<"gaussian_positive_definite", \A i \in 1..Len(S) :
                     /\ \A a \in 1..d : FSgn(L[i][a][a]) > 0 /\ \A b \in (a + 1)..d : L[i][a][b] = FZero
                     /\ \A a, b \in 1..d :
                          LET terms == [e \in 1..d |-> FMul(L[i][a][e], L[i][b][e])]
                          IN  Close(FSum(terms), S[i][a][b], FAdd(FSumAbs(terms), FAbs(S[i][a][b])), 64)>> >>
BinghamDomain(r) ==
  LET rows == LastAxisRows(DField(r, "bingham_eigenvalues").t)
  IN << <<"bingham_eigenvalue_range", \A i \in 1..Len(rows) :
             /\ FMaxSeq(rows[i]) = FZero
             /\ \A j \in 1..Len(rows[i]) : FLe(rows[i][j], FZero) /\ FLe(FNeg(r.kmax), rows[i][j])>> >>
DomainChecks(r) ==
  IF r.exc # "" THEN << <<"raises", r.exc_explicit>> >>
  ELSE IF ~(\A i \in 1..Len(r.fields) : FieldFinite(r.fields[i])) THEN << <<"finite", FALSE>> >>
  ELSE WeightDomain(r)
       \o (IF DHas(r, "cacg_eigenvalues") THEN CacgDomain(r) ELSE <<>>)
       \o (IF DHas(r, "watson_mode") THEN WatsonDomain(r) ELSE <<>>)
       \o (IF DHas(r, "vmf_mean") THEN VmfDomain(r) ELSE <<>>)
       \o (IF DHas(r, "gaussian_mean") THEN GaussDomain(r) ELSE <<>>)
       \o (IF DHas(r, "bingham_eigenvalues") THEN BinghamDomain(r) ELSE <<>>)
\* non-trivial: a guard was active (an eigenvalue at its floor, a concentration at a bound) or degenerate data
DomainNT(r) ==
  /\ r.exc = "" /\ \A i \in 1..Len(r.fields) : FieldFinite(r.fields[i])
  /\ \/ r.degenerate
     \/ (DHas(r, "cacg_eigenvalues") /\ \E x \in {DField(r, "cacg_eigenvalues").t.data[i] : i \in 1..Len(DField(r, "cacg_eigenvalues").t.data)} : x = r.floor)
     \/ (DHas(r, "watson_concentration") /\ \E i \in 1..Len(DField(r, "watson_concentration").t.data) :
            DField(r, "watson_concentration").t.data[i] \in {FZero, r.kmax})
     \/ (DHas(r, "vmf_concentration") /\ \E i \in 1..Len(DField(r, "vmf_concentration").t.data) :
            DField(r, "vmf_concentration").t.data[i] \in {r.kmin, r.kmax})

Checks(r) == CASE r.kind = "bayesx" -> BayesXChecks(r) [] r.kind = "posterior" -> PostChecks(r)
               [] r.kind = "init" -> InitChecks(r) [] r.kind = "flag" -> FlagChecks(r)
               [] r.kind = "weightx" -> WeightXChecks(r)
               [] r.kind = "twin" -> TwinChecks(r)
               [] r.kind = "domain" -> DomainChecks(r)
NT(r) == CASE r.kind = "posterior" -> PostNT(r)
           [] r.kind = "bayesx" -> r.exc = "" /\ Len(r.w) >= 2
           [] r.kind = "twin" -> TwinNT(r)
           [] r.kind = "domain" -> DomainNT(r)
           [] OTHER -> r.exc = ""
Init == l = 1 /\ verdicts = <<>>
Next == /\ l <= Len(Trace)
        /\ LET r == Trace[l] IN
             verdicts' = Append(verdicts, Verdict(r.id, FailedOf(Checks(r)), NT(r), ""))
        /\ l' = l + 1
Spec == Init /\ [][Next]_vars
FlushInv == Flush(l, verdicts)
=============================================================================
