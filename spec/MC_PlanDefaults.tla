---------------------------- MODULE MC_PlanDefaults ---------------------------
(* The shipped defaults for STFT sizes 512 and 1024. *)
EXTENDS Alignment, TLC
VARIABLES which, plan
Init == /\ which \in {512, 1024}
        /\ plan = IF which = 512 THEN Plan(512, 70, 100, 20, 20, 2) ELSE Plan(1024, 100, 100, 20, 20, 2)
Next == UNCHANGED <<which, plan>>
Spec == Init /\ [][Next]_<<which, plan>>
PlanCovers == PlanCoversAll(plan, which \div 2 + 1)
OverlapOK == OverlapTwoThirds(plan)
Doc512 == which = 512 => plan = << <<20,70,170>>, <<2,90,190>>, <<2,50,150>>, <<2,110,210>>, <<2,30,130>>,
                                   <<2,130,230>>, <<2,0,110>>, <<2,150,257>> >>
=============================================================================
