-------------------------------- MODULE Masks ---------------------------------
(***************************************************************************)
(* Oracle masks of pb_bss.extraction.mask_module on Gaussian-integer       *)
(* source tensors, for every axis layout.  r is a call record:             *)
(*   shape, sig (nested Gaussian integers), ka (source_axis), da           *)
(*   (sensor_axis or None = "none"), keepdims, and per function parameters *)
(* Every expected value is <<numerator, denominator>> (exact).             *)
(***************************************************************************)
EXTENDS Num, Tensor

N(r)  == Len(r.shape)
Ka(r) == NormAxis(r.ka, N(r))
HasDa(r) == r.has_da
Da(r) == NormAxis(r.da, N(r))
KSize(r) == r.shape[Ka(r) + 1]
Sig(r, idx) == At(r.sig, idx)
SetAx(idx, a, v) == [idx EXCEPT ![a + 1] = v]
\* output index -> index into the signal (sensor coordinate set to 0 when pooled)
Full(r, o) == IF ~HasDa(r) THEN o ELSE IF r.keepdims THEN o ELSE InsAt(o, Da(r), 0)
OutShapeOf(r) == IF ~HasDa(r) THEN r.shape
                 ELSE IF r.keepdims THEN [r.shape EXCEPT ![Da(r) + 1] = 1]
                 ELSE RemIdx(r.shape, Da(r))
\* sensor-pooled power at a signal index
Pow(r, idx) == IF ~HasDa(r) THEN CAbs2(Sig(r, idx))
               ELSE SumSeq([d \in 1..r.shape[Da(r) + 1] |-> CAbs2(Sig(r, SetAx(idx, Da(r), d - 1)))])
PowK(r, idx, k) == Pow(r, SetAx(idx, Ka(r), k))
SumPow(r, idx) == SumSeq([k \in 1..KSize(r) |-> PowK(r, idx, k - 1)])
\* first arg-max over the source axis
ArgMaxK(r, idx) ==
  CHOOSE k \in 0..(KSize(r) - 1) :
     \A j \in 0..(KSize(r) - 1) : PowK(r, idx, j) < PowK(r, idx, k) \/ (PowK(r, idx, j) = PowK(r, idx, k) /\ k <= j)
\* ---- expected values at output index o (as <<num, den>>; den = 0 encodes "exactly 0") ----
IBM(r, o) == LET f == Full(r, o) IN IF f[Ka(r) + 1] = ArgMaxK(r, f) THEN <<1, 1>> ELSE <<0, 1>>
Wiener(r, o) == LET f == Full(r, o) IN <<PowK(r, f, f[Ka(r) + 1]), SumPow(r, f)>>     \* 0/0 -> 0 (eps guard)
\* ratio mask needs the integer moduli r.mod (checked: mod^2 = |s|^2)
Mod(r, idx) == At(r.mod, idx)
ModOK(r) == \A i \in 1..Prod(r.shape) : LET ix == AllIdx(r.shape)[i] IN Mod(r, ix) >= 0 /\ Mod(r, ix) * Mod(r, ix) = CAbs2(Sig(r, ix))
Ratio(r, o) == <<Mod(r, o), SumSeq([k \in 1..KSize(r) |-> Mod(r, SetAx(o, Ka(r), k - 1))])>>
\* complex mask s_k / sum_j s_j = s_k conj(S) / |S|^2 ; phase-sensitive mask = real part
MixAt(r, o) == CSum([k \in 1..KSize(r) |-> Sig(r, SetAx(o, Ka(r), k - 1))])
ICMNum(r, o) == CMul(Sig(r, o), CConj(MixAt(r, o)))
ICMDen(r, o) == CAbs2(MixAt(r, o))

(* ---- quantile mask ---- *)
\* axes r.axes (raw), quantile r.q = <<qn, qd>> (may be negative), weight r.w = <<wn, wd>>
AxesN(r) == [i \in 1..Len(r.axes) |-> NormAxis(r.axes[i], N(r))]
AxSet(r) == {AxesN(r)[i] : i \in 1..Len(r.axes)}
\* all signal indices sharing the independent coordinates of idx
Group(r, idx) ==
  LET all == AllIdx(r.shape)
  IN  SelectSeq(all, LAMBDA j : \A a \in 0..(N(r) - 1) : a \in AxSet(r) \/ j[a + 1] = idx[a + 1])
SortedAsc(s) == SortSeq(s, LAMBDA a, b : a < b)
\* NumPy 'linear' percentile at fraction p = pn/pd of sorted values a (n = Len(a)):
\* position pos = p (n-1), i = floor(pos), threshold*pd = a[i] pd + rem (a[i+1]-a[i])
PctTimesDen(a, pn, pd) ==
  LET n == Len(a)
      posn == pn * (n - 1)
      i == posn \div pd
      rem == posn % pd
  IN  IF i + 1 >= n THEN a[n] * pd ELSE a[i + 1] * pd + rem * (a[i + 2] - a[i + 1])
\* The threshold is reproduced EXACTLY by the floating-point interpolation a + (b - a) t when the two neighbouring order
\* statistics coincide (b - a = 0) or when the position p (n-1) is an integer computed without rounding (t = 0: dyadic p,
\* e.g. 1/2, 1/4, 3/4).  Then "strictly above / below" is decidable: a value ON the threshold keeps the low level.
Dyadic(d) == d \in {1, 2, 4, 8, 16}
PctExact(a, pn, pd) ==
  LET n == Len(a)
      posn == pn * (n - 1)
      i == posn \div pd
      rem == posn % pd
  IN  IF i + 1 >= n THEN Dyadic(pd) ELSE IF rem = 0 THEN Dyadic(pd) ELSE a[i + 1] = a[i + 2]
\* returns "hi", "lo" or "tie" (value on a threshold whose float rounding may decide)
QuantileLevel(r, idx) ==
  LET vals == SortedAsc([j \in 1..Len(Group(r, idx)) |-> Mod(r, Group(r, idx)[j])])
      qn == r.q[1] qd == r.q[2]
      thr == IF qn >= 0 THEN PctTimesDen(vals, qd - qn, qd) ELSE PctTimesDen(vals, -qn, qd)
      exact == IF qn >= 0 THEN PctExact(vals, qd - qn, qd) ELSE PctExact(vals, -qn, qd)
      v == Mod(r, idx) * qd
  IN  IF v = thr THEN (IF exact THEN "lo" ELSE "tie")
      ELSE IF qn >= 0 THEN (IF v > thr THEN "hi" ELSE "lo")
      ELSE (IF v < thr THEN "hi" ELSE "lo")
\* levels 0.5 +- weight/2  as <<num, den>>
LevelHi(r) == <<r.w[2] + r.w[1], 2 * r.w[2]>>
LevelLo(r) == <<r.w[2] - r.w[1], 2 * r.w[2]>>

(* ---- Lorenz mask ---- *)
\* power pooled over the sensor axis, flattened along r.axes; fraction r.frac = <<fn, fd>>
LGroup(r, f) ==     \* f: signal index (sensor coord 0); group over r.axes with other coords fixed
  LET all == AllIdx(IF HasDa(r) THEN [r.shape EXCEPT ![Da(r) + 1] = 1] ELSE r.shape)
  IN  SelectSeq(all, LAMBDA j : \A a \in 0..(N(r) - 1) : a \in AxSet(r) \/ j[a + 1] = f[a + 1])
LorenzLevel(r, o) ==
  LET f == Full(r, o)
      g == LGroup(r, f)
      pw == [j \in 1..Len(g) |-> Pow(r, g[j])]
      desc == SortSeq(pw, LAMBDA a, b : a > b)
      total == SumSeq(desc)
      cum == FoldLeft(LAMBDA acc, x : Append(acc, (IF Len(acc) = 0 THEN 0 ELSE acc[Len(acc)]) + x), <<>>, desc)
      admitted == {j \in 1..Len(desc) : cum[j] * r.frac[2] < r.frac[1] * total}
      tied == \E j \in 1..Len(desc) : cum[j] * r.frac[2] = r.frac[1] * total
  IN  IF tied THEN "tie"
      ELSE IF admitted = {} THEN "empty"
      ELSE LET thr == desc[CHOOSE j \in admitted : \A i \in admitted : i <= j]   \* weakest admitted
           IN  IF Pow(r, f) > thr THEN "hi" ELSE "lo"
LorenzPremise(r, o) ==   \* >= 8 points, none carries the Lorenz fraction
  LET f == Full(r, o) g == LGroup(r, f)
      pw == [j \in 1..Len(g) |-> Pow(r, g[j])]
      total == SumSeq(pw)
  IN  Len(g) >= 8 /\ total > 0 /\ \A j \in 1..Len(pw) : pw[j] * r.frac[2] < r.frac[1] * total
=============================================================================
