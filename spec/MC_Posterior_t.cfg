SPECIFICATION Spec
CONSTANTS
  K = 3
  N = 1
  WVals = {1, 2, 3}
  LVals = {1, 2, 4}
INVARIANT InUnit
INVARIANT SumsToOne
INVARIANT SumNearOne
INVARIANT ZeroWhereInactive
INVARIANT AllZeroColumn
INVARIANT ClassEquivariant
INVARIANT ScaleFree
