"""Parser for TLA+ values as printed by TLC (-dump, -simulate file=..., PrintT).

ints, strings, TRUE/FALSE, <<seq>>, {set}, [rec |-> v], (k :> v @@ k :> v), model values.
Sequences -> list, sets -> list (TLC order), records/functions -> dict (int keys kept as int).
"""
import re

_tok = re.compile(r'\s*(<<|>>|\|->|:>|@@|[\[\]{}(),]|-?\d+|"(?:[^"\\]|\\.)*"|[A-Za-z_][A-Za-z0-9_!]*)')


def tokenize(s):
    pos = 0
    out = []
    n = len(s)
    while pos < n:
        m = _tok.match(s, pos)
        if not m:
            if s[pos:].strip() == '':
                break
            raise ValueError(f'cannot tokenize at {pos}: {s[pos:pos+40]!r}')
        out.append(m.group(1))
        pos = m.end()
    return out


class _P:
    def __init__(self, toks):
        self.t = toks
        self.i = 0

    def peek(self):
        return self.t[self.i] if self.i < len(self.t) else None

    def next(self):
        x = self.t[self.i]
        self.i += 1
        return x

    def expect(self, x):
        y = self.next()
        if y != x:
            raise ValueError(f'expected {x} got {y} at token {self.i}')

    def value(self):
        t = self.next()
        if t == '<<':
            out = []
            if self.peek() == '>>':
                self.next()
                return out
            while True:
                out.append(self.value())
                if self.peek() == ',':
                    self.next()
                    continue
                self.expect('>>')
                return out
        if t == '{':
            out = []
            if self.peek() == '}':
                self.next()
                return out
            while True:
                out.append(self.value())
                if self.peek() == ',':
                    self.next()
                    continue
                self.expect('}')
                return out
        if t == '[':
            out = {}
            while True:
                k = self.next()
                self.expect('|->')
                out[k] = self.value()
                if self.peek() == ',':
                    self.next()
                    continue
                self.expect(']')
                return out
        if t == '(':
            out = {}
            while True:
                k = self.value()
                self.expect(':>')
                out[k if not isinstance(k, list) else tuple(k)] = self.value()
                if self.peek() == '@@':
                    self.next()
                    continue
                self.expect(')')
                return out
        if t == 'TRUE':
            return True
        if t == 'FALSE':
            return False
        if t[0] == '"':
            return bytes(t[1:-1], 'utf-8').decode('unicode_escape')
        if re.fullmatch(r'-?\d+', t):
            return int(t)
        return t  # model value / identifier


def parse_value(s):
    p = _P(tokenize(s))
    v = p.value()
    if p.i != len(p.t):
        raise ValueError('trailing tokens')
    return v


def parse_state(block):
    r"""Parse '/\ var = value' conjunct list into dict."""
    parts = re.split(r'^/\\ ', block.strip(), flags=re.M)
    st = {}
    for part in parts:
        part = part.strip()
        if not part:
            continue
        m = re.match(r'(\w+) = (.*)', part, re.S)
        if not m:
            # single-variable states are printed as "var = value"
            raise ValueError(f'bad conjunct {part[:60]!r}')
        st[m.group(1)] = parse_value(m.group(2))
    return st


def parse_dump(path):
    """Yield state dicts from a TLC `-dump` file."""
    txt = open(path).read()
    for blk in re.split(r'^State \d+:\s*$', txt, flags=re.M):
        blk = blk.strip()
        if not blk:
            continue
        if not blk.startswith('/\\'):
            blk = '/\\ ' + blk
        yield parse_state(blk)


def parse_sim_file(path):
    """Parse one behaviour file written by `-simulate file=...`.

    Returns list of (action_label, state_dict)."""
    txt = open(path).read()
    out = []
    # blocks: \* <Action line ...>  /  STATE_n == \n /\ ...
    for m in re.finditer(r'(?:\\\* <?([^\n>]*)>?\n)?STATE_(\d+) ==\s*\n(.*?)(?=\n\n|\n\\\*|\Z)', txt, re.S):
        label = (m.group(1) or '').strip()
        label = label.split(' line ')[0].strip()
        out.append((label, parse_state(m.group(3))))
    return out
