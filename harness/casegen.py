"""Case construction from TLC state dumps (orchestrator side: no pb_bss import)."""


def reshape_cases(states, stride=1):
    """cases from the TLC dump of MC_Reshape (state = src, tgt, size, op)"""
    out = []
    for i, st in enumerate(states):
        if i % stride:
            continue
        size = st['size'] if isinstance(st['size'], dict) else {}
        names = [x for x in st['src'] if x != '1']
        out.append(dict(t='reshape', src=list(st['src']), tgt=[list(g) for g in st['tgt']], names=names,
                        sizes=[int(size[n]) for n in names], op=st['op'], layout=['C', 'F', 'strided'][i % 3],
                        dtype=['int64', 'float64', 'complex128'][(i // 3) % 3]))
    # a product on the source side is rejected by design
    for op in ('a*b -> a b', 'a*b c -> c a b', 'a * b -> b*a'):
        out.append(dict(t='reshape_reject', op=op))
    return out
