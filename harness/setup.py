"""setup_cmd: offline build of everything that does not depend on /repo.

 - parse every specification module with SANY
 - calibrate the Flt arithmetic of Num.tla against IEEE doubles (Trace_Num)
 - cache TLC-generated case sets of the larger exhaustive instances under build/
"""
import glob
import math
import os
import random
import subprocess
import sys

from . import core, enc, tlc

BUILD = os.path.join(core.VERIF, 'build')


def sany():
    bad = 0
    for f in sorted(glob.glob(os.path.join(tlc.SPEC, '*.tla'))):
        p = subprocess.run(['java', '-cp', tlc.JAR, 'tla2sany.SANY', os.path.basename(f)], cwd=tlc.SPEC,
                           stdout=subprocess.PIPE, stderr=subprocess.STDOUT, text=True)
        if p.returncode != 0 or 'error' in p.stdout.lower().replace('errors: 0', ''):
            if 'Semantic errors' in p.stdout or 'Parse Error' in p.stdout or p.returncode != 0:
                print('SANY FAILED', f, p.stdout[-800:])
                bad += 1
    return bad


def flt_selftest():
    random.seed(1)
    recs = []
    for i in range(2000):
        ea = random.uniform(-100, 100)
        a = random.uniform(-1, 1) * 10 ** ea
        b = -a * (1 + random.uniform(-1e-3, 1e-3)) if random.random() < 0.3 else \
            random.uniform(-1, 1) * 10 ** (ea + random.uniform(-8, 8))
        op = random.choice(['add', 'sub', 'mul', 'div'])
        if b == 0:
            continue
        fa, fb = enc.flt(a), enc.flt(b)
        A, B = enc.unflt(fa), enc.unflt(fb)
        r = {'add': A + B, 'sub': A - B, 'mul': A * B, 'div': A / B}[op]
        recs.append(dict(id=len(recs), op=op, a=fa, b=fb, r=enc.flt(r), lt=A < B, le=A <= B))
    v, _ = tlc.validate_trace('Trace_Num', 'Trace_Num.cfg', recs, tag='num')
    bad = [x for x in v if x['failed']]
    if bad:
        print('Flt self test failed', bad[:3])
        return 1
    return 0


def caches():
    os.makedirs(BUILD, exist_ok=True)
    core.tlc_dump_states('MC_Assignment', 'MC_Assignment_K3.cfg', workers=8,
                         cache=os.path.join(BUILD, 'assign_k3.states.json'))
    return 0


def main():
    rc = sany()
    rc += flt_selftest()
    rc += caches()
    print('setup', 'OK' if rc == 0 else 'FAILED')
    sys.exit(1 if rc else 0)


if __name__ == '__main__':
    main()
