"""bin/check entry: dispatch to harness/props/<id>.py : run(check) ."""
import argparse
import importlib
import json
import os
import sys
import traceback

from . import core, tlc

LEVELS = json.load(open(os.path.join(core.VERIF, 'harness', 'levels.json')))


def main():
    ap = argparse.ArgumentParser()
    ap.add_argument('pid')
    ap.add_argument('--tier', default=os.environ.get('VERIF_TIER', 'quick'))
    ap.add_argument('--replay')
    a = ap.parse_args()
    seed = int(os.environ.get('VERIF_SEED', '0') or 0)
    pid = a.pid.upper()
    mod = importlib.import_module(f'harness.props.{pid.lower()}')
    try:
        if a.replay:
            sys.exit(mod.replay(a.replay))
        chk = core.Check(pid, a.tier, seed, LEVELS.get(pid, 'exploration'))
        mod.run(chk)
        sys.exit(chk.finish())
    except (core.MachineryError, tlc.TlcError) as e:
        print(f'MACHINERY-FAILURE {pid}: {e}', file=sys.stderr)
        traceback.print_exc()
        sys.exit(2)


if __name__ == '__main__':
    main()
