"""Thin wrapper around TLC (model checking, state dumps, simulation, trace validation).

Everything a check learns from the specification goes through here.  Exit
status and the statistics lines are parsed; any TLC error that is not an
invariant/property violation is a machinery failure (TlcError).
"""
import json
import os
import re
import shutil
import subprocess
import tempfile
import time

VERIF = os.path.dirname(os.path.dirname(os.path.abspath(__file__)))
SPEC = os.path.join(VERIF, 'spec')
JAR = '/opt/veriftools/tla/tla2tools.jar:/opt/veriftools/tla/CommunityModules-deps.jar'


class TlcError(Exception):
    pass


class TlcResult:
    def __init__(self):
        self.ok = False
        self.states = 0
        self.distinct = 0
        self.transitions = 0
        self.violated = None      # name of violated invariant / property
        self.stdout = ''
        self.wall = 0.0
        self.coverage = {}
        self.cmd = ''

    def __repr__(self):
        return (f'TlcResult(ok={self.ok}, states={self.states}, distinct={self.distinct},'
                f' violated={self.violated}, wall={self.wall:.1f})')


def run_tlc(module, cfg, *, workers=None, extra=(), env=None, timeout=3600,
            heap='8g', deadlock=False, coverage=False, cwd=None, stdout_path=None):
    """Run TLC on spec/<module>.tla with spec/<cfg>.  Returns TlcResult."""
    meta = tempfile.mkdtemp(prefix='tlcmeta_')
    if workers is None:
        workers = 'auto'
    cmd = ['java', '-XX:+UseParallelGC', f'-Xmx{heap}', '-Xss64m', '-cp', JAR, 'tlc2.TLC',
           '-workers', str(workers), '-metadir', meta, '-noGenerateSpecTE',
           '-config', cfg]
    if not deadlock:
        cmd += ['-deadlock']          # -deadlock DISABLES deadlock checking
    if coverage:
        cmd += ['-coverage', '1']
    cmd += list(extra) + [module]
    e = dict(os.environ)
    if env:
        e.update({k: str(v) for k, v in env.items()})
    t0 = time.time()
    try:
        p = subprocess.run(cmd, cwd=cwd or SPEC, env=e, stdout=subprocess.PIPE,
                           stderr=subprocess.STDOUT, timeout=timeout, text=True)
        out = p.stdout
        rc = p.returncode
    except subprocess.TimeoutExpired as ex:
        shutil.rmtree(meta, ignore_errors=True)
        raise TlcError(f'TLC timeout after {timeout}s: {" ".join(cmd)}\n{(ex.stdout or "")[-2000:]}')
    finally:
        pass
    shutil.rmtree(meta, ignore_errors=True)
    r = TlcResult()
    r.cmd = ' '.join(cmd)
    r.wall = time.time() - t0
    r.stdout = out
    if stdout_path:
        with open(stdout_path, 'w') as f:
            f.write(out)
    m = re.search(r'(\d+) states generated, (\d+) distinct states found', out)
    if m:
        r.states = int(m.group(1))
        r.distinct = int(m.group(2))
        r.transitions = r.states
    m = re.search(r'Invariant (\S+) is violated', out)
    if m:
        r.violated = m.group(1)
    m2 = re.search(r'(?:Action|Temporal) propert(?:y|ies) (\S+)? ?(?:is|were) violated', out)
    if m2 and not r.violated:
        r.violated = m2.group(1) or 'property'
    if 'Model checking completed. No error has been found' in out or \
            re.search(r'Finished in', out) and rc == 0:
        r.ok = True
    if r.violated:
        r.ok = False
        return r
    if not r.ok:
        raise TlcError(f'TLC failed (rc={rc}): {" ".join(cmd)}\n{out[-4000:]}')
    return r


def parse_coverage(out):
    """Return {action_or_operator_name: count} from a -coverage run (top-level lines)."""
    cov = {}
    for m in re.finditer(r'^<(\w+) line \d+, col \d+ to line \d+, col \d+ of module (\w+)>: (\d+):(\d+)', out, re.M):
        cov[m.group(1)] = (int(m.group(3)), int(m.group(4)))
    return cov


def validate_trace(module, cfg, records, *, extra_env=None, timeout=3600, heap='8g', tag='t',
                   keep=False):
    """Write `records` (list of dict) as ndjson, run the trace spec, return (verdicts, TlcResult).

    The trace spec must write its verdict sequence to IOEnv.OUT_FILE with ndJsonSerialize and
    accept by POSTCONDITION.  Any TLC failure here is a machinery failure.
    """
    d = tempfile.mkdtemp(prefix=f'trace_{tag}_')
    tf = os.path.join(d, 'trace.ndjson')
    of = os.path.join(d, 'verdicts.ndjson')
    with open(tf, 'w') as f:
        for r in records:
            f.write(json.dumps({k: v for k, v in r.items() if k not in ('case', 'key', 'fp')},
                               separators=(',', ':')))
            f.write('\n')
    env = {'TRACE_FILE': tf, 'OUT_FILE': of}
    if extra_env:
        env.update(extra_env)
    try:
        res = run_tlc(module, cfg, workers=1, env=env, timeout=timeout, heap=heap)
        if res.violated:
            raise TlcError(f'trace spec {module} violated {res.violated} (machinery):\n{res.stdout[-3000:]}')
        if not os.path.exists(of):
            raise TlcError(f'trace spec {module} wrote no verdict file\n{res.stdout[-3000:]}')
        verdicts = [json.loads(x) for x in open(of) if x.strip()]
        if len(verdicts) != len(records):
            raise TlcError(f'trace spec {module}: {len(verdicts)} verdicts for {len(records)} records')
        return verdicts, res
    finally:
        if not keep:
            shutil.rmtree(d, ignore_errors=True)


def validate_trace_parallel(module, cfg, records, *, jobs=8, chunk=None, **kw):
    """Split independent records over several JVMs. Records of one `tid` stay together, in order."""
    from concurrent.futures import ThreadPoolExecutor
    groups = {}
    order = []
    for r in records:
        k = r.get('tid', r.get('id'))
        if k not in groups:
            groups[k] = []
            order.append(k)
        groups[k].append(r)
    nj = max(1, min(jobs, len(order)))
    buckets = [[] for _ in range(nj)]
    sizes = [0] * nj
    # greedy balance by record count (cost hint 'cost' if present)
    for k in sorted(order, key=lambda k: -sum(x.get('cost', 1) for x in groups[k])):
        i = sizes.index(min(sizes))
        buckets[i].extend(groups[k])
        sizes[i] += sum(x.get('cost', 1) for x in groups[k])
    buckets = [b for b in buckets if b]
    results = [None] * len(buckets)

    def work(i):
        results[i] = validate_trace(module, cfg, buckets[i], tag=f'{kw.get("tag", "t")}{i}',
                                    **{k: v for k, v in kw.items() if k != 'tag'})
    with ThreadPoolExecutor(len(buckets)) as ex:
        futs = [ex.submit(work, i) for i in range(len(buckets))]
        for f in futs:
            f.result()
    verdicts = {}
    states = 0
    wall = 0.0
    for (v, res), b in zip(results, buckets):
        for rec, ver in zip(b, v):
            verdicts[rec['id']] = ver
        states += res.states
        wall = max(wall, res.wall)
    out = [verdicts[r['id']] for r in records]
    agg = TlcResult()
    agg.ok = True
    agg.states = states
    agg.distinct = states
    agg.transitions = states
    agg.wall = wall
    return out, agg
