"""Entry point of all drivers (runs under /venv/bin/python with PYTHONPATH=/repo:/verif).

A driver module defines
    cases(tier, seed, args) -> list of JSON-able case dicts
    run_case(case)          -> list of record dicts (one per observed call / event)
Exceptions raised by the code under test are caught by the driver module and logged as
records; an exception escaping run_case is a driver bug (machinery failure, non-zero exit).
"""
import argparse
import importlib
import json
import sys
import warnings

warnings.filterwarnings('ignore')


def main():
    ap = argparse.ArgumentParser()
    ap.add_argument('module')
    ap.add_argument('--tier', default='quick')
    ap.add_argument('--seed', type=int, default=0)
    ap.add_argument('--out', required=True)
    ap.add_argument('--case-file')
    ap.add_argument('--args')
    a = ap.parse_args()
    mod = importlib.import_module(f'harness.drivers.{a.module}')
    args = json.loads(a.args) if a.args else {}
    if a.case_file:
        cases = json.load(open(a.case_file))
    else:
        cases = mod.cases(a.tier, a.seed, args)
    n = 0
    with open(a.out, 'w') as f:
        for ci, case in enumerate(cases):
            for rec in mod.run_case(case):
                rec.setdefault('id', n)
                rec['id'] = n
                rec.setdefault('case', case)
                f.write(json.dumps(rec, separators=(',', ':')))
                f.write('\n')
                n += 1


if __name__ == '__main__':
    main()
