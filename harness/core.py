"""Check orchestration: drivers, TLC runs, verdict merging, known findings, evidence, replays."""
import json
import os
import re
import subprocess
import sys
import tempfile
import time
import shutil

from . import tlc

VERIF = tlc.VERIF
REPO = os.environ.get('PB_BSS_REPO', '/repo')
PY = '/venv/bin/python'
GUARD = 'PB_BSS_VERIF'


class MachineryError(Exception):
    pass


def load_known():
    p = os.path.join(VERIF, 'known_findings.json')
    if not os.path.exists(p):
        return []
    return json.load(open(p))


def run_driver(module, *, tier, seed, cases=None, case=None, hooks=True, timeout=3600,
               args=None):
    """Run harness/drivers/<module>.py under the repository's interpreter against /repo.

    Returns list of records.  A non-zero exit of the driver itself is a machinery failure
    (drivers catch exceptions of the code under test and log them as records)."""
    d = tempfile.mkdtemp(prefix=f'drv_{module}_')
    out = os.path.join(d, 'out.ndjson')
    cmd = [PY, '-m', 'harness.driver_main', module, '--tier', tier, '--seed', str(seed), '--out', out]
    if cases is not None:
        cf = os.path.join(d, 'cases.json')
        json.dump(cases, open(cf, 'w'))
        cmd += ['--case-file', cf]
    if case is not None:
        cf = os.path.join(d, 'case.json')
        json.dump([case], open(cf, 'w'))
        cmd += ['--case-file', cf]
    if args:
        cmd += ['--args', json.dumps(args)]
    env = dict(os.environ)
    env['PYTHONPATH'] = f'{REPO}:{VERIF}'
    env['PYTHONHASHSEED'] = '0'
    env['OMP_NUM_THREADS'] = '1'
    env['OPENBLAS_NUM_THREADS'] = '1'
    env['PYTHONWARNINGS'] = 'ignore'
    if hooks:
        env[GUARD] = '1'
    else:
        env.pop(GUARD, None)
    try:
        p = subprocess.run(cmd, cwd=VERIF, env=env, stdout=subprocess.PIPE, stderr=subprocess.STDOUT,
                           text=True, timeout=timeout)
        if p.returncode != 0:
            raise MachineryError(f'driver {module} failed rc={p.returncode}\n{p.stdout[-4000:]}')
        recs = [json.loads(x) for x in open(out) if x.strip()]
        return recs
    finally:
        shutil.rmtree(d, ignore_errors=True)


def run_driver_parallel(module, *, tier, seed, cases, jobs=8, **kw):
    """Split a case list over several driver processes (cases are independent)."""
    from concurrent.futures import ThreadPoolExecutor
    jobs = max(1, min(jobs, len(cases)))
    chunks = [cases[i::jobs] for i in range(jobs)]
    with ThreadPoolExecutor(jobs) as ex:
        futs = [ex.submit(run_driver, module, tier=tier, seed=seed, cases=c, **kw) for c in chunks]
        res = [f.result() for f in futs]
    out = []
    for r in res:
        out.extend(r)
    # re-number ids so they are unique
    for i, r in enumerate(out):
        r['id'] = i
    return out


class Check:
    def __init__(self, pid, tier, seed, level):
        self.pid = pid
        self.tier = tier
        self.seed = seed
        self.level = level
        self.t0 = time.time()
        self.violations = []      # dict(check, clause, fp, detail, case, driver)
        self.growth_findings = []  # rejections of parts outside the listed property (never a violation of it)
        self.known_hits = []
        self.states = 0
        self.transitions = 0
        self.traces = 0
        self.evaluations = 0
        self.nt_keys = set()
        self.samples = []
        self.notes = {}
        self.skips = {}
        self.exhaustive = False
        self.assumptions = []
        self.rule = ''
        self.parts = []
        self.known = [k for k in load_known() if k.get('property') == pid and k.get('kind') == 'known']

    # ---- M ---------------------------------------------------------------
    def mc(self, name, module, cfg, **kw):
        """Exhaustive TLC run of an instance; a violated invariant here means the
        specification contradicts itself -> machinery failure, never a VIOLATION."""
        res = tlc.run_tlc(module, cfg, **kw)
        if res.violated:
            raise MachineryError(f'model instance {name} ({module}/{cfg}) violates {res.violated}:\n'
                                 + res.stdout[-3000:])
        self.states += res.distinct
        self.transitions += res.states
        self.parts.append(dict(part=name, kind='M', module=module, cfg=cfg, states=res.distinct,
                               generated=res.states, wall_s=round(res.wall, 1)))
        return res

    # ---- V / G -----------------------------------------------------------
    def validate(self, name, module, cfg, records, *, driver=None, jobs=8, parallel=True,
                 sample_n=2, growth=False, **kw):
        """Validate records with a trace spec; merge verdicts.
        growth=True: the part covers behaviour OUTSIDE the listed property (specification growth).  Its rejections are
        reported as 'OUTSIDE-PROPERTY' notes in the output and the evidence, never as a violation of this property."""
        if not records:
            raise MachineryError(f'{name}: no records')
        if parallel and len(records) > 1:
            verdicts, res = tlc.validate_trace_parallel(module, cfg, records, jobs=jobs, tag=name, **kw)
        else:
            verdicts, res = tlc.validate_trace(module, cfg, records, tag=name, **kw)
        nfail = 0
        for rec, v in zip(records, verdicts):
            self.evaluations += 1
            skip = v.get('skip', '')
            if skip:
                self.skips[skip] = self.skips.get(skip, 0) + 1
                continue
            if v.get('nt'):
                self.nt_keys.add(f"{name}:{rec.get('key', rec['id'])}")
            failed = v.get('failed', [])
            if failed and growth:
                nfail += 1
                self.growth_findings.append(dict(check=name, clause=failed[0], fp=rec.get('fp', ''), kind=rec.get('kind', '')))
            elif failed:
                nfail += 1
                self.violations.append(dict(check=name, clause=failed[0], clauses=failed,
                                            fp=rec.get('fp', ''), case=rec.get('case'),
                                            driver=driver, module=module, cfg=cfg,
                                            detail=v.get('detail', ''), record_id=rec['id'],
                                            kind=rec.get('kind', '')))
        self.traces += len(records)
        for rec in records[:sample_n]:
            self.samples.append(_shorten(dict(part=name, record=rec)))
        self.parts.append(dict(part=name, kind='V', module=module, records=len(records),
                               rejected=nfail, tlc_states=res.states, wall_s=round(res.wall, 1),
                               **({'outside_property': True} if growth else {})))
        return verdicts

    def add_violation(self, check, clause, fp, detail, case=None, driver=None):
        self.violations.append(dict(check=check, clause=clause, clauses=[clause], fp=fp, case=case,
                                    driver=driver, detail=detail))

    # ---- finish ------------------------------------------------------------
    def _is_known(self, v):
        """A rejected record is a known finding only if EVERY failed clause is covered by a listed finding
        (same check, clause, fingerprint pattern); one uncovered clause makes it a violation."""
        hit = None
        for cl in v.get('clauses', [v['clause']]):
            found = None
            for k in self.known:
                if k.get('check') and k['check'] != v['check']:
                    continue
                if k.get('clause') and k['clause'] != cl:
                    continue
                if k.get('fp') and not re.search(k['fp'], v.get('fp', '')):
                    continue
                found = k
                break
            if found is None:
                return None
            hit = hit or found
        return hit

    def finish(self):
        wall = time.time() - self.t0
        OUT = os.environ.get('VERIF_OUT') or VERIF       # scratch runs against a mutated copy write elsewhere
        rdir = os.path.join(OUT, 'replays', self.pid)
        unknown = []
        seen_known = {}
        for v in self.violations:
            k = self._is_known(v)
            if k is not None:
                seen_known.setdefault(k['what'], 0)
                seen_known[k['what']] += 1
            else:
                unknown.append(v)
        for k in self.known:
            n = seen_known.get(k['what'], 0)
            print(f'KNOWN-FINDING: property={self.pid} {k["what"]} ({n} records in this run)')
        lines = []
        if unknown:
            os.makedirs(rdir, exist_ok=True)
            # one replay file per distinct (check, clause, fp); cap the output
            groups = {}
            for v in unknown:
                groups.setdefault((v['check'], v['clause'], v.get('fp', '')), []).append(v)
            for i, ((c, cl, fp), vs) in enumerate(sorted(groups.items(), key=lambda kv: str(kv[0]))):
                path = os.path.join('replays', self.pid, f'{self.tier}_{i}.json')
                json.dump(dict(property=self.pid, check=c, clause=cl, fp=fp, count=len(vs),
                               first=vs[0]), open(os.path.join(OUT, path), 'w'), indent=1,
                          default=str)
                lines.append(f'VIOLATION property={self.pid} replay={path}')
                print(f'  [{c}] clause={cl} fp={fp} count={len(vs)} detail={str(vs[0].get("detail"))[:200]}')
        gg = {}
        for g in self.growth_findings:
            gg.setdefault((g['check'], g['clause'], g['fp']), 0)
            gg[(g['check'], g['clause'], g['fp'])] += 1
        for (c, cl, fp), n in sorted(gg.items()):
            print(f'OUTSIDE-PROPERTY: part={c} clause={cl} fp={fp} count={n} (specification growth beyond {self.pid}; '
                  f'not a violation of {self.pid})')
        total_skips = sum(self.skips.values())
        cov = dict(
            evaluations=int(self.evaluations),
            distinct_nontrivial=len(self.nt_keys),
            rule=self.rule,
            samples=self.samples[:6],
            states=int(self.states),
            transitions=int(self.transitions),
            traces_validated_against_impl=int(self.traces),
            exhaustive=bool(self.exhaustive),
            skipped=self.skips,
            parts=self.parts,
            known_findings_seen=seen_known,
            outside_property_rejections=[dict(part=c, clause=cl, fp=fp, count=n) for (c, cl, fp), n in sorted(gg.items())],
            trusted_base=['TLC 1.8 + CommunityModules (Json, SequencesExt)', 'harness/enc.py encoders',
                          'harness/tlaparse.py', 'Python math/mpmath scalar kernels'],
        )
        cov.update(self.notes)
        ev = dict(property_id=self.pid, tier=self.tier, seed=int(self.seed), level=self.level,
                  coverage=cov, assumptions=self.assumptions, wall_s=round(wall, 2),
                  violations=len(unknown))
        os.makedirs(os.path.join(OUT, 'evidence'), exist_ok=True)
        json.dump(ev, open(os.path.join(OUT, 'evidence', f'{self.pid}.json'), 'w'), indent=1,
                  default=str)
        if self.evaluations and total_skips > 0.25 * self.evaluations:
            raise MachineryError(f'{total_skips} of {self.evaluations} records skipped: {self.skips}')
        for ln in lines:
            print(ln)
        print(f'{self.pid} {self.tier}: evaluations={self.evaluations} nontrivial={len(self.nt_keys)} '
              f'states={self.states} violations={len(unknown)} known={sum(seen_known.values())} '
              f'skips={self.skips} wall={wall:.1f}s')
        return 1 if unknown else 0


def _shorten(o, limit=600):
    s = json.dumps(o, default=str)
    if len(s) <= limit:
        return o
    return dict(truncated=s[:limit] + '...')


def binding_demo(check, name, module, cfg, record, corrupt, expect_clause, candidates=None):
    """Corrupt one field of an accepted record; the trace spec must reject it with expect_clause.
    `candidates` (optional list of records) are tried in turn when a record is unsuitable (already
    rejected, or the corruption does not touch a checked value); at least one must demonstrate the binding."""
    cands = [r for r in [record] + list(candidates or []) if r is not None]
    last = None
    for rec in cands[:6]:
        good, _ = tlc.validate_trace(module, cfg, [rec], tag='bind')
        if good[0].get('failed'):
            continue
        bad = corrupt(json.loads(json.dumps(rec)))
        v, _ = tlc.validate_trace(module, cfg, [bad], tag='bind')
        last = v[0]
        if expect_clause in v[0].get('failed', []):
            check.parts.append(dict(part=name, kind='binding-demo', rejected_with=expect_clause))
            return True
    if last is None and check.violations:
        # every candidate is already rejected (the tree violates the property): nothing accepted to corrupt;
        # the violations are reported, the demonstration is not needed to believe a rejection
        check.parts.append(dict(part=name, kind='binding-demo', skipped='no accepted record (violations reported)'))
        return False
    raise MachineryError(f'binding demonstration {name}: no corrupted record was rejected with '
                         f'{expect_clause}: {last}')


def tlc_dump_states(module, cfg, *, workers=4, cache=None, timeout=3600):
    """Run an exhaustive instance with -dump and return (list of state dicts, TlcResult).
    With `cache` (a path under build/), reuse the parsed states if present (the instance is
    independent of /repo); the TlcResult is then None."""
    from . import tlaparse
    if cache and os.path.exists(cache):
        return json.load(open(cache)), None
    d = tempfile.mkdtemp(prefix='dump_')
    try:
        path = os.path.join(d, 'states.dump')
        res = tlc.run_tlc(module, cfg, workers=workers, extra=['-dump', path], timeout=timeout)
        if res.violated:
            raise MachineryError(f'{module}/{cfg} violates {res.violated}\n{res.stdout[-2000:]}')
        states = list(tlaparse.parse_dump(path))
        if cache:
            os.makedirs(os.path.dirname(cache), exist_ok=True)
            json.dump(states, open(cache, 'w'))
        return states, res
    finally:
        shutil.rmtree(d, ignore_errors=True)


def replay_generic(path):
    """Re-run the driver case stored in a replay file and validate the resulting records."""
    rp = json.load(open(path))
    v = rp['first']
    recs = run_driver(v['driver'], tier='quick', seed=0, case=v['case'])
    verdicts, _ = tlc.validate_trace(v['module'], v['cfg'], recs, tag='replay')
    bad = 0
    for r, ver in zip(recs, verdicts):
        print(json.dumps(dict(kind=r.get('kind'), fp=r.get('fp'), verdict=ver))[:1000])
        if ver.get('failed'):
            bad += 1
            print(f'VIOLATION property={rp["property"]} replay={path}')
    return 1 if bad else 0


def tlc_simulate(module, cfg, *, num, depth, seed, timeout=600):
    """Random behaviours of a specification (TLC -simulate); returns a list of behaviours, each a
    list of (action_label, state_dict)."""
    import glob
    from . import tlaparse
    d = tempfile.mkdtemp(prefix='sim_')
    try:
        res = tlc.run_tlc(module, cfg, workers=1, extra=['-simulate', f'file={d}/b,num={num}', '-depth', str(depth),
                                                         '-seed', str(seed)], timeout=timeout)
        if res.violated:
            raise MachineryError(f'{module}/{cfg} violates {res.violated} in simulation\n{res.stdout[-2000:]}')
        out = []
        for f in sorted(glob.glob(f'{d}/b_*')):
            out.append(tlaparse.parse_sim_file(f))
        return out
    finally:
        shutil.rmtree(d, ignore_errors=True)


def run_cases(module, tier, seed, args):
    """Ask a driver module for its case list (runs under the repository interpreter)."""
    d = tempfile.mkdtemp(prefix='cases_')
    try:
        out = os.path.join(d, 'cases.json')
        code = ('import json,sys,importlib; m=importlib.import_module("harness.drivers.%s"); '
                'json.dump(m.cases(%r,%d,json.loads(%r)), open(%r,"w"))' % (module, tier, seed, json.dumps(args), out))
        env = dict(os.environ, PYTHONPATH=f'{REPO}:{VERIF}', PYTHONHASHSEED='0', PYTHONWARNINGS='ignore')
        env[GUARD] = '1'
        p = subprocess.run([PY, '-c', code], cwd=VERIF, env=env, stdout=subprocess.PIPE, stderr=subprocess.STDOUT, text=True)
        if p.returncode:
            raise MachineryError(p.stdout[-3000:])
        return json.load(open(out))
    finally:
        shutil.rmtree(d, ignore_errors=True)
