"""Driver for si_sdr / input_sxr / output_sxr / set_snr (C19)."""
import itertools

import numpy as np

from harness import enc

from pb_bss.evaluation import module_si_sdr, sxr_module


def _call(fn, *a, **kw):
    try:
        return fn(*a, **kw), ''
    except Exception as e:
        return None, type(e).__name__


def cases(tier, seed, args):
    rng = np.random.default_rng(seed + 19)
    q = tier == 'quick'
    out = []
    for i in range(60 if q else 600):
        out.append(dict(t='sisdr', T=int(rng.choice([8, 16, 33, 64] if q else [8, 16, 33, 64, 100])), lead=int(rng.integers(1, 4)),
                        seed=int(rng.integers(1 << 30)), scale=float(10.0 ** rng.integers(-6, 7)),
                        scale_ref=float(10.0 ** rng.integers(-6, 7))))
    for i in range(4 if q else 20):
        out.append(dict(t='sisdr', T=4096, lead=1, seed=int(rng.integers(1 << 30)), scale=1.0, scale_ref=1.0, small=True))
    for i in range(16 if q else 120):
        # near-perfect estimates (true SI-SDR 90 .. 150 dB)
        out.append(dict(t='sisdr_hi', T=int(rng.choice([8, 16, 33, 64])), lead=int(rng.integers(1, 4)), seed=int(rng.integers(1 << 30)),
                        gain=int(10 ** int(rng.integers(4, 8)) * rng.choice([1, 3, -2])), scale=float(10.0 ** rng.integers(-6, 7)),
                        scale_ref=float(10.0 ** rng.integers(-6, 7))))
    for i in range(80 if q else 800):
        K = int(rng.integers(1, 5))
        out.append(dict(t='input', K=K, D=int(rng.integers(1, 6)), T=int(rng.choice([8, 16, 40, 64])),
                        seed=int(rng.integers(1 << 30)), avg_src=bool(i % 2), avg_ch=bool((i // 2) % 2),
                        ci=float(10.0 ** rng.integers(-6, 7)) if i % 3 else 1.0,
                        cn=float(10.0 ** rng.integers(-6, 7)) if i % 3 == 1 else None,
                        zero_noise=bool(i % 17 == 0)))
    for i in range(12 if q else 80):
        # very high ratios between images and noise (SDR, SNR of 120 .. 200 dB): identities must hold to rounding
        out.append(dict(t='input', K=1 + i % 3, D=int(rng.integers(1, 4)), T=int(rng.choice([16, 40])), seed=int(rng.integers(1 << 30)),
                        avg_src=False, avg_ch=bool(i % 2), ci=float(10.0 ** rng.integers(6, 10)), cn=float(10.0 ** rng.integers(-3, 1)),
                        zero_noise=False, loud_first=bool(i % 3 != 0)))
    for i in range(100 if q else 1000):
        K = int(rng.integers(1, 5))
        Kt = int(rng.integers(K, 6))
        out.append(dict(t='output', K=K, Kt=Kt, T=int(rng.choice([8, 16, 40, 64])), seed=int(rng.integers(1 << 30)),
                        avg_src=bool(i % 2), ci=float(10.0 ** rng.integers(-6, 7)) if i % 3 else 1.0,
                        cn=float(10.0 ** rng.integers(-6, 7)) if i % 3 == 1 else None,
                        permute=bool(i % 4 != 0), regime=['dominant', 'mixed', 'dominant', 'shared'][(i // 4) % 4]))
    for i in range(20 if q else 200):
        out.append(dict(t='snr', T=int(rng.integers(8, 200)), D=int(rng.integers(1, 5)), seed=int(rng.integers(1 << 30)),
                        snr=float(rng.uniform(-30, 40)), inplace=bool(i % 2), current=['none', 'keyword', 'positional', 'keyword'][(i // 2) % 4]))
    for fn in ('input', 'output'):
        for rd in ('false', 'true', 'prefix'):
            for avg in (True, False):
                out.append(dict(t='container', fn=fn, rd=rd, prefix='p_' if rd == 'prefix' else '', avg=avg,
                                seed=int(rng.integers(1 << 30))))
        # any string is a prefix: no / several trailing underscores, other separators, a single letter
        for j, pfx in enumerate(['in', 'mix__', 'a.b/', 'x', '_', 'input_']):
            out.append(dict(t='container', fn=fn, rd='prefix', prefix=pfx, avg=bool(j % 2), seed=int(rng.integers(1 << 30))))
    # a batch in which one estimate is digital silence (that row is 0 / 0; every other row is an ordinary problem)
    for i in range(4 if q else 16):
        out.append(dict(t='sisdr', T=int(rng.choice([8, 16, 33])), lead=2 + i % 3, seed=int(rng.integers(1 << 30)), scale=1.0, scale_ref=1.0, zero_row=int(i % 2)))
    # estimates exactly orthogonal to their reference (disjoint supports): the ratio is 0, the SI-SDR minus infinity
    for i in range(4 if q else 16):
        out.append(dict(t='sisdr', T=int(rng.choice([8, 16, 33])), lead=int(rng.integers(1, 4)), seed=int(rng.integers(1 << 30)), scale=[1.0, 1e-3, 1e6, 1.0][i % 4],
                        scale_ref=1.0, orth=True))
    return out


def _lin(x):
    """dB -> linear ratio as Flt (the one trusted scalar step of this driver)."""
    with np.errstate(all='ignore'):
        return np.power(10.0, np.asarray(x, dtype=float) / 10.0)


def _mat(x, rows, cols):
    x = np.asarray(_lin(x), dtype=float).reshape(rows, cols)
    return enc.aflt(x)


def run_case(case):
    rng = np.random.default_rng(case['seed'])
    t = case['t']
    if t == 'sisdr':
        T, L = case['T'], case['lead']
        hi = 2 if case.get('small') else 6
        ref = rng.integers(-hi, hi + 1, size=(L, T))
        ref[:, 0] = np.where(np.abs(ref).sum(-1) == 0, 1, ref[:, 0])
        # gain of either polarity: the optimal scaling alpha = <s, s_hat> / <s, s> carries the sign
        est = ref * rng.choice([1, 2, -1, -2, 1, 2], size=(L, 1)) + rng.integers(-hi, hi + 1, size=(L, T))
        if case.get('orth'):
            half = T // 2
            ref[:, half:] = 0
            ref[:, 0] = np.where(ref[:, 0] == 0, 1, ref[:, 0])
            est = rng.integers(-hi, hi + 1, size=(L, T))
            est[:, :half] = 0
            est[:, -1] = np.where(est[:, -1] == 0, 1, est[:, -1])
        if case.get('zero_row') is not None:
            est[case['zero_row']] = 0
        e, r = est * case['scale'], ref * case['scale_ref']
        d0 = (enc.digest(e), enc.digest(r))
        out, exc = _call(module_si_sdr.si_sdr, r.astype(np.float64), e.astype(np.float64))
        return [dict(kind='sisdr', est=enc.aint(est), ref=enc.aint(ref), exc=exc,
                     out=[] if out is None else enc.aflt(_lin(np.atleast_1d(out))),
                     fp='fn=si_sdr' + (';orthogonal' if case.get('orth') else '') + (';silent_row' if case.get('zero_row') is not None else ''), key=f'sisdr:{case["seed"]}')]
    if t == 'sisdr_hi':
        T, L = case['T'], case['lead']
        ref = rng.integers(-6, 7, size=(L, T))
        ref[:, 0] = np.where(np.abs(ref).sum(-1) == 0, 1, ref[:, 0])
        res = rng.integers(-3, 4, size=(L, T))
        G = int(case['gain'])
        est = (ref.astype(np.float64) * G + res) * case['scale']       # exact in double precision (|values| < 2^53)
        r_ = ref.astype(np.float64) * case['scale_ref']
        out, exc = _call(module_si_sdr.si_sdr, r_, est)
        return [dict(kind='sisdr_hi', ref=enc.aint(ref), res=enc.aint(res), gain=[G] * L, exc=exc,
                     out=[] if out is None else enc.aflt(_lin(np.atleast_1d(out))),
                     fp=f'fn=si_sdr;near_perfect;gain={G:g}', key=f'sisdrhi:{case["seed"]}')]
    if t == 'input':
        K, D, T = case['K'], case['D'], case['T']
        im = rng.integers(-5, 6, size=(K, D, T))
        im[:, :, 0] = np.where(np.abs(im).sum(-1) == 0, 1, im[:, :, 0])
        no = rng.integers(-3, 4, size=(D, T))
        if case['zero_noise']:
            no[:] = 0
        ci = case['ci']
        cn = case['cn'] if case['cn'] is not None else ci
        res, exc = _call(sxr_module.input_sxr, im * ci, no * cn, average_sources=case['avg_src'],
                         average_channels=case['avg_ch'])
        rows = 1 if case['avg_src'] else K
        cols = 1 if case['avg_ch'] else D
        o = {}
        if res is not None:
            o = dict(sdr=_mat(res.sdr, rows, cols), sir=_mat(res.sir, rows, cols), snr=_mat(res.snr, rows, cols))
        return [dict(kind='input', images=enc.aint(im), noise=enc.aint(no), gi=enc.flt(ci * ci), gn=enc.flt(cn * cn),
                     avg_src=case['avg_src'], avg_ch=case['avg_ch'], exc=exc, out=o,
                     fp=f'fn=input_sxr;avg_src={case["avg_src"]};avg_ch={case["avg_ch"]}', key=f'in:{case["seed"]}')]
    if t == 'output':
        K, Kt, T = case['K'], case['Kt'], case['T']
        # each source dominant in one output; outputs optionally permuted
        tgt = rng.permutation(Kt)[:K] if case['permute'] else np.arange(K)
        im = rng.integers(-1, 2, size=(K, Kt, T))
        for k in range(K):
            im[k, tgt[k]] = rng.integers(-6, 7, size=T)
            im[k, tgt[k], 0] = 6
        regime = case.get('regime', 'dominant')
        if regime == 'mixed':          # no structure: the best selection is whatever the exhaustive search finds
            im = rng.integers(-4, 5, size=(K, Kt, T))
        elif regime == 'shared' and K >= 2:
            # one strong source leaks into several outputs while the others are captured by one output only:
            # taking the largest entries first is not optimal
            im = rng.integers(-1, 2, size=(K, Kt, T))
            im[0] = rng.integers(-6, 7, size=(Kt, T))
            im[0, :, 0] = 6
            for k in range(1, K):
                im[k, tgt[k]] = rng.integers(-5, 6, size=T)
                im[k, tgt[k], 0] = 5
        no = rng.integers(-2, 3, size=(Kt, T))
        ci = case['ci']
        cn = case['cn'] if case['cn'] is not None else ci
        res, exc = _call(sxr_module.output_sxr, im * ci, no * cn, average_sources=case['avg_src'])
        rows = 1 if case['avg_src'] else K
        o = {}
        if res is not None:
            o = dict(sdr=_mat(res.sdr, rows, 1), sir=_mat(res.sir, rows, 1), snr=_mat(res.snr, rows, 1))
        return [dict(kind='output', images=enc.aint(im), noise=enc.aint(no), gi=enc.flt(ci * ci), gn=enc.flt(cn * cn),
                     avg_src=case['avg_src'], exc=exc, out=o,
                     fp=f'fn=output_sxr;avg_src={case["avg_src"]};permute={case["permute"]};regime={regime}', key=f'out:{case["seed"]}')]
    if t == 'snr':
        D, T = case['D'], case['T']
        X = rng.normal(size=(D, T))
        N = rng.normal(size=(D, T)) * 10.0 ** rng.uniform(-3, 3)
        lay = ['C', 'strided', 'T', 'C'][case['seed'] % 4]
        if lay == 'strided':
            big = np.zeros((D, 2 * T))
            N_ = big[:, ::2]
            N_[...] = N
            N = N_
        elif lay == 'T':
            N = np.ascontiguousarray(N.T).T          # a transposed (T, D) buffer
        x0 = enc.digest(X)
        kw = {}
        mode = case.get('current', 'none')
        if mode != 'none':
            # the caller supplies the current SNR (as get_snr reports it) instead of letting set_snr measure it
            cur = sxr_module.get_snr(X, N)
            kw = dict(current_snr=cur)
        if case['inplace']:
            r, exc = _call(sxr_module.set_snr, X, N, case['snr'], **kw) if mode != 'positional' else \
                _call(sxr_module.set_snr, X, N, case['snr'], kw['current_snr'])
            N2 = N
        else:
            r, exc = _call(sxr_module.set_snr, X, N, case['snr'], inplace=False, **kw)
            N2 = None if r is None else r[1]
        got = None
        if exc == '':
            got, exc = _call(sxr_module.get_snr, X, N2)
        return [dict(kind='snr', want=enc.flt(case['snr']), got=enc.flt(got if got is not None else np.nan), exc=exc,
                     x_same=enc.digest(X) == x0, fp=f'fn=set_snr;inplace={case["inplace"]};current={mode};layout={lay}', key=f'snr:{case["seed"]}')]
    if t == 'container':
        K, D, T = 2, 2, 16
        rd = {'false': False, 'true': True, 'prefix': case['prefix']}[case['rd']]
        if case['fn'] == 'input':
            res, exc = _call(sxr_module.input_sxr, rng.normal(size=(K, D, T)), rng.normal(size=(D, T)),
                             average_sources=case['avg'], return_dict=rd)
        else:
            res, exc = _call(sxr_module.output_sxr, rng.normal(size=(K, K, T)), rng.normal(size=(K, T)),
                             average_sources=case['avg'], return_dict=rd)
        typ = 'dict' if isinstance(res, dict) else 'tuple'
        keys = sorted(res.keys()) if isinstance(res, dict) else []
        # the values behind the (prefixed) keys sdr / sir / snr are the tuple result of the same call, in that order
        rng2 = np.random.default_rng(case['seed'])
        if case['fn'] == 'input':
            ref, _ = _call(sxr_module.input_sxr, rng2.normal(size=(K, D, T)), rng2.normal(size=(D, T)), average_sources=case['avg'])
        else:
            ref, _ = _call(sxr_module.output_sxr, rng2.normal(size=(K, K, T)), rng2.normal(size=(K, T)), average_sources=case['avg'])
        same = True
        if isinstance(res, dict) and ref is not None:
            pfx = case['prefix'] if case['rd'] == 'prefix' else ''
            same = all(pfx + k in res and np.array_equal(np.asarray(res[pfx + k]), np.asarray(v), equal_nan=True)
                       for k, v in zip(('sdr', 'sir', 'snr'), tuple(ref)))
        return [dict(kind='container', rd=case['rd'], prefix=case['prefix'], type=typ, keys=keys, exc=exc, values_same=bool(same),
                     fp=f'fn={case["fn"]}_sxr;return_dict={case["rd"]}', key=f'cont:{case["fn"]}:{case["rd"]}:{case["avg"]}:{case["prefix"]}')]
    raise ValueError(t)
