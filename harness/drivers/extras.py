"""Driver for spec/Extras.tla (growth beyond the listed properties): the Dirichlet-prior weight estimator,
math.solve.stable_solve and get_mvdr_vector_merl.  No decisions here: inputs and the code's answers are recorded,
TLC (Trace_Extras) evaluates every relation."""
from fractions import Fraction

import numpy as np

from harness import enc
from harness.drivers.mmlib import call

from pb_bss.distribution import mixture_model_utils as mmu
from pb_bss.math.solve import stable_solve
from pb_bss.extraction import beamformer as bf


def cases(tier, seed, args):
    rng = np.random.default_rng(seed + 4711)
    q = tier == 'quick'
    out = []
    what = args.get('what')
    if what:
        return [c for c in cases(tier, seed, {}) if (c['t'] == 'dirichlet') == (what == 'dirichlet')]
    alphas = [[1, 1], [3, 2], [2, 1], [5, 1], [100, 1], [1, 0]]
    for i in range(36 if q else 240):
        out.append(dict(t='dirichlet', K=int(rng.integers(2, 5)), T=int(rng.integers(1, 9)), alpha=alphas[i % 6],
                        axis=['tuple', 'tuple', 'tuple', 'int', 'class'][i % 5] if i % 6 in (0, 5) else 'tuple',
                        den=[4, 8, 16][i % 3], lead=int((i // 6) % 2), seed=int(rng.integers(1 << 30))))
    for i in range(40 if q else 300):
        out.append(dict(t='solve', D=[2, 3, 2, 3, 1][i % 5], L=int(rng.integers(1, 5)),
                        sing=['none', 'one', 'all', 'one', 'zero', 'mixed'][i % 6], rhs=['vec', 'mat'][(i // 6) % 2],
                        dtypes=['cc', 'rc', 'cr', 'rr'][(i // 3) % 4], lead2=bool(i % 7 == 3), seed=int(rng.integers(1 << 30))))
    for i in range(16 if q else 120):
        out.append(dict(t='merl', D=[2, 3, 4][i % 3], F=int(rng.integers(1, 5)), cond=float(10.0 ** rng.integers(0, 5)),
                        lead=bool(i % 4 == 3), seed=int(rng.integers(1 << 30))))
    return out


def _gamma(rng, K, T, den):
    """posteriors on the lattice k/den whose columns sum to one"""
    g = np.zeros((K, T), dtype=int)
    for t in range(T):
        cuts = np.sort(rng.integers(0, den + 1, size=K - 1))
        g[:, t] = np.diff(np.concatenate([[0], cuts, [den]]))
    return g


def _singular(rng, D, how):
    """Gaussian-integer D x D matrix whose LU factorisation meets an exact zero pivot, with a null basis"""
    def gi(size):
        return rng.integers(-3, 4, size=size) + 1j * rng.integers(-3, 4, size=size)
    if how == 'zero' or D == 1:
        return np.zeros((D, D), dtype=complex), [list(np.eye(D)[i]) for i in range(D)]
    while True:
        A = gi((D, D))
        if D == 2:
            A[1] = A[0] * [1, 2, -1, 1j][int(rng.integers(4))]
            rank = 1 if np.any(A[0] != 0) else 0
        else:
            if how == 'rank1':
                A[1] = A[0] * 2
                A[2] = -A[0]
                rank = 1 if np.any(A[0] != 0) else 0
            else:
                A[2] = A[int(rng.integers(2))]
                rank = int(np.linalg.matrix_rank(A))
        if rank != (1 if (D == 2 or how == 'rank1') else 2):
            continue
        # exact null basis over the Gaussian rationals (fraction-free elimination on small integers)
        Z = _null_basis(A)
        if Z is not None and len(Z) == D - rank:
            return A, Z


def _null_basis(A):
    """null basis over the Gaussian rationals by exact elimination, scaled to Gaussian integers (TLC re-checks it)"""
    from harness.drivers.beam import CQ, _common_den
    n = len(A)
    M = [[CQ(int(z.real), int(z.imag)) for z in row] for row in A]
    piv, r = [], 0
    for c in range(n):
        p = next((k for k in range(r, n) if not M[k][c].iszero()), None)
        if p is None:
            continue
        M[r], M[p] = M[p], M[r]
        M[r] = [x / M[r][c] for x in M[r]]
        for k in range(n):
            if k != r and not M[k][c].iszero():
                f = M[k][c]
                M[k] = [M[k][m] - f * M[r][m] for m in range(n)]
        piv.append(c)
        r += 1
    out = []
    for fc in [c for c in range(n) if c not in piv]:
        v = [CQ(0)] * n
        v[fc] = CQ(1)
        for row, c in enumerate(piv):
            v[c] = CQ(0) - M[row][fc]
        den = _common_den(v)
        vals = [complex(int(z.re * den), int(z.im * den)) for z in v]
        if max(max(abs(z.real), abs(z.imag)) for z in vals) > 1 << 12:
            return None
        out.append(vals)
    return out


def run_case(case):
    t = case['t']
    rng = np.random.default_rng(case['seed'])
    if t == 'dirichlet':
        K, T, den = case['K'], case['T'], case['den']
        g = _gamma(rng, K, T, den)
        aff = g / den
        if case['lead']:
            aff = np.stack([aff, aff[::-1]])          # a leading independent axis; the first member is recorded
        al = case['alpha']
        alpha = np.inf if al[1] == 0 else al[0] / al[1]
        axis = {'tuple': (-1,), 'int': -1, 'class': -2}[case['axis']]
        before = aff.copy()
        out, exc = call(mmu._estimate_mixture_weight_with_dirichlet_prior_concentration, aff, weight_constant_axis=axis,
                        dirichlet_prior_concentration=alpha)
        if not np.array_equal(before, aff):
            exc = 'InputMutated'
        o = None
        if out is not None:
            o = np.asarray(out)
            if case['lead'] and o.ndim == 3:
                o = o[0]
        return [dict(kind='dirichlet', gamma=[[[int(x), den] for x in row] for row in g], alpha=al, exc=exc,
                     uniform_axis=case['axis'] == 'class',
                     shape=[] if o is None else [int(s) for s in o.shape],
                     out=[] if o is None else [enc.rat(v, max_den=1 << 12) for v in np.asarray(o, dtype=float).ravel()],
                     fp=f't=dirichlet;alpha={al[0]}/{al[1]};axis={case["axis"]};lead={case["lead"]}')]
    if t == 'solve':
        D, L = case['D'], case['L']
        items = []
        for i in range(L):
            sing = {'none': False, 'one': i == L - 1, 'all': True, 'zero': i == 0, 'mixed': i % 2 == 0}[case['sing']]
            if sing:
                how = 'zero' if case['sing'] == 'zero' else ['dup', 'rank1'][int(rng.integers(2))]
                A, Z = _singular(rng, D, how)
            else:
                while True:
                    A = rng.integers(-3, 4, size=(D, D)) + 1j * rng.integers(-3, 4, size=(D, D))
                    if abs(np.linalg.det(A)) > 0.5:
                        break
                Z = []
            if case['dtypes'][0] == 'r':
                A = A.real + 0j
                if sing:
                    got = _null_basis(A)
                    if got is None:
                        continue
                    Z = got
                elif abs(np.linalg.det(A)) < 0.5:
                    A = A + 4 * np.eye(D)
                    if abs(np.linalg.det(A)) < 0.5:
                        continue
            items.append((A, Z))
        if not items:
            return []
        L = len(items)
        ncol = 1 if case['rhs'] == 'vec' else 2
        B = rng.integers(-4, 5, size=(L, D, ncol)) + 1j * rng.integers(-4, 5, size=(L, D, ncol))
        if case['dtypes'][1] == 'r':
            B = B.real + 0j
        A = np.stack([x[0] for x in items])
        Ain = A.real.astype(float) if case['dtypes'][0] == 'r' else A.astype(complex)
        Bin = B.real.astype(float) if case['dtypes'][1] == 'r' else B.astype(complex)
        if case['lead2']:
            Ain, Bin = Ain[None], Bin[None]
        a0, b0 = Ain.copy(), Bin.copy()
        out, exc = call(stable_solve, Ain, Bin)
        if not (np.array_equal(a0, Ain) and np.array_equal(b0, Bin)):
            exc = 'InputMutated'
        its = []
        shape_ok = dtype_ok = False
        if out is not None:
            o = np.asarray(out)
            shape_ok = bool(o.shape == Bin.shape)
            dtype_ok = bool(o.dtype == np.result_type(Ain, Bin))
            if shape_ok:
                if case['lead2']:
                    o = o[0]
                for i in range(L):
                    _, e1 = call(np.linalg.solve, Ain.reshape(L, D, D)[i], Bin.reshape(L, D, ncol)[i])
                    for c in range(ncol):
                        its.append(dict(detected=e1 == 'LinAlgError', A=enc.acint(A[i]), b=enc.acint(B[i, :, c]), Z=[enc.acint(np.asarray(z)) for z in items[i][1]],
                                        x=enc.azflt(o[i, :, c])))
        return [dict(kind='solve', items=its, exc=exc, shape_ok=shape_ok, dtype_ok=dtype_ok,
                     fp=f't=solve;D={D};sing={case["sing"]};rhs={case["rhs"]};dtypes={case["dtypes"]};lead2={case["lead2"]}')]
    if t == 'merl':
        D, F = case['D'], case['F']
        a = rng.standard_normal((F, D)) + 1j * rng.standard_normal((F, D))
        phin = []
        for f in range(F):
            q, _ = np.linalg.qr(rng.standard_normal((D, D)) + 1j * rng.standard_normal((D, D)))
            ev = np.geomspace(1.0, case['cond'], D)
            phin.append((q * ev) @ q.conj().T)
        phin = np.stack(phin)
        phin = (phin + phin.conj().transpose(0, 2, 1)) / 2
        phix = np.einsum('fd,fe->fde', a, a.conj())
        xin, nin = (phix[None], phin[None]) if case['lead'] else (phix, phin)
        x0, n0 = xin.copy(), nin.copy()
        w, exc = call(bf.get_mvdr_vector_merl, xin, nin)
        if not (np.array_equal(x0, xin) and np.array_equal(n0, nin)):
            exc = 'InputMutated'
        cands = []
        for c in range(D):
            wc, e2 = call(bf.get_mvdr_vector_souden, phix, phin, ref_channel=c)
            if wc is None:
                exc = exc or ('Souden' + e2)
                break
            cands.append([enc.azflt(wc[f]) for f in range(F)])
        its = []
        if w is not None:
            w = np.asarray(w)
            if case['lead'] and w.ndim == 3:
                w = w[0]
            if w.shape != (F, D):
                exc = exc or 'ShapeMismatch'
            else:
                its = [dict(phin=enc.azflt(phin[f]), a=enc.azflt(a[f]), w=enc.azflt(w[f])) for f in range(F)]
        return [dict(kind='merl', items=its, cands=cands, exc=exc, fp=f't=merl;D={D};lead={case["lead"]}')]
    raise ValueError(t)
