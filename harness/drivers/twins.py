"""Driver for the relational properties of the mixture models: C04 (gains), C05 (class relabelling),
C06 (leading axes).  Every record holds two canonicalised models; TLC decides the relation."""
import itertools

import numpy as np

from harness import enc
from harness.drivers import mmlib as ml
from harness.drivers.mmlib import call

import pb_bss.distribution as pd
from pb_bss.distribution.complex_angular_central_gaussian import (ComplexAngularCentralGaussian,
                                                                   ComplexAngularCentralGaussianTrainer)
from pb_bss.distribution.complex_watson import ComplexWatson, ComplexWatsonTrainer
from pb_bss.distribution.complex_bingham import ComplexBingham, ComplexBinghamTrainer
from pb_bss.distribution.von_mises_fisher import VonMisesFisher, VonMisesFisherTrainer
from pb_bss.distribution.gaussian import GaussianTrainer
from pb_bss.distribution.complex_circular_symmetric_gaussian import ComplexCircularSymmetricGaussianTrainer

STD_WCA = {0: [(-1,), -1, (-2,), -2], 1: [(-1,), (-3,), (-3, -1), -2, (-3, -2, -1)]}


def cases(tier, seed, args):
    prop = args['prop']
    rng = np.random.default_rng(seed + sum(map(ord, prop)))
    q = tier == 'quick'
    out = []
    if prop == 'C04':
        for i in range(42 if q else 420):
            kind = ml.KINDS[i % 7]
            nlead = 1 if kind in ml.INTEGRATION else int(rng.integers(0, 2))
            wcas = [(-1,), (-3,), (-3, -1)] if kind in ml.INTEGRATION else STD_WCA[nlead]
            out.append(dict(t='gain_mm', kind=kind, L=[int(rng.integers(2, 4))] * nlead, K=int(rng.integers(2, 4)),
                            D=int(rng.integers(2, 5)), N=int(rng.integers(12, 28)), wca=wcas[int(rng.integers(len(wcas)))],
                            iterations=int(rng.integers(1, 5)), seed=int(rng.integers(1 << 30)),
                            decades=int([100, 30, 0, 150 if not q else 100][(i // 7) % 4]), predict=bool(i % 2),
                            reuse=bool(i % 3 == 0), dim_given=bool(i % 5 == 0), saliency=bool(i % 4 == 1)))
        for i in range(10 if q else 60):
            kind = ['cwmm', 'cacgmm', 'cbmm', 'cwmm', 'vmfcacgmm'][i % 5]
            nlead = 1 if kind in ml.INTEGRATION else int(i % 2)
            out.append(dict(t='gain_mm', kind=kind, L=[2] * nlead, K=2, D=int(rng.integers(2, 4)), N=int(rng.integers(14, 24)),
                            wca=(-1,), iterations=int(rng.integers(1, 4)), seed=int(rng.integers(1 << 30)), decades=20, predict=True,
                            reuse=False, dim_given=False, saliency=False, single_precision=True))
        for i in range(24 if q else 200):
            out.append(dict(t='gain_dist', dist=['cacg', 'watson', 'bingham', 'vmf'][i % 4], fn=['log_pdf', 'fit'][(i // 4) % 2],
                            L=[int(rng.integers(1, 3))] * int(rng.integers(0, 2)), K=int(rng.integers(2, 4)),
                            D=int(rng.integers(2, 5)), N=int(rng.integers(8, 20)), seed=int(rng.integers(1 << 30)),
                            decades=int([100, 20, 0][(i // 8) % 3])))
        # unit-norm samples of which a few keep their level (gain 1, -1, j) while the others are rescaled
        for i in range(8 if q else 48):
            out.append(dict(t='gain_dist', dist=['watson', 'cacg', 'bingham', 'vmf'][i % 4], fn=['log_pdf', 'fit'][(i // 4) % 2],
                            L=[[], [2]][(i // 2) % 2], K=int(rng.integers(2, 4)), D=int(rng.integers(2, 5)), N=int(rng.integers(8, 20)),
                            seed=int(rng.integers(1 << 30)), decades=[3, 20][i % 2], unit_some=True))
    if prop == 'C05':
        for i in range(42 if q else 420):
            kind = ml.KINDS[i % 7]
            nlead = 1 if kind in ml.INTEGRATION else int(rng.integers(0, 2))
            wcas = [(-1,), (-3,), (-3, -1), (-3, -2, -1)] if kind in ml.INTEGRATION else STD_WCA[nlead]
            K = int(rng.integers(2, 5))
            out.append(dict(t='perm_mm', kind=kind, L=[int(rng.integers(2, 4))] * nlead, K=K,
                            D=int(rng.integers(2, 5)), N=int(rng.integers(12, 28)), wca=wcas[int(rng.integers(len(wcas)))],
                            iterations=[1, 3, 5 if q else 20][i % 3], seed=int(rng.integers(1 << 30)),
                            sam=bool(kind == 'cacgmm' and i % 2), saliency=bool(i % 4 == 1),
                            regime=['regular', 'separable', 'badscale'][i % 3]))
    if prop == 'C05':
        # nearly (not exactly) tied classes in the initial affiliation; integration models with the built-in alignment, K = 4
        for i in range(6 if q else 40):
            kind = ['cbmm', 'cacgmm', 'cwmm'][i % 3]
            out.append(dict(t='perm_mm', kind=kind, L=[2] if i % 2 else [], K=3, D=int(rng.integers(2, 4)), N=int(rng.integers(60, 90)),
                            wca=(-1,), iterations=[2, 3][i % 2], seed=int(rng.integers(1 << 30)), sam=False, saliency=False,
                            regime='neartie'))
        for i in range(4 if q else 24):
            kind = ['gcacgmm', 'vmfcacgmm'][i % 2]
            out.append(dict(t='perm_mm', kind=kind, L=[2], K=4, D=int(rng.integers(4, 6)), N=int(rng.integers(24, 36)),
                            wca=(-1,), iterations=[2, 3][(i // 2) % 2], seed=int(rng.integers(1 << 30)), sam=False, saliency=False,
                            regime='regular', inline_pa=True))
        for i in range(4 if q else 24):
            out.append(dict(t='perm_mm', kind='gmm', L=[], K=2, D=2 + i % 2, N=60, wca=(-1,), iterations=[3, 5][i % 2],
                            seed=int(rng.integers(1 << 30)), sam=False, saliency=False, regime='badscale'))
        # a class that the activity mask switches off everywhere (not the last class); exactly tied classes
        for i in range(8 if q else 48):
            if i % 2 == 0:
                out.append(dict(t='perm_mm', kind='cacgmm', L=[2] if i % 4 else [], K=3 + (i // 4) % 2, D=3, N=int(rng.integers(16, 24)), wca=(-1,),
                                iterations=[1, 2, 3][i % 3], seed=int(rng.integers(1 << 30)), sam=True, sam_silent=int((i // 2) % 2), saliency=False,
                                regime='regular'))
            else:
                kind = ['gcacgmm', 'cacgmm', 'vmfcacgmm', 'gmm'][(i // 2) % 4]
                out.append(dict(t='perm_mm', kind=kind, L=[2] if kind in ml.INTEGRATION else [], K=3, D=3, N=int(rng.integers(16, 24)), wca=(-1,),
                                iterations=[1, 3, 10][(i // 2) % 3], seed=int(rng.integers(1 << 30)), sam=False, saliency=False, regime='exacttie'))
        # more than 8192 time-frequency points in one integration-model fit (only the parameters are compared)
        for i in range(2 if q else 6):
            out.append(dict(t='perm_mm', kind=['vmfcacgmm', 'gcacgmm'][i % 2], L=[[40], [33], [70]][i % 3], K=2 + (i // 2) % 2, D=3, N=[256, 300, 130][i % 3], wca=(-1,),
                            iterations=2, seed=int(rng.integers(1 << 30)), sam=False, saliency=False, regime='regular', params_only=True))
        # frequency permutation problem solved inside EM (inline aligner): disjoint activities, two classes exchanged in two bins
        for i in range(4 if q else 16):
            out.append(dict(t='perm_mm', kind=['cacgmm', 'cwmm', 'cacgmm', 'cbmm'][i % 4], L=[7], K=3 + (i // 4) % 2, D=[4, 3, 4, 3][i % 4], N=60, wca=[(-3,), (-3, -1)][i % 2],
                            iterations=[2, 3, 5, 2][i % 4], seed=int(rng.integers(1 << 30)), sam=False, saliency=False, regime='regular',
                            pa_struct=True))
        # very tight directional classes: several classes are clipped to the same concentration limit (bit-identical values)
        for i in range(4 if q else 16):
            kind = ['vmfmm', 'vmfcacgmm'][i % 2]
            out.append(dict(t='perm_mm', kind=kind, L=[2] if kind in ml.INTEGRATION else [[], [2]][(i // 2) % 2], K=3, D=3, N=int(rng.integers(24, 36)), wca=(-1,),
                            iterations=[2, 3][i % 2], seed=int(rng.integers(1 << 30)), sam=False, saliency=False, regime='regular', tight=True))
        # hard start in which one class is empty (not the last one): its scatter is exactly zero in the first M-step
        for i in range(6 if q else 36):
            kind = ['cacgmm', 'gcacgmm', 'cacgmm', 'cacgmm', 'cacgmm', 'cwmm'][i % 6]   # (an empty vMF class has no mean: outside the domain)
            nlead = 1 if kind in ml.INTEGRATION else int(i % 2)
            out.append(dict(t='perm_mm', kind=kind, L=[2] * nlead, K=3 + (i // 6) % 2, D=3, N=int(rng.integers(16, 24)), wca=(-1,),
                            iterations=[1, 2, 3][i % 3], seed=int(rng.integers(1 << 30)), sam=False, saliency=False, regime='regular',
                            empty_class=int(i % 2)))
        # more long cWMM runs on overlapping classes (label dependent stopping rules show in a minority of runs only)
        for i in range(12 if q else 60):
            out.append(dict(t='perm_mm', kind='cwmm', L=[], K=3, D=3, N=int(rng.integers(36, 60)), wca=(-1,), iterations=20,
                            seed=int(rng.integers(1 << 30)), sam=False, saliency=False, regime='overlap',
                            spread=[0.5, 0.35, 0.7, 0.45][i % 4]))
        # boolean / integer initial masks that are not exact partitions
        for i in range(7 if q else 42):
            kind = ml.KINDS[i % 7]
            nlead = 1 if kind in ml.INTEGRATION else int(i % 2)
            out.append(dict(t='perm_mm', kind=kind, L=[2] * nlead, K=3, D=3, N=int(rng.integers(16, 26)), wca=(-1,),
                            iterations=[1, 2][i % 2], seed=int(rng.integers(1 << 30)), sam=False, saliency=False, regime='regular',
                            init_dtype=['bool', 'int64', 'float32'][(i // 7) % 3]))
        # long runs on overlapping classes (EM slows down / plateaus within the budget), K >= 3
        for i in range(6 if q else 36):
            kind = ['cwmm', 'cacgmm', 'cwmm', 'gmm', 'cwmm', 'vmfmm'][i % 6]
            out.append(dict(t='perm_mm', kind=kind, L=[], K=3 + (i // 6) % 2, D=3, N=int(rng.integers(45, 70)), wca=(-1,),
                            iterations=[20, 10, 14][i % 3], seed=int(rng.integers(1 << 30)), sam=False, saliency=False,
                            regime='overlap', spread=[0.5, 0.35, 0.7][(i // 2) % 3]))
        # source-activity masks with observations where no class is active and TIED activity counts between classes
        for i in range(4 if q else 24):
            out.append(dict(t='perm_mm', kind='cacgmm', L=[2] if i % 2 else [], K=3 + i % 2, D=3, N=int(rng.integers(18, 30)), wca=(-1,),
                            iterations=[2, 3, 5][i % 3], seed=int(rng.integers(1 << 30)), sam=True, sam_tie=True, saliency=False,
                            regime='regular'))
    if prop == 'C06':
        for i in range(40 if q else 400):
            kind = ['cacgmm', 'cwmm', 'cbmm', 'gmm', 'vmfmm'][i % 5]
            nlead = int(rng.integers(1, 3 if q else 4))
            out.append(dict(t='stack_mm', kind=kind, L=[int(rng.integers(1, 4 if q else 6)) for _ in range(nlead)],
                            K=int(rng.integers(2, 4)), D=int(rng.integers(2, 4)), N=int(rng.integers(10, 20)),
                            iterations=int(rng.integers(1, 4)), seed=int(rng.integers(1 << 30)),
                            covariance_type=['full', 'diagonal', 'spherical'][(i // 5) % 3],
                            singleton_init=bool(i % 4 == 3), degenerate_slice=bool(i % 6 == 5),
                            covariance_norm=['eigenvalue', 'trace', 'none'][(i // 5) % 3], rank_deficient=bool((i // 5) % 2)))
            if out[-1]['singleton_init'] and kind == 'cacgmm':
                out[-1]['L'] = [2, 3] if i % 8 == 7 else [int(rng.integers(2, 4)), int(rng.integers(2, 4))]
        for i in range(3 if q else 12):
            out.append(dict(t='stack_mm', kind='cacgmm', L=[2, 3], K=2, D=3, N=12, iterations=1 + i % 3,
                            seed=int(rng.integers(1 << 30)), covariance_type='full', singleton_init=True,
                            degenerate_slice=False))
        for i in range(48 if q else 400):
            nlead = int(rng.integers(1, 3))
            out.append(dict(t='stack_dist', dist=['gauss_full', 'gauss_diagonal', 'gauss_spherical', 'cgauss', 'vmf', 'watson', 'cacg', 'bingham'][i % 8],
                            fn=['fit', 'log_pdf'][(i // 8) % 2], L=[int(rng.integers(1, 4)) for _ in range(nlead)],
                            D=int(rng.integers(2, 4)), N=int(rng.integers(8, 16)), seed=int(rng.integers(1 << 30)),
                            saliency=bool(i % 3 == 0), degenerate_slice=bool(i % 7 == 6)))
    if prop == 'C06':
        # nearly tied slices (Bingham solver with a coarse duplicate threshold; also for the other trainers)
        for i in range(4 if q else 24):
            out.append(dict(t='stack_dist', dist=['bingham', 'bingham', 'watson', 'cacg'][i % 4], fn=['fit', 'log_pdf'][(i // 4) % 2],
                            L=[int(rng.integers(2, 4))], D=int(rng.integers(2, 4)), N=int(rng.integers(8, 16)),
                            seed=int(rng.integers(1 << 30)), saliency=bool(i % 3 == 0), degenerate_slice=False, near_dup=True))
        # long iteration budgets on slices that converge at different speeds; slices on very different scales; a silent frame
        for i in range(8 if q else 48):
            kind = ['gmm', 'cwmm', 'gmm', 'vmfmm', 'cacgmm', 'gmm', 'cacgmm', 'cwmm'][i % 8]
            out.append(dict(t='stack_mm', kind=kind, L=[2 + i % 2], K=2 + (i // 4) % 2, D=2 + i % 2, N=int(rng.integers(30, 50)),
                            iterations=[60, 100, 40, 80][i % 4] if i % 8 < 4 else int(rng.integers(2, 5)), seed=2 * int(rng.integers(1 << 29)),
                            covariance_type=['full', 'diagonal', 'spherical'][i % 3], singleton_init=False, degenerate_slice=False,
                            covariance_norm='eigenvalue', rank_deficient=False, saliency=False, mixed_speed=bool(i % 8 < 4),
                            zero_obs=bool(i % 8 in (4, 6)), outlier_slice=bool(i % 8 in (5, 7))))
        # user saliency per observation; the number of slices equals the number of classes (shape coincidences)
        for i in range(10 if q else 60):
            kind = ['gmm', 'vmfmm', 'cwmm', 'cacgmm', 'cbmm'][i % 5]
            K = 2 + (i // 5) % 2
            out.append(dict(t='stack_mm', kind=kind, L=[[K], [1, K], [K, K]][(i // 10) % 3] if not q else [[K], [K]][i % 2], K=K, D=int(rng.integers(2, 4)),
                            N=int(rng.integers(10, 16)), iterations=int(rng.integers(1, 3)), seed=2 * int(rng.integers(1 << 29)),
                            covariance_type=['full', 'diagonal', 'spherical'][i % 3], singleton_init=False, degenerate_slice=False,
                            covariance_norm='eigenvalue', rank_deficient=False, saliency=True))
        # univariate Gaussians (D = 1) in stacks; stacks with one degenerate member next to regular ones
        for i in range(12 if q else 60):
            out.append(dict(t='stack_dist', dist=['gauss_full', 'gauss_diagonal', 'gauss_spherical'][i % 3], fn=['fit', 'log_pdf'][(i // 3) % 2],
                            L=[[3], [2, 2], [4]][(i // 6) % 3], D=1 if i < 6 or i % 2 else 2, N=int(rng.integers(8, 16)), seed=2 * int(rng.integers(1 << 29)),
                            saliency=bool(i % 4 == 0), degenerate_slice=False, degenerate_member=bool(i >= 6), layout='C'))
        # stacks with more than 16 members / concentrations in one call (vectorised look-ups over the whole stack)
        for i in range(6 if q else 24):
            out.append(dict(t='stack_dist', dist=['watson', 'vmf', 'bingham'][i % 3], fn=['fit', 'log_pdf'][(i // 3) % 2], L=[[4, 5], [3, 3, 2], [18]][i % 3],
                            D=int(rng.integers(2, 4)), N=int(rng.integers(8, 16)), seed=2 * int(rng.integers(1 << 29)), saliency=bool(i % 2),
                            degenerate_slice=False))
        for i in range(3 if q else 12):
            out.append(dict(t='stack_mm', kind=['cwmm', 'vmfmm', 'cwmm'][i % 3], L=[[3, 3], [9], [2, 5]][i % 3], K=2, D=3, N=int(rng.integers(12, 20)),
                            iterations=1 + i % 2, seed=2 * int(rng.integers(1 << 29)), covariance_type='full', singleton_init=False,
                            degenerate_slice=False, covariance_norm='eigenvalue', rank_deficient=False, saliency=bool(i % 2)))
        # one slice whose observations are almost (1e-6) of unit norm next to slices on other levels
        for i in range(6 if q else 24):
            out.append(dict(t='stack_dist', dist=['watson', 'vmf', 'watson', 'bingham', 'cacg', 'watson'][i % 6], fn=['log_pdf', 'fit'][i % 2], L=[[2], [3], [2, 2]][i % 3],
                            D=int(rng.integers(2, 4)), N=int(rng.integers(8, 16)), seed=2 * int(rng.integers(1 << 29)), saliency=False,
                            degenerate_slice=False, near_unit=True, layout='C'))
        for i in range(3 if q else 12):
            out.append(dict(t='stack_mm', kind=['cwmm', 'vmfmm', 'cacgmm'][i % 3], L=[[2], [3]][i % 2], K=2, D=3, N=int(rng.integers(12, 20)),
                            iterations=1 + i % 2, seed=2 * int(rng.integers(1 << 29)), covariance_type='full', singleton_init=False,
                            degenerate_slice=False, covariance_norm='eigenvalue', rank_deficient=False, saliency=False, near_unit=True))
        # the per-slice tying written with a non-negative axis index (the positive counterpart of -1), one to three leading axes
        for i in range(6 if q else 24):
            out.append(dict(t='stack_mm', kind=['cacgmm', 'cwmm', 'gmm', 'cacgmm', 'vmfmm', 'cbmm'][i % 6], L=[[2, 3], [3], [2, 2], [2, 2, 2]][i % 4], K=2 + i % 2, D=3,
                            N=int(rng.integers(10, 16)), iterations=1 + i % 2, seed=2 * int(rng.integers(1 << 29)), covariance_type='full',
                            singleton_init=False, degenerate_slice=False, covariance_norm='eigenvalue', rank_deficient=False, saliency=bool(i % 2),
                            wca_pos=['tuple', 'list', 'int'][i % 3]))
        # cACG fixed-point iteration: every normalisation x several iteration counts on stacks of different slices
        for i in range(6 if q else 36):
            out.append(dict(t='stack_dist', dist='cacg', fn=['fit', 'log_pdf'][i % 2], L=[[2], [3], [2, 2]][(i // 2) % 3],
                            D=int(rng.integers(2, 4)), N=int(rng.integers(8, 16)), seed=2 * int(rng.integers(1 << 29)), saliency=False,
                            degenerate_slice=False, cacg_norm=['none', 'trace', 'eigenvalue'][(i // 2) % 3], cacg_iterations=[3, 5, 8][i % 3]))
        # two genuine leading axes in Fortran-ordered buffers (C and Fortran order of the parameter arrays differ)
        for i in range(8 if q else 32):
            out.append(dict(t='stack_dist', dist=['gauss_spherical', 'gauss_diagonal', 'gauss_full', 'vmf'][i % 4], fn=['fit', 'log_pdf'][(i // 4) % 2],
                            L=[[2, 3], [3, 2]][(i // 8) % 2], D=int(rng.integers(2, 4)), N=int(rng.integers(8, 16)),
                            seed=int(rng.integers(1 << 30)), saliency=bool(i % 3 == 0), degenerate_slice=False, layout='F'))
        # stack_parameters: the stacked model indexed at i equals the i-th input model (and dict round trips)
        for i in range(8 if q else 40):
            out.append(dict(t='stack_params', kind=['cacgmm', 'cwmm', 'vmfmm'][i % 3], n=int(rng.integers(2, 4)),
                            K=int(rng.integers(2, 4)), D=int(rng.integers(2, 4)), N=int(rng.integers(10, 16)), seed=int(rng.integers(1 << 30))))
    return out


# ---------------------------------------------------------------------------
def _gains(rng, shape, decades, real_positive=False):
    if decades == 0:
        # gains within 1e-5 of one (an 'already normalised' shortcut must not exist)
        mag = 1.0 + 9e-6 * rng.uniform(-1, 1, size=shape)
        return mag if real_positive else mag * np.exp(2j * np.pi * rng.random(shape))
    mag = 10.0 ** rng.uniform(-decades, decades, size=shape)
    if real_positive:
        return mag
    return mag * np.exp(2j * np.pi * rng.random(shape))


def _opts(case, rng, L, N, kind):
    wca = case.get('wca', (-1,))
    opts = dict(weight_constant_axis=tuple(wca) if isinstance(wca, (list, tuple)) else int(wca))
    if case.get('saliency'):
        opts['saliency'] = rng.uniform(0.2, 2.0, size=(*L, N))
    return opts


def _gain_mm(case):
    rng = np.random.default_rng(case['seed'])
    kind, L, K, D, N = case['kind'], case['L'], case['K'], case['D'], case['N']
    # the Bingham eigenvalue solver is ill-conditioned for sharply concentrated classes (1e-16 input changes move
    # eigenvalues of ~ -4e3 by 1e-3 relative): cBMM twins use regular data and a wider slack
    data = ml.make_data(rng, kind, L, K, D, N, regime='separable' if kind != 'cbmm' else 'regular')
    init = ml.make_init(rng, L, K, N)
    opts = _opts(case, rng, L, N, kind)
    real = kind in ('gmm', 'vmfmm')
    if kind == 'gmm':
        return []
    if case['decades'] == 0:
        data['y'] = ml.unit(data['y'])          # unit-norm observations: c*y stays within 1e-5 of the unit sphere
    c = _gains(rng, (*L, N, 1), case['decades'], real_positive=real)
    data_b = dict(data)
    data_b['y'] = data['y'] * c
    if kind == 'vmfcacgmm':
        data_b['emb'] = data['emb'] * _gains(rng, (*L, N, 1), 30, real_positive=True)
    tkw = {}
    if case.get('dim_given') and kind in ('cwmm', 'cbmm'):
        tkw['dimension'] = D
    single = bool(case.get('single_precision')) and not real
    if single:
        # single-precision complex observations (gains limited to 1e+-3): the same relation at float32 accuracy
        c = 10.0 ** rng.uniform(-3, 3, size=(*L, N, 1)) * np.exp(2j * np.pi * rng.random((*L, N, 1)))
        data = dict(data, y=data['y'].astype(np.complex64))
        data_b = dict(data_b, y=(data['y'].astype(np.complex128) * c).astype(np.complex64))
    trainer_b = ml.trainer_for(kind, **tkw)
    if case.get('reuse'):
        # history: the trainer used for run B has fitted other data before
        _cfit(kind, data, init, 1, opts, trainer=trainer_b)
    ma, ea = _cfit(kind, data, init, case['iterations'], opts)
    if ((case['seed'] // 3) % 2 or (kind in ml.INTEGRATION + ('cbmm', 'cwmm') and case['seed'] % 2)) and not single:
        # run B gets its observations as a permuted-axes view of a (D, ..., N) buffer (how STFT code usually hands them over)
        yv = data_b['y']
        if (case['seed'] // 2) % 2 and kind not in ml.INTEGRATION + ('cbmm',):
            data_b = dict(data_b, y=np.ascontiguousarray(np.moveaxis(yv, -1, 0)).transpose(*range(1, yv.ndim), 0))
        else:
            data_b = dict(data_b, y=np.asfortranarray(yv))       # e.g. a (D, T, F) STFT seen through .transpose(2, 1, 0)
    mb, eb = _cfit(kind, data_b, init, case['iterations'], opts, trainer=trainer_b)
    fp = f't=gain_mm;model={kind};wca={case["wca"]};reuse={case.get("reuse")};dim_given={case.get("dim_given")};single={single}'
    key = f'gain:{case["seed"]}'
    if ma is None or mb is None:
        return [ml.twin_record('same', None, None, kind=kind, wca=case['wca'], exc=(ea or eb), fp=fp, key=key)]
    pa, e1 = call(ml.predict, kind, ma, data)
    pb, e2 = call(ml.predict, kind, mb, data_b)
    A = ml.model_fields(kind, ma, posterior=pa)
    B = ml.model_fields(kind, mb, posterior=pb)
    rawA = ml.model_arrays(kind, ma, posterior=pa)
    rawB = ml.model_arrays(kind, mb, posterior=pb)
    if kind == 'cacgmm':
        la, e3 = call(ma.log_likelihood, data['y'])
        lb, e4 = call(mb.log_likelihood, data_b['y'])
        if la is not None and lb is not None:
            A.append(ml._field('log_likelihood', np.asarray(la).reshape(1)))
            B.append(ml._field('log_likelihood', np.asarray(lb).reshape(1)))
            rawA.append(np.asarray(la).reshape(1))
            rawB.append(np.asarray(lb).reshape(1))
    # fine residual bound: 2^-22 (2.4e-7) of |a|+|b|+floor; the Bingham solver is only reproducible to ~1e-3
    recs = [ml.twin_record('same', A, B, kind=kind, wca=case['wca'], exc=e1 or e2, fp=fp, key=key,
                           slack=2048 if kind == 'cbmm' else (1024 if single else 256),
                           fine=0 if single else (-8 if kind == 'cbmm' else -22),
                           raw=None if (pa is None or pb is None or single) else (rawA, rawB))]
    if pa is not None and not single:
        # the SAME fitted model evaluated on the original and on the scaled observations (no solver in between: the posteriors
        # agree to rounding), also with the scaled observations handed over as a transposed view / Fortran-ordered array
        yb = data_b['y']
        lay = ['C', 'view', 'F'][case['seed'] % 3] if kind not in ml.INTEGRATION else ['F', 'view'][case['seed'] % 2]
        if lay == 'view':
            yb = np.ascontiguousarray(np.moveaxis(yb, -1, 0)).transpose(*range(1, yb.ndim), 0)
        elif lay == 'F':
            yb = np.asfortranarray(yb)
        pa2, e6 = call(ml.predict, kind, ma, dict(data_b, y=yb))
        if pa2 is not None:
            recs.append(ml.twin_record('same', [ml._field('posterior', pa)], [ml._field('posterior', pa2)], kind=kind, wca=case['wca'],
                                       exc=e6, fp=fp + f';predict_only;layout={lay}', key=key + ':po', slack=256, fine=-26,
                                       raw=([np.asarray(pa)], [np.asarray(pa2)])))
        else:
            recs.append(ml.twin_record('same', None, None, kind=kind, wca=case['wca'], exc=e6, fp=fp + f';predict_only;layout={lay}', key=key + ':po'))
    if case['seed'] % 2 and pa is not None:
        # the one-call entry point: fit_predict on the scaled data against fit + predict on the original
        pfp, e5 = _cfit(kind, data_b, init, case['iterations'], opts, ml.trainer_for(kind, **tkw), True)
        if isinstance(pfp, tuple):
            pfp = pfp[-1]
        recs.append(ml.twin_record('same', [ml._field('posterior', pa)], [ml._field('posterior', pfp)] if pfp is not None else None,
                                   kind=kind, wca=case['wca'], exc=e5, fp=fp + ';fit_predict', key=key + ':fp',
                                   slack=2048 if kind == 'cbmm' else (1024 if single else 256)))
    return recs


def _dist(dist, rng, L, K, D):
    """random parameters (*L, K, ...) for a directional distribution"""
    def herm_pd():
        a = rng.normal(size=(*L, K, D, D)) + 1j * rng.normal(size=(*L, K, D, D))
        return a @ np.conj(np.swapaxes(a, -1, -2)) + 0.1 * np.eye(D)
    if dist == 'cacg':
        return ComplexAngularCentralGaussian.from_covariance(herm_pd())
    if dist == 'watson':
        m = ml.unit(rng.normal(size=(*L, K, D)) + 1j * rng.normal(size=(*L, K, D)))
        return ComplexWatson(mode=m, concentration=rng.uniform(0.5, 30, size=(*L, K)))
    if dist == 'bingham':
        c = herm_pd()
        lam, U = np.linalg.eigh(c)
        lam = lam - lam.max(-1, keepdims=True)
        return ComplexBingham(covariance_eigenvectors=U, covariance_eigenvalues=lam)
    if dist == 'vmf':
        return VonMisesFisher(mean=ml.unit(rng.normal(size=(*L, K, D))), concentration=rng.uniform(0.5, 30, size=(*L, K)))
    raise ValueError(dist)


def _gain_dist(case):
    rng = np.random.default_rng(case['seed'])
    dist, L, K, D, N = case['dist'], case['L'], case['K'], case['D'], case['N']
    real = dist == 'vmf'
    y = rng.normal(size=(*L, N, D)) if real else rng.normal(size=(*L, N, D)) + 1j * rng.normal(size=(*L, N, D))
    if case['decades'] == 0:
        y = ml.unit(y)
    c = _gains(rng, (*L, N, 1), case['decades'], real_positive=real)
    fp = f't=gain_dist;dist={dist};fn={case["fn"]}'
    if case.get('unit_some'):
        y = ml.unit(y)
        c[..., 0, :] = 1.0
        if not real:
            c[..., 1, :] = -1.0
            c[..., 2, :] = 1j
        fp += ';unit_some'
    key = f'gaind:{case["seed"]}'
    if case['fn'] == 'log_pdf':
        obj = _dist(dist, rng, L, K, D)
        la, e1 = call(obj.log_pdf, y[..., None, :, :])
        lb, e2 = call(obj.log_pdf, (y * c)[..., None, :, :])
        if la is None or lb is None:
            return [ml.twin_record('same', None, None, kind=dist, exc=e1 or e2, fp=fp, key=key)]
        # differences of the log-density between classes (class 0 as reference)
        A = [ml._field('log_pdf', la - la[..., :1, :])]
        B = [ml._field('log_pdf', lb - lb[..., :1, :])]
        return [ml.twin_record('same', A, B, kind=dist, fp=fp, key=key, fine=-22,
                               raw=([la - la[..., :1, :]], [lb - lb[..., :1, :]]))]
    tr = dict(cacg=ComplexAngularCentralGaussianTrainer, watson=ComplexWatsonTrainer, bingham=ComplexBinghamTrainer,
              vmf=VonMisesFisherTrainer)[dist]
    if dist == 'cacg' and L:
        L = []
        y, c = y[(0,) * len(case['L'])], c[(0,) * len(case['L'])]
    ma, e1 = call(tr().fit, y)
    mb, e2 = call(tr().fit, y * c)
    if ma is None or mb is None:
        return [ml.twin_record('same', None, None, kind=dist, exc=e1 or e2, fp=fp, key=key)]
    return [ml.twin_record('same', ml.dist_fields(ma), ml.dist_fields(mb), kind=dist, fp=fp, key=key,
                           fine=-8 if dist == 'bingham' else -22, raw=(ml.dist_arrays(ma), ml.dist_arrays(mb)))]


def _perm_mm(case):
    rng = np.random.default_rng(case['seed'])
    kind, L, K, D, N = case['kind'], case['L'], case['K'], case['D'], case['N']
    regime = case['regime']
    data = ml.make_data(rng, kind, L, K, D, N, regime='separable' if (regime not in ('regular', 'overlap', 'exacttie') and kind != 'cbmm') else 'regular')
    if regime == 'overlap':
        real = kind in ('gmm', 'vmfmm')
        proto = rng.normal(size=(K, D)) + (0 if real else 1j * rng.normal(size=(K, D)))
        labo = rng.integers(0, K, size=(*L, N))
        data['y'] = proto[labo] + case.get('spread', 0.5) * (rng.normal(size=(*L, N, D)) + (0 if real else 1j * rng.normal(size=(*L, N, D))))
    if regime == 'badscale' and kind == 'gmm':
        # one tight and one broad cluster: large log-pdf gaps between classes
        lab = rng.integers(0, K, size=(*L, N))
        scale = np.array([1e-2, 10.0, 1.0, 0.1])[:K]
        data['y'] = rng.normal(size=(*L, N, D)) * scale[lab][..., None] + np.arange(K)[lab][..., None] * 0.0
    init = ml.make_init(rng, L, K, N)
    if regime == 'badscale' and kind == 'gmm':
        init = 0.9 * np.moveaxis(np.eye(K)[lab], -1, -2) + 0.1 / K
        init = init / init.sum(-2, keepdims=True)
    if case.get('empty_class') is not None:
        lab_e = rng.integers(0, K - 1, size=(*L, N))
        lab_e = np.where(lab_e >= case['empty_class'], lab_e + 1, lab_e)       # no observation in class `empty_class`
        init = np.moveaxis(np.eye(K)[lab_e], -1, -2).copy()
    if case.get('init_dtype'):
        # hard masks that are not a partition: overlapping classes and observations without any class, given as bool / int
        hard = rng.random((*L, K, N)) < 0.45
        hard[..., 0] = True                  # observation 0: every class; observation 1: none
        hard[..., 1] = False
        for j, pair in enumerate(itertools.combinations(range(K), 2)):      # one observation per pair of classes
            if 2 + j < N:
                hard[..., 2 + j] = False
                hard[..., list(pair), 2 + j] = True
        init = hard.astype(case['init_dtype'])
    if regime == 'exacttie':
        init = ml.make_init(rng, L, K, N)
        init[..., 1, :] = init[..., 0, :]                # two classes start bit-identical
        init = init / init.sum(-2, keepdims=True)
    if regime == 'neartie':
        init = ml.make_init(rng, L, K, N)
        init[..., 1, :] = init[..., 0, :] * (1 + 1e-3 * rng.uniform(-1, 1, size=init[..., 0, :].shape))
        init = init / init.sum(-2, keepdims=True)
    if case.get('tight'):
        labt = rng.integers(0, K, size=(*L, N))
        labt[..., :K] = np.arange(K)
        key_ = 'emb' if kind in ml.INTEGRATION else 'y'
        E_ = data[key_].shape[-1]
        protos = ml.unit(rng.normal(size=(K, E_)))
        data[key_] = ml.unit(protos[labt] + 1e-3 * rng.normal(size=(*L, N, E_)))
        init = 0.9 * np.moveaxis(np.eye(K)[labt], -1, -2) + 0.1 / K
    opts = _opts(case, rng, L, N, kind)
    if case.get('pa_struct'):
        from pb_bss.permutation_alignment import DHTVPermutationAlignment
        F = L[0]
        act = np.zeros((K, N))
        for k in range(K):
            act[k, k * N // K:(k + 1) * N // K] = 1
        labp = np.argmax(act, axis=0)
        steer = rng.normal(size=(F, K, D)) + 1j * rng.normal(size=(F, K, D))
        data['y'] = steer[:, labp, :] * (rng.normal(size=(F, N, 1)) + 1j * rng.normal(size=(F, N, 1))) \
            + 0.1 * (rng.normal(size=(F, N, D)) + 1j * rng.normal(size=(F, N, D)))
        init = 0.8 * np.repeat(act[None], F, axis=0) + 0.1
        ex = list(range(K))
        ex[-1], ex[-2] = ex[-2], ex[-1]
        init[[2, 5]] = init[[2, 5]][:, ex]                # the last two classes are exchanged in two bins, class 0 is consistent
        init = init / init.sum(axis=1, keepdims=True)
        opts['inline_permutation_aligner'] = DHTVPermutationAlignment(
            stft_size=2 * (F - 1), segment_start=0, segment_width=F, segment_shift=1, main_iterations=5, sub_iterations=2,
            similarity_metric='cos')
    if case.get('inline_pa'):
        opts['inline_permutation_alignment'] = True
    sam = None
    if case.get('sam'):
        sam = rng.random((*L, K, N)) < 0.8
        sam[..., 0] = True
        sam[..., 1] = False            # an observation where no class is active
        if case.get('sam_silent') is not None:
            sam[..., case['sam_silent'], :] = False      # one class is switched off for every observation
            sam[..., 1] = sam[..., 1] | False
        if case.get('sam_tie'):
            # two classes share the largest activity count (the others are switched off on a few more observations)
            sam[..., :2, 2:] = True
            sam[..., 2:, 2:6] = False
            sam[..., 3] = False        # a second all-inactive observation
        opts['source_activity_mask'] = sam
    perms = list(itertools.permutations(range(K)))
    pi = list(perms[int(rng.integers(1, len(perms)))])
    # one trainer object for both runs (every other case): a trainer keeps no state between fits
    shared = ml.trainer_for(kind) if case['seed'] % 2 else None
    ma, ea = _cfit(kind, data, init, case['iterations'], opts, shared)
    opts_b = dict(opts)
    if sam is not None:
        opts_b['source_activity_mask'] = np.ascontiguousarray(sam[..., pi, :])
    init_b = np.ascontiguousarray(init[..., pi, :])
    if case.get('init_dtype'):
        init_b = init_b.astype(case['init_dtype'])
    mb, eb = _cfit(kind, data, init_b, case['iterations'], opts_b, shared)
    fp = f't=perm_mm;model={kind};wca={case["wca"]};it={case["iterations"]};sam={case.get("sam")};regime={regime};inline_pa={bool(case.get("inline_pa"))}' \
         f';shared_trainer={shared is not None};init_dtype={case.get("init_dtype")}' + (';inline_aligner' if case.get('pa_struct') else '') + (';tight' if case.get('tight') else '')
    key = f'perm:{case["seed"]}'
    if ma is None or mb is None:
        # a failure of only ONE of the two runs is label dependent behaviour
        both = ma is None and mb is None
        return [ml.twin_record('perm', None, None, kind=kind, wca=case['wca'], pi=pi,
                               exc='' if both else (ea or eb), exc_clause='label_dependent_failure', fp=fp, key=key)] if not both else []
    pa, e1 = call(ml.predict, kind, ma, data)
    pb, e2 = call(ml.predict, kind, mb, data)
    if case.get('params_only'):
        pa = pb = None
        e1 = e2 = ''
    A = ml.model_fields(kind, ma, posterior=pa)
    B = ml.model_fields(kind, mb, posterior=pb)
    raw = None if (pa is None or pb is None) else (ml.model_arrays(kind, ma, posterior=pa), ml.model_arrays(kind, mb, posterior=pb))
    amp = None
    if case['iterations'] > 3 and raw is not None:
        # rounding amplification of THIS run: the same labels, initialisation perturbed by one ulp (relative 2^-52)
        init_p = init * (1.0 + 2.0 ** -52 * rng.choice([-1.0, 1.0], size=init.shape))
        mp_, ep = _cfit(kind, data, init_p, case['iterations'], opts)
        pp, e3 = (None, '') if mp_ is None else call(ml.predict, kind, mp_, data)
        if pp is not None:
            amp = [float(np.max(np.abs(np.asarray(x) - np.asarray(y_))) if np.size(x) else 0.0)
                   for x, y_ in zip(raw[0], ml.model_arrays(kind, mp_, posterior=pp))]
    return [ml.twin_record('perm', A, B, kind=kind, wca=case['wca'], pi=pi, exc=e1 or e2, fp=fp, key=key,
                           slack=2048 if kind == 'cbmm' else 256, fine=0 if raw is None else (-18 if kind == 'cbmm' else -20), raw=raw, amp=amp)]


def _stack_mm(case):
    rng = np.random.default_rng(case['seed'])
    kind, L, K, D, N = case['kind'], case['L'], case['K'], case['D'], case['N']
    data = ml.make_data(rng, kind, L, K, D, N, regime='separable' if kind != 'cbmm' else 'regular')
    init = ml.make_init(rng, L, K, N)
    if case.get('degenerate_slice') and kind == 'vmfmm':
        # one slice / class whose observations coincide (mean resultant length exactly 1)
        idx = tuple(0 for _ in L)
        data['y'][idx] = data['y'][idx][:1]
    opts = dict(weight_constant_axis=(-1,))
    if kind == 'gmm':
        opts['covariance_type'] = case['covariance_type']
    if kind == 'cacgmm' and case.get('covariance_norm') is not None:
        opts['covariance_norm'] = {'eigenvalue': 'eigenvalue', 'trace': 'trace', 'none': False}[case['covariance_norm']]
    if case.get('rank_deficient') and kind == 'cacgmm':
        # one slice lives in a subspace (rank-deficient scatter: the eigenvalue floor becomes active there), the others
        # have a different scale of their largest eigenvalue
        idx = tuple(0 for _ in L)
        data['y'][idx][..., -1] = 0
        for j, ix in enumerate(np.ndindex(*L)):
            data['y'][ix] = data['y'][ix] * (1.0 + 0.5 * j)
    if case.get('mixed_speed'):
        # slices that converge at different speeds: the first well separated, the others overlapping clusters
        real = kind in ('gmm', 'vmfmm')
        for j, ix in enumerate(np.ndindex(*L)):
            if j == 0:
                continue
            proto = rng.normal(size=(K, D)) + (0 if real else 1j * rng.normal(size=(K, D)))
            labm = rng.integers(0, K, size=N)
            data['y'][ix] = proto[labm] + [0.6, 0.9][j % 2] * (rng.normal(size=(N, D)) + (0 if real else 1j * rng.normal(size=(N, D))))
    if case.get('near_unit'):
        f0 = tuple(0 for _ in L)
        data['y'][f0] = ml.unit(data['y'][f0]) * (1.0 + 1e-6 * rng.uniform(-1, 1, size=(N, 1)))
    if case.get('zero_obs') and kind == 'cacgmm':
        data['y'][tuple(0 for _ in L)][1] = 0            # one all-zero observation in one slice
    if case.get('outlier_slice'):
        data['y'][tuple(-1 for _ in L)] *= 60.0          # one slice on a very different scale
    sal = None
    if case.get('saliency') and kind not in ml.INTEGRATION:
        sal = rng.uniform(0.2, 2.0, size=(*L, N))          # one weight per observation, different in every slice
    init_arg = init
    if case.get('singleton_init') and kind == 'cacgmm' and len(L) >= 1:
        # singleton leading axes of the initial affiliation behave as if repeated
        shp = list(L[:-1]) + [1] if len(L) >= 2 else [1]
        init_s = ml.make_init(rng, shp, K, N)
        init_arg = init_s
        init = np.broadcast_to(init_s, (*L, K, N))
    data_s = data
    if case['seed'] % 2 and not case.get('singleton_init') and not case.get('degenerate_slice'):
        # the stacked call sees the same values in Fortran-ordered buffers (transposed views, loadmat output); the individual
        # calls below get plain C-ordered slices
        data_s = {k: np.asfortranarray(v) for k, v in data.items()}
        init_arg = np.asfortranarray(init_arg)
    opts_s = dict(opts)
    if case.get('wca_pos'):
        ax_s, ax_1 = len(L) + 1, 1
        mk = {'tuple': lambda a: (a,), 'list': lambda a: [a], 'int': lambda a: a}[case['wca_pos']]
        opts_s['weight_constant_axis'] = mk(ax_s)
        opts = dict(opts, weight_constant_axis=mk(ax_1))
    ms, es = _cfit(kind, data_s, init_arg, case['iterations'], dict(opts_s, **({'saliency': sal} if sal is not None else {})))
    fp = f't=stack_mm;model={kind};lead={len(L)};cov={case["covariance_type"] if kind == "gmm" else ""};' \
         f'singleton_init={bool(case.get("singleton_init"))};layout={"F" if data_s is not data else "C"};sal={sal is not None}' \
         + (f';wca_pos={case["wca_pos"]}' if case.get('wca_pos') else '')
    recs = []
    ps = None
    if ms is not None:
        ps, _ = call(ml.predict, kind, ms, data_s)
    idxs = list(np.ndindex(*L))
    rng.shuffle(idxs)
    first = tuple(0 for _ in L)
    idxs = [first] + [i for i in idxs if i != first]       # the special (degenerate / rank-deficient) slice is always compared
    for idx in idxs[:3]:
        d1 = {k: np.ascontiguousarray(v[idx]) for k, v in data.items()}
        opts1 = dict(opts, **({'saliency': np.ascontiguousarray(sal[idx])} if sal is not None else {}))
        m1, e1 = _cfit(kind, d1, np.ascontiguousarray(init[idx]), case['iterations'], opts1)
        key = f'stack:{case["seed"]}:{idx}'
        if m1 is None:
            continue                      # the slice alone fails as well: not a stacking issue
        if ms is None:
            recs.append(ml.twin_record('slice', None, None, kind=kind, exc=es, exc_clause='stack_raises', fp=fp, key=key))
            continue
        p1, _ = call(ml.predict, kind, m1, d1)
        A = ml.model_fields(kind, ms, posterior=ps)
        B = ml.model_fields(kind, m1, posterior=p1)
        raw, amp, fine = None, None, 0
        if ps is not None and p1 is not None:
            # same arithmetic per slice: fine residuals; tolerance widened only by the measured rounding amplification of this
            # slice (the same fit with data and initialisation moved by one ulp)
            raw = (ml.model_arrays(kind, ms, posterior=ps), ml.model_arrays(kind, m1, posterior=p1))
            dp = {k: ml.ulp_perturb(rng, v) for k, v in d1.items()}
            mp_, _ = _cfit(kind, dp, ml.ulp_perturb(rng, np.ascontiguousarray(init[idx])), case['iterations'], opts1)
            pp, _ = (None, '') if mp_ is None else call(ml.predict, kind, mp_, dp)
            if pp is not None:
                amp = ml.amp_of(raw[1], ml.model_arrays(kind, mp_, posterior=pp))
                fine = -30
        recs.append(ml.twin_record('slice', A, B, kind=kind, lead=[int(i) for i in idx], fp=fp, key=key,
                                   slack=2048 if kind == 'cbmm' else 256, fine=fine, raw=raw, amp=amp))
    return recs


def _stack_dist(case):
    rng = np.random.default_rng(case['seed'])
    dist, L, D, N = case['dist'], case['L'], case['D'], case['N']
    real = dist.startswith('gauss') or dist == 'vmf'
    y = rng.normal(size=(*L, N, D)) + (0 if real else 1j * rng.normal(size=(*L, N, D)))
    y = y * rng.uniform(0.5, 2, size=(*L, 1, D)) + (rng.normal(size=(*L, 1, D)) if real else 0)
    if case.get('degenerate_slice') and dist == 'vmf':
        y[tuple(0 for _ in L)] = y[tuple(0 for _ in L)][:1]
    if case.get('degenerate_member') and dist.startswith('gauss'):
        y[tuple(-1 for _ in L)] = y[tuple(-1 for _ in L)][:1]          # the last slice: all observations identical
    if case.get('near_dup'):
        # nearly (not exactly) tied slices: every slice is the first one moved by 1e-4 relative
        base = y[tuple(0 for _ in L)].copy()
        y = base + 1e-4 * y
    if case.get('near_unit'):
        f0 = tuple(0 for _ in L)
        y[f0] = ml.unit(y[f0] + 3.0 * y[f0][:1]) * (1.0 + 1e-6 * rng.uniform(-1, 1, size=(N, 1)))
    sal = rng.uniform(0.2, 2, size=(*L, N)) if case['saliency'] and dist != 'cacg' else None
    tr = dict(gauss_full=lambda: GaussianTrainer(), gauss_diagonal=lambda: GaussianTrainer(), gauss_spherical=lambda: GaussianTrainer(),
              cgauss=lambda: ComplexCircularSymmetricGaussianTrainer(), vmf=lambda: VonMisesFisherTrainer(),
              watson=lambda: ComplexWatsonTrainer(), cacg=lambda: ComplexAngularCentralGaussianTrainer(),
              bingham=lambda: ComplexBinghamTrainer(**({'eignevalue_eps': 1e-3} if case.get('near_dup') else {})))[dist]
    kw = {}
    if dist.startswith('gauss'):
        kw['covariance_type'] = dist.split('_')[1]
    if dist == 'cacg':
        kw['covariance_norm'] = ['eigenvalue', 'trace', False][case['seed'] % 3]
        kw['iterations'] = 1 + case['seed'] % 3
        if 'cacg_norm' in case:
            kw['covariance_norm'] = {'eigenvalue': 'eigenvalue', 'trace': 'trace', 'none': False}[case['cacg_norm']]
            kw['iterations'] = case['cacg_iterations']
        if case['seed'] % 2:
            y[tuple(0 for _ in L)][..., -1] = 0          # rank-deficient slice
            y = y * (1.0 + np.arange(int(np.prod(L))).reshape(*L, 1, 1))

    def fit(yy, ss):
        k2 = dict(kw)
        if dist != 'cacg':
            k2['saliency'] = ss
        return tr().fit(yy, **k2)
    lay = case.get('layout') or ('F' if case['seed'] % 2 else 'C')
    if case.get('degenerate_slice'):
        # exactly coinciding observations sit on a discontinuity of the estimator (mean resultant length exactly one): only
        # bit-identical arithmetic is comparable there, and a different memory order changes the summation order
        lay = 'C'
    fp = f't=stack_dist;dist={dist};fn={case["fn"]};lead={len(L)};layout={lay}'
    # layout F: the stacked call sees the same values in Fortran-ordered buffers, the individual calls C-ordered slices
    ms, es = call(fit, np.asfortranarray(y) if lay == 'F' else y, (np.asfortranarray(sal) if sal is not None else None) if lay == 'F' else sal)
    recs = []
    ls = None
    if case['fn'] == 'log_pdf' and ms is not None:
        yq = rng.normal(size=(*L, 5, D)) + (0 if real else 1j * rng.normal(size=(*L, 5, D)))
        if case.get('near_unit'):
            f0 = tuple(0 for _ in L)
            yq[f0] = ml.unit(yq[f0]) * (1.0 + 1e-6 * rng.uniform(-1, 1, size=(5, 1)))
        ls, el = call(ms.log_pdf, np.asfortranarray(yq) if lay == 'F' else yq)
    idxs = list(np.ndindex(*L))
    rng.shuffle(idxs)
    first = tuple(0 for _ in L)
    idxs = [first] + [i for i in idxs if i != first]
    if ms is None and case.get('degenerate_member'):
        # a stack that contains a slice which is rejected on its own is outside the property's domain: the stacked call may
        # reject it as a whole.  (If the stacked call succeeds, its regular slices are compared as usual.)
        alone = [call(fit, np.ascontiguousarray(y[i]), None if sal is None else np.ascontiguousarray(sal[i]))[0] for i in np.ndindex(*L)]
        if any(a is None for a in alone):
            return []
    for idx in idxs[:3]:
        m1, e1 = call(fit, np.ascontiguousarray(y[idx]), None if sal is None else np.ascontiguousarray(sal[idx]))
        key = f'stackd:{case["seed"]}:{idx}'
        if m1 is None:
            continue
        if ms is None:
            recs.append(ml.twin_record('slice', None, None, kind=dist, exc=es, exc_clause='stack_raises', fp=fp, key=key))
            continue
        yp = ml.ulp_perturb(rng, np.ascontiguousarray(y[idx]))
        m1p, _ = call(fit, yp, None if sal is None else np.ascontiguousarray(sal[idx]))
        if case['fn'] == 'fit':
            raw = (ml.dist_arrays(ms), ml.dist_arrays(m1))
            amp = None if m1p is None else ml.amp_of(raw[1], ml.dist_arrays(m1p))
            recs.append(ml.twin_record('slice', ml.dist_fields(ms), ml.dist_fields(m1), kind=dist,
                                       lead=[int(i) for i in idx], fp=fp, key=key, fine=-30 if amp is not None else 0, raw=raw, amp=amp))
        else:
            l1, e2 = call(m1.log_pdf, yq[idx])
            if l1 is None:
                continue
            if ls is None:
                recs.append(ml.twin_record('slice', None, None, kind=dist, exc=el, exc_clause='stack_raises', fp=fp, key=key))
                continue
            l1p, _ = (None, '') if m1p is None else call(m1p.log_pdf, yq[idx])
            amp = None if l1p is None else ml.amp_of([l1], [l1p])
            recs.append(ml.twin_record('slice', [ml._field('log_likelihood', ls)], [ml._field('log_likelihood', l1)],
                                       kind=dist, lead=[int(i) for i in idx], fp=fp, key=key, fine=-30 if amp is not None else 0,
                                       raw=([np.asarray(ls)], [np.asarray(l1)]), amp=amp))
    return recs


def _stack_params(case):
    from pb_bss.distribution.utils import stack_parameters
    rng = np.random.default_rng(case['seed'])
    kind, K, D, N = case['kind'], case['K'], case['D'], case['N']
    models = []
    for j in range(case['n']):
        data = ml.make_data(rng, kind, [], K, D, N, regime='separable')
        m, e = _cfit(kind, data, ml.make_init(rng, [], K, N), 2, {})
        if m is None:
            return []
        models.append(m)
    st, exc = call(stack_parameters, models)
    fp = f't=stack_params;model={kind}'
    recs = []
    if st is None:
        return [ml.twin_record('slice', None, None, kind=kind, exc=exc, exc_clause='stack_raises', fp=fp, key=f'sp:{case["seed"]}')]
    # dict round trip of the stacked model must reproduce it
    rt, e2 = call(lambda: type(st).from_dict({k: (type(getattr(st, k)).from_dict(v) if isinstance(v, dict) else v)
                                               for k, v in st.to_dict().items()}))
    A = ml.model_fields(kind, st)
    if rt is not None:
        recs.append(ml.twin_record('same', A, ml.model_fields(kind, rt), kind=kind, fp=fp + ';dict_round_trip', key=f'sp:{case["seed"]}:rt'))
    else:
        recs.append(ml.twin_record('same', None, None, kind=kind, exc=e2, exc_clause='dict_round_trip_raises', fp=fp, key=f'sp:{case["seed"]}:rt'))
    for j, m in enumerate(models):
        recs.append(ml.twin_record('slice', A, ml.model_fields(kind, m), kind=kind, lead=[j], fp=fp, key=f'sp:{case["seed"]}:{j}'))
    return recs


MUTATED = []


def _cfit(kind, data, init, iterations, opts=None, *a, **kw):
    """ml.fit with the caller's arrays snapshotted: a fit that writes into its inputs is recorded (and the inputs restored, so
    that the twin comparison - and the measured rounding amplification - still compare what they are meant to)"""
    held = [v for v in list(data.values()) + [init] + [(opts or {}).get(k) for k in ('saliency', 'source_activity_mask')]
            if isinstance(v, np.ndarray)]
    snaps = [v.copy() for v in held]
    res = call(ml.fit, kind, data, init, iterations, opts, *a, **kw)
    for v, c in zip(held, snaps):
        if not np.array_equal(v, c, equal_nan=True):
            MUTATED.append(f'model={kind}')
            try:
                v[...] = c
            except ValueError:
                pass
    return res


def run_case(case):
    del MUTATED[:]
    recs = _run_case(case)
    if MUTATED:
        recs.append(ml.twin_record('slice', None, None, kind=case.get('kind', 'gmm'), exc='InputMutated', exc_clause='input_untouched',
                                   fp=f't={case["t"]};{MUTATED[0]};input_mutated', key=f'mut:{case["seed"]}'))
    return recs


def _run_case(case):
    if case['t'] == 'stack_params':
        return _stack_params(case)
    return dict(gain_mm=_gain_mm, gain_dist=_gain_dist, perm_mm=_perm_mm, stack_mm=_stack_mm,
                stack_dist=_stack_dist)[case['t']](case)
