"""Driver for pb_bss.permutation_alignment (C14, C15, C16): runs the real code, logs records
for Trace_Align.tla.  No property is decided here."""
import itertools
from fractions import Fraction

import numpy as np

from harness import enc

import pb_bss.permutation_alignment as pa


def _rowids(*arrays):
    """Map identical rows (bytes of a[k, f, ...]) to the same small int across all arrays."""
    table = {}
    outs = []
    for a in arrays:
        a = np.asarray(a)
        K, F = a.shape[:2]
        o = [[0] * F for _ in range(K)]
        for k in range(K):
            for f in range(F):
                key = (str(a.dtype), np.ascontiguousarray(a[k, f]).tobytes())
                o[k][f] = table.setdefault(key, len(table))
        outs.append(o)
    return outs


def _call(fn, *a, **kw):
    try:
        return fn(*a, **kw), ''
    except Exception as e:  # the trace spec decides whether an exception is acceptable
        return None, type(e).__name__


# ---------------------------------------------------------------------------
def cases(tier, seed, args):
    prop = args.get('prop', 'C14')
    rng = np.random.default_rng(seed + 1000 * sum(map(ord, prop)))
    out = []
    q = tier == 'quick'
    if prop in ('C14', 'C15'):
        # float score matrices (assignf)
        n = 150 if q else 1500
        for i in range(n):
            K = int(rng.integers(1, 6 if q else 7))
            out.append(dict(t='assignf', K=K, seed=int(rng.integers(1 << 30)),
                            regime=['normal', 'offset', 'ties', 'scaled'][i % 4],
                            alg=['greedy', 'optimal'][(i // 4) % 2], batch=int(i % 3)))
        # integer matrices K 4..6 sampled
        n = 60 if q else 600
        for i in range(n):
            K = int(rng.integers(4, 6 if q else 7))
            out.append(dict(t='assign_rand', K=K, seed=int(rng.integers(1 << 30)),
                            hi=int(rng.integers(1, 6)), alg=['greedy', 'optimal'][i % 2]))
        # the top of the property's domain in every tier: K = 6 (720 permutations per matrix)
        for i in range(12 if q else 60):
            out.append(dict(t='assign_rand', K=6, seed=int(rng.integers(1 << 30)), hi=int(rng.choice([3, 9, 9, 20])),
                            alg=['optimal', 'optimal', 'greedy'][i % 3]))
    if prop == 'C14':
        for i in range(18 if q else 120):
            out.append(dict(t='inline_apply', K=[3, 4, 3, 2][i % 4], F=int(rng.choice([5, 9, 17, 33])), T=int(rng.integers(1, 12)) if i % 6 else 1,
                            seed=int(rng.integers(1 << 30)), aligner=['greedy', 'dhtv', 'dhtv'][i % 3],
                            metric=['cos', 'euclidean', 'cos'][(i // 3) % 3]))
        n = 120 if q else 1200
        for i in range(n):
            K = int(rng.integers(1, 7))
            F = int(rng.choice([1, 3, 5, 9, 17, 33] if q else [1, 3, 5, 9, 17, 33, 65, 129]))
            T = int(rng.integers(1, 12))
            out.append(dict(t='aligner', aligner=['dhtv', 'greedy', 'oracle', 'apply'][i % 4],
                            K=K, F=F, T=T, seed=int(rng.integers(1 << 30)),
                            regime=['float', 'const', 'zero', 'tied', 'int', 'unit', 'hugeclass'][(i // 4) % 7],
                            metric=['cos', 'euclidean', 'multiply'][(i // 20) % 3],
                            alg=['greedy', 'optimal'][(i // 60) % 2],
                            dtype=['float64', 'float32'][(i // 7) % 2]))
        # whole spectra: more than 256 bins
        for i in range(6 if q else 24):
            out.append(dict(t='aligner', aligner=['greedy', 'dhtv', 'oracle'][i % 3], K=2 + (i // 3) % 2, F=[257, 513, 301][(i // 3) % 3], T=int(rng.integers(3, 7)),
                            seed=int(rng.integers(1 << 30)), regime=['float', 'unit'][(i // 3) % 2], metric=['cos', 'euclidean', 'multiply'][(i // 2) % 3],
                            alg=['greedy', 'optimal'][i % 2], dtype='float64'))
    if prop == 'C15':
        n = 120 if q else 1500
        for i in range(n):
            K = int(rng.integers(2, 7))
            F = int(rng.choice([1, 3, 5, 9]))
            T = int(rng.integers(max(2, K), 12))
            out.append(dict(t='oracle_inv', K=K, F=F, T=T, seed=int(rng.integers(1 << 30)),
                            metric=['cos', 'euclidean', 'multiply'][i % 3],
                            alg=['greedy', 'optimal'][(i // 3) % 2],
                            glob=bool((i // 6) % 3 == 0),
                            regime=['normal', 'close', 'tiny', 'normal', 'rowtiny', 'offset'][(i // 18) % 6]))
        # more than 256 bins (block-wise score computations have a remainder there)
        for i in range(6 if q else 24):
            out.append(dict(t='oracle_inv', K=2 + i % 2, F=[257, 301, 513][i % 3], T=int(rng.integers(3, 6)), seed=int(rng.integers(1 << 30)),
                            metric=['euclidean', 'cos', 'multiply'][i % 3 if i >= 3 else 0], alg=['greedy', 'optimal'][(i // 3) % 2],
                            glob=False, regime='normal'))
        # signed references (real-valued features): in some bins one class row is a negative multiple of another
        for i in range(12 if q else 72):
            out.append(dict(t='oracle_inv', K=2 + i % 3, F=int(rng.choice([3, 5, 9])), T=int(rng.integers(4, 10)), seed=int(rng.integers(1 << 30)),
                            metric=['cos', 'multiply', 'euclidean'][i % 3], alg=['greedy', 'optimal'][(i // 3) % 2], glob=bool((i // 6) % 2),
                            regime='signed'))
    if prop == 'C16plan':
        mx = int(args.get('max_stft', 24))
        for stft in range(2, mx + 1):
            F = stft // 2 + 1
            for start in range(0, mx // 2 + 2):
                for width in range(1, mx // 2 + 2):
                    if start + width <= F:
                        for shift in range(1, width + 1):
                            out.append(dict(t='plan', stft=stft, start=start, width=width, shift=shift))
                    elif (start + width) % 5 == 0:
                        out.append(dict(t='plan', stft=stft, start=start, width=width, shift=1))
        out.append(dict(t='plan', stft=512, start=70, width=100, shift=20, main=20, sub=2))
        out.append(dict(t='plan', stft=1024, start=100, width=100, shift=20, main=20, sub=2))
        out.append(dict(t='plan', stft=512, default=True))
        out.append(dict(t='plan', stft=1024, default=True))
    if prop == 'dhtvx':
        # the instance MC_DHTV explores: K, NF, T, Vals, metrics, algs  (exhaustive)
        K, NF, T = args['K'], args['NF'], args['T']
        vals = args['vals']
        stride = int(args.get('stride', 1))
        n = 0
        for flat in itertools.product(vals, repeat=K * NF * T):
            m = np.array(flat).reshape(K, NF, T).tolist()
            for start in range(0, NF + 1):
                for width in range(1, NF + 1):
                    for shift in range(1, width + 1):
                        if start + width > NF:
                            continue
                        for metric in args['metrics']:
                            for alg in args['algs']:
                                n += 1
                                if n % stride:
                                    continue
                                out.append(dict(t='dhtvx', m=m, stft=2 * (NF - 1), start=start, width=width,
                                                shift=shift, main=2, sub=1, metric=metric, alg=alg))
    if prop == 'oraclex':
        K, NF, T = args['K'], args['NF'], args['T']
        vals = args['vals']
        rows = list(itertools.product(vals, repeat=T))
        perbin = [c for c in itertools.permutations(rows, K)]
        perms = list(itertools.permutations(range(K)))
        stride = int(args.get('stride', 1))
        n = 0
        for bins in itertools.product(perbin, repeat=NF):
            m = [[list(bins[f][k]) for f in range(NF)] for k in range(K)]
            for fld in itertools.product(perms, repeat=NF):
                field = [[fld[f][k] for f in range(NF)] for k in range(K)]
                for metric, alg in args['combos']:
                    n += 1
                    if n % stride:
                        continue
                    out.append(dict(t='oraclex', m=m, field=field, metric=metric, alg=alg))
    if prop == 'C16':
        n = 60 if q else 500
        for i in range(n):
            K = int(rng.integers(2, 5))
            F = int(rng.choice([9, 17, 33, 65] if q else [9, 17, 33, 65, 129, 257, 513]))
            T = int(rng.integers(8, 40))
            out.append(dict(t='consist', aligner=['greedy', 'dhtv', 'dhtv_default', 'identity'][i % 4],
                            K=K, F=F, T=T, seed=int(rng.integers(1 << 30)),
                            metric=['cos', 'euclidean', 'multiply'][(i // 4) % 3],
                            alg=['greedy', 'optimal'][(i // 12) % 2]))
        # jitter levels from 10 % down to nothing (adjacent bins nearly / exactly proportional), single precision
        for i in range(16 if q else 96):
            out.append(dict(t='consist', aligner=['greedy', 'dhtv', 'greedy', 'identity'][i % 4], K=int(rng.integers(2, 5)),
                            F=int(rng.choice([9, 17, 33])), T=int(rng.integers(8, 30)), seed=int(rng.integers(1 << 30)),
                            metric=['euclidean', 'cos', 'euclidean', 'multiply'][(i // 4) % 4], alg=['greedy', 'optimal'][(i // 8) % 2],
                            jitter=[1e-3, 1e-8, 0.0, 1e-6, 1e-10][i % 5], dtype=['float64', 'float32'][(i // 2) % 2]))
        # the top of the domain in every tier: F = 257 / 513 (the shipped DHTV defaults exist only there)
        for i in range(8 if q else 24):
            out.append(dict(t='consist', aligner=['greedy', 'dhtv_default', 'greedy', 'identity'][i % 4], K=int(rng.integers(2, 5)),
                            F=[257, 513][(i // 4) % 2], T=int(rng.integers(8, 20)), seed=int(rng.integers(1 << 30)),
                            metric=['cos', 'euclidean'][(i // 2) % 2], alg='greedy'))
    if prop == 'C16trace':
        for i in range(24 if q else 240):
            out.append(dict(t='dhtv_trace', K=int(rng.integers(1, 5)), F=int(rng.choice([1, 3, 5, 9, 13] if q else [1, 3, 5, 9, 17, 33])),
                            T=int(rng.integers(1, 9)), seed=int(rng.integers(1 << 30)),
                            metric=['cos', 'euclidean', 'multiply'][i % 3], alg=['greedy', 'optimal'][(i // 3) % 2],
                            regime=['float', 'permuted', 'tinyscale', 'zero', 'float', 'tinyscale'][(i // 6) % 6]))
    if prop == 'C16':
        n = 30 if q else 300
        for i in range(n):
            K = int(rng.integers(1, 5))
            F = int(rng.choice([1, 3, 5, 9, 17, 33] if q else [1, 3, 5, 9, 17, 33, 61]))
            T = int(rng.integers(1, 6))
            out.append(dict(t='greedyx_rand', K=K, F=F, T=T, seed=int(rng.integers(1 << 30)),
                            metric=['euclidean', 'multiply'][i % 2], which=['greedy', 'dhtv'][(i // 2) % 2],
                            alg=['greedy', 'optimal'][(i // 4) % 2]))
        # the greedy adjacent-bin aligner with the cosine metric on small non-negative integer masks without zero rows (rows of
        # clearly different norms): the order of the cosines is an exact integer relation
        for i in range(60 if q else 400):
            out.append(dict(t='greedyx_rand', K=2 + i % 2, F=int(rng.choice([3, 5, 9])), T=int(rng.integers(2, 4)), seed=int(rng.integers(1 << 30)),
                            metric='cos', which='greedy', alg='greedy', small=True))
    return out


# ---------------------------------------------------------------------------
def _assign_int(S, alg, batch=0):
    """The callee gets its own C-contiguous array of the matrix' dtype (a caller's score matrix as the aligners build it);
    it must not write into it: the same object is compared with a snapshot afterwards."""
    S = np.asarray(S)
    if batch == 0:
        arg = np.ascontiguousarray(S).copy()
        snap = arg.copy()
        res, exc = _call(pa._mapping_from_score_matrix, arg, alg)
    else:
        # stacked call: the matrix under test is one bin of a stack
        arg = np.stack([S[::-1, ::-1]] * batch + [S])
        snap = arg.copy()
        res, exc = _call(pa._mapping_from_score_matrix, arg, alg)
        if res is not None:
            res = res[:, -1]
    if not np.array_equal(arg, snap, equal_nan=True):
        res, exc = None, 'InputMutated'
    if res is not None:
        # the caller owns the result: writing into it (e.g. inverting the mapping in place) must not change what a later
        # call with the same scores returns
        keep = np.array(res, copy=True)
        try:
            full_res = res.base if (batch and res.base is not None) else res
            full_res[...] = np.roll(full_res, 1, axis=0)
        except (ValueError, TypeError):
            pass
        again, exc2 = _call(pa._mapping_from_score_matrix, arg, alg)
        if again is not None and batch:
            again = again[:, -1]
        if again is None or not np.array_equal(np.asarray(again), keep):
            return None, 'ResultAliased'
        res = keep
    return res, exc


def _rec_assign(S, alg, batch=0, fp=''):
    S = np.asarray(S)
    res, exc = _assign_int(S, alg, batch)
    lsa = 0
    if alg == 'optimal':
        from scipy.optimize import linear_sum_assignment
        r, c = linear_sum_assignment(-S)
        lsa = int(S[r, c].sum())
    return dict(kind='assign', S=enc.aint(S), alg=alg, exc=exc,
                res=[] if res is None else enc.aint(res), lsa=lsa,
                fp=f'fn=_mapping_from_score_matrix;alg={alg};K={S.shape[0]}' + fp,
                key=f'{alg}:{S.tolist()}')


def _float_matrix(rng, K, regime):
    S = rng.normal(size=(K, K))
    if regime == 'offset':
        S = 1000.0 + rng.normal(size=(K, K)) * 10.0 ** rng.integers(-3, 1)
    elif regime == 'ties':
        S = rng.integers(0, 3, size=(K, K)).astype(float) + \
            (rng.random((K, K)) < 0.3) * rng.normal(size=(K, K)) * 1e-3
    elif regime == 'scaled':
        S = S * 10.0 ** rng.integers(-12, 13)
    return S


def _rec_assignf(case):
    rng = np.random.default_rng(case['seed'])
    K, alg = case['K'], case['alg']
    S = _float_matrix(rng, K, case['regime'])
    res, exc = _assign_int(S, alg, case.get('batch', 0))
    perms = list(itertools.permutations(range(K)))
    gaps = []
    if alg == 'optimal':
        Sf = [[Fraction(float(x)) for x in row] for row in S]
        tot = [sum(Sf[i][p[i]] for i in range(K)) for p in perms]
        unit = Fraction(float(np.finfo(float).eps)) * max(sum(abs(x) for row in Sf for x in row),
                                                          Fraction(1, 10 ** 300))
        best = max(tot)
        gaps = [int(min((best - t) / unit, 1 << 28)) for t in tot]
    return dict(kind='assignf', R=enc.ranks(S), alg=alg, exc=exc,
                res=[] if res is None else enc.aint(res), gaps=gaps,
                fp=f'fn=_mapping_from_score_matrix;float;alg={alg};regime={case["regime"]}',
                key=f'{alg}:{case["seed"]}')


def _mask(rng, K, F, T, regime, dtype):
    if regime == 'float':
        m = rng.random((K, F, T))
    elif regime == 'const':
        m = np.full((K, F, T), 0.5)
        m[:, : F // 2] = rng.random((K, F // 2, T))
    elif regime == 'zero':
        m = rng.random((K, F, T))
        m[rng.integers(K)] = 0.0
        m[:, rng.integers(F)] = 0.0
    elif regime == 'tied':
        m = rng.random((1, F, T)).repeat(K, axis=0)
        if K > 1:
            m[0] = rng.random((F, T))
    elif regime == 'unit':
        # every class row of every bin already has norm exactly one (hard one-hot-over-time masks)
        m = np.zeros((K, F, T))
        m[np.arange(K)[:, None], np.arange(F)[None, :], rng.integers(0, T, size=(K, F))] = 1.0
    elif regime == 'hugeclass':
        # finite, badly scaled: one class around 1e155 next to ordinary ones (squares overflow in the distance / product scores)
        m = rng.random((K, F, T))
        m[rng.integers(K)] *= 1e155 if dtype == 'float64' else 1e30      # (finite in the mask's own precision)
    else:  # int valued
        m = rng.integers(0, 3, size=(K, F, T)).astype(float)
    return m.astype(dtype)


def _dhtv_for(F, rng, metric, alg):
    stft = 2 * (F - 1)
    width = int(rng.integers(1, F + 1))
    start = int(rng.integers(0, F - width + 1))
    shift = int(rng.integers(1, width + 1))
    return pa.DHTVPermutationAlignment(
        stft_size=stft, segment_start=start, segment_width=width, segment_shift=shift,
        main_iterations=int(rng.integers(1, 5)), sub_iterations=int(rng.integers(1, 3)),
        similarity_metric=metric, algorithm=alg), dict(stft=stft, start=start, width=width, shift=shift)


def _apply_record(mask_before, mask, mapping, out, exc, fp, key, ref=None, truth=None,
                  expect_identity=False, expect_consistent=False):
    arrs = [mask]
    if out is not None:
        arrs.append(out)
    if ref is not None:
        arrs.append(ref)
    ids = _rowids(*arrs)
    rec = dict(kind='apply', mask=ids[0], exc=exc,
               mapping=[] if mapping is None else enc.aint(mapping),
               out=[] if out is None else ids[1],
               ref=ids[-1] if ref is not None and out is not None else [],
               truth=[] if truth is None else enc.aint(np.asarray(truth) + 1),
               expect_identity=bool(expect_identity), expect_consistent=bool(expect_consistent),
               fp=fp, key=key)
    if mask_before is not None and enc.digest(mask_before) != enc.digest(mask):
        rec['exc'] = 'InputMutated'
    return rec


def _run_aligner(case):
    rng = np.random.default_rng(case['seed'])
    K, F, T = case['K'], case['F'], case['T']
    mask = _mask(rng, K, F, T, case['regime'], case['dtype'])
    lay = ['C', 'F', 'view', 'C'][case['seed'] % 4]
    if lay == 'F':
        mask = np.asfortranarray(mask)                          # same values, Fortran-ordered buffer
    elif lay == 'view':
        mask = np.ascontiguousarray(mask.transpose(2, 1, 0)).T  # (T, F, K) array seen as (K, F, T)
    before = mask.copy()
    kind = case['aligner']
    fp = f'aligner={kind};metric={case["metric"]};alg={case["alg"]};regime={case["regime"]};layout={lay}'
    key = f'{kind}:{case["seed"]}'
    recs = []
    if kind == 'apply':
        mapping = pa.sample_random_mapping(K, F, np.random.RandomState(case['seed'] % (1 << 31)))
        out, exc = _call(pa.apply_mapping, mask, mapping)
        recs.append(_apply_record(before, mask, mapping, out, exc, f'fn=apply_mapping;layout={lay}', key))
        return recs
    if kind == 'dhtv':
        al, cfg = _dhtv_for(F, rng, case['metric'], case['alg'])
        fp += f';cfg={cfg}'
        call = lambda: al.calculate_mapping(mask)
        full = lambda: al(mask)
    elif kind == 'greedy':
        al = pa.GreedyPermutationAlignment(similarity_metric=case['metric'], algorithm=case['alg'])
        call = lambda: al.calculate_mapping(mask)
        full = lambda: al(mask)
    else:
        ref = _mask(rng, K, F, T, 'float', case['dtype'])
        al = pa.OraclePermutationAlignment(similarity_metric=case['metric'], algorithm=case['alg'])
        call = lambda: al.calculate_mapping(mask, ref)
        full = lambda: al(mask, ref)
    mapping, exc = _call(call)
    out = None
    if mapping is not None:
        out, exc = _call(full)
    if case['regime'] == 'hugeclass' and exc == 'ValueError' and (case['metric'] != 'cos' or case['dtype'] == 'float32'):
        # the squared entries overflow: the score matrix is not finite and the aligner rejects it explicitly (the property
        # speaks about finite score matrices); whatever mapping IS returned for such a mask is checked like any other
        return recs
    recs.append(_apply_record(before, mask, mapping, out, exc, fp, key))
    return recs


def _inline_apply(case):
    """EM inline alignment: posteriors AND quadratic forms (F, K, T) reordered together by the aligner's own mapping."""
    from pb_bss.distribution import mixture_model_utils as mmu
    rng = np.random.default_rng(case['seed'])
    K, F, T = case['K'], case['F'], case['T']
    # frequency-permuted consistent activity pattern (so that non-trivial, non-involutive permutations are undone)
    base = rng.random((K, 1, T)) ** 3 + 0.02
    ref = base * (1 + 0.1 * rng.random((K, F, T)))
    field = np.stack([rng.permutation(K) for _ in range(F)], axis=1)
    aff_kft = pa.apply_mapping(ref, field)
    aff_kft = aff_kft / aff_kft.sum(0, keepdims=True)
    aff = np.ascontiguousarray(np.transpose(aff_kft, (1, 0, 2)))            # (F, K, T)
    qf = rng.uniform(0.5, 2.0, size=(F, K, T))
    al = pa.GreedyPermutationAlignment(similarity_metric=case['metric']) if case['aligner'] == 'greedy' else \
        _dhtv_for(F, rng, case['metric'], ['optimal', 'greedy'][case['seed'] % 2])[0]
    wca = [(-3,), (-3, -1), -3][case['seed'] % 3]
    a0, q0 = aff.copy(), qf.copy()
    res, exc = _call(mmu.apply_inline_permutation_alignment, aff, quadratic_form=qf, weight_constant_axis=wca, aligner=al)
    mapping, e2 = _call(al.calculate_mapping, np.transpose(a0, (1, 0, 2)))
    fp = f'fn=apply_inline_permutation_alignment;aligner={case["aligner"]};metric={case["metric"]};K={K}'
    key = f'inl:{case["seed"]}'
    recs = []
    for name, x0, x1 in (('aff', a0, None if res is None else res[0]), ('qf', q0, None if res is None else res[1])):
        m0 = np.transpose(x0, (1, 0, 2))
        m1 = None if x1 is None else np.transpose(x1, (1, 0, 2))
        recs.append(_apply_record(None, m0, mapping, m1, exc or e2, fp + ';' + name, key + name))
    if enc.digest(a0) != enc.digest(aff) or enc.digest(q0) != enc.digest(qf):
        for r in recs:
            r['exc'] = 'InputMutated'
    return recs


def _oracle_inv(case):
    rng = np.random.default_rng(case['seed'])
    K, F, T = case['K'], case['F'], case['T']
    # reference with pairwise distinct *normalised* rows in every bin
    ref = rng.random((K, F, T)) + 0.05
    ref[np.arange(K) % K, :, np.arange(K) % T] += 1.0 + np.arange(K)[:, None]
    regime = case.get('regime', 'normal')
    if regime in ('close', 'offset') and case['metric'] != 'euclidean':
        regime = 'tiny'              # rows close relative to their norm are only distinguishable by the distance metric
    if regime == 'rowtiny' and case['metric'] != 'cos':
        regime = 'tiny'              # per-row scales only leave the *normalised* rows (cos) unchanged
    if regime == 'close':            # near-uniform posteriors: pairwise distinct, far closer to each other than to zero
        ref = 1.0 / K + 1e-9 * rng.standard_normal((K, F, T))
    elif regime == 'offset':         # large common profile plus small class-specific part
        ref = 1e4 * (rng.random((1, F, T)) + 0.5) + 1e-5 * rng.standard_normal((K, F, T))
    elif regime == 'tiny':           # badly scaled mask (all entries ~1e-18 .. 1e-20)
        ref = ref * float(rng.choice([1e-18, 1e-20, 1e-25]))
    elif regime == 'rowtiny':        # some classes inactive in some bins (posteriors ~1e-20) but with clear directions
        ref = ref * rng.choice([1.0, 1e-18, 1e-20, 1e-22], size=(K, F, 1))
    if regime == 'signed':
        ref = rng.standard_normal((K, F, T))
        g = float(rng.choice([0.5, 1.0, 2.0, 3.0]))
        if case['glob']:
            ref[1] = -g * ref[0]
        else:
            ref[1, ::2] = -g * ref[0, ::2]
    field = np.stack([rng.permutation(K) for _ in range(F)], axis=1)
    if case['glob']:
        field = np.repeat(rng.permutation(K)[:, None], F, axis=1)
    mask = pa.apply_mapping(ref, field)
    al = pa.OraclePermutationAlignment(similarity_metric=case['metric'], algorithm=case['alg'])
    if case['seed'] % 3 == 0:
        # block-wise evaluation: the SAME reference array object was used for another block and refilled in place
        buf = ref[::-1].copy() * 1.5 + 0.25
        arg0 = (mask.reshape(K, F * T), buf.reshape(K, F * T)) if case['glob'] else (mask, buf)
        bview = arg0[1]
        _call(pa.OraclePermutationAlignment(similarity_metric=case['metric'], algorithm=case['alg']).calculate_mapping, arg0[0], bview)
        buf[...] = ref
        ref = buf
    before = mask.copy()
    if case['glob']:
        m2, r2 = mask.reshape(K, F * T), ref.reshape(K, F * T)
        mapping, exc = _call(al.calculate_mapping, m2, r2)
        out = None
        if mapping is not None:
            mapping = np.repeat(np.asarray(mapping)[:, None], F, axis=1)
            out, exc = _call(pa.apply_mapping, mask, mapping)
    else:
        mapping, exc = _call(al.calculate_mapping, mask, ref)
        out, exc2 = _call(al, mask, ref)
        exc = exc or exc2
    return [_apply_record(before, mask, mapping, out, exc,
                          f'aligner=oracle;inv;metric={case["metric"]};alg={case["alg"]};glob={case["glob"]};regime={regime}',
                          f'oinv:{case["seed"]}', ref=ref)]


def _plan(case):
    if case.get('default'):
        al, exc = _call(pa.DHTVPermutationAlignment.from_stft_size, case['stft'])
        case = dict(case, start=al.segment_start, width=al.segment_width, shift=al.segment_shift,
                    main=al.main_iterations, sub=al.sub_iterations)
    else:
        al = pa.DHTVPermutationAlignment(stft_size=case['stft'], segment_start=case['start'],
                                         segment_width=case['width'], segment_shift=case['shift'],
                                         main_iterations=case.get('main', 3), sub_iterations=case.get('sub', 2))
    plan, exc = _call(lambda: al.alignment_plan)
    return [dict(kind='plan', stft=case['stft'], start=case['start'], width=case['width'], shift=case['shift'],
                 main=case.get('main', 3), sub=case.get('sub', 2), exc=exc,
                 plan=[] if plan is None else [[int(x) for x in e] for e in plan],
                 fp='fn=alignment_plan', key=f"plan:{case['stft']}:{case['start']}:{case['width']}:{case['shift']}")]


def _exact(case):
    m = np.array(case['m'], dtype=float)
    K, F, T = m.shape
    t = case['t']
    if t == 'dhtvx':
        al = pa.DHTVPermutationAlignment(stft_size=case['stft'], segment_start=case['start'],
                                         segment_width=case['width'], segment_shift=case['shift'],
                                         main_iterations=case['main'], sub_iterations=case['sub'],
                                         similarity_metric=case['metric'], algorithm=case['alg'])
        mask = m
        args = ()
    elif t == 'greedyx':
        al = pa.GreedyPermutationAlignment(similarity_metric=case['metric'])
        mask = m
        args = ()
    else:
        field = np.array(case['field'])
        mask = pa.apply_mapping(m, field)
        al = pa.OraclePermutationAlignment(similarity_metric=case['metric'], algorithm=case['alg'])
        args = (m,)
    before = mask.copy()
    mapping, exc = _call(al.calculate_mapping, mask, *args)
    aligned = None
    if mapping is not None:
        aligned, exc = _call(al, mask, *args)
    if enc.digest(before) != enc.digest(mask):
        exc = 'InputMutated'
    rec = dict(kind=t, m=enc.aint(m), metric=case['metric'], alg=case.get('alg', 'greedy'), exc=exc,
               mapping=[] if mapping is None else enc.aint(mapping),
               aligned=[] if aligned is None else enc.aint(aligned),
               fp=f'{t};metric={case["metric"]};alg={case.get("alg")}',
               key=f'{t}:{case["m"]}:{case.get("field")}:{case["metric"]}:{case.get("alg")}:'
                   f'{case.get("start")}:{case.get("width")}:{case.get("shift")}')
    for k in ('stft', 'start', 'width', 'shift', 'main', 'sub', 'field'):
        if k in case:
            rec[k] = case[k]
    return [rec]


def _structured(rng, K, F, T, jitter=0.1, dtype='float64'):
    """Nearly orthogonal non-negative activity patterns, equal across frequency up to a multiplicative jitter (<= 10 %)."""
    pat = np.zeros((K, T))
    owner = rng.permutation(np.arange(T) % K)
    pat[owner, np.arange(T)] = 1.0
    pat = pat * rng.uniform(0.5, 1.0, size=(K, T)) + 0.01 * rng.random((K, T))
    m = pat[:, None, :] * (1.0 - jitter * rng.uniform(0.0, 1.0, size=(K, F, T)))
    return m.astype(dtype)


def _consist(case):
    rng = np.random.default_rng(case['seed'])
    K, F, T = case['K'], case['F'], case['T']
    ref = _structured(rng, K, F, T, jitter=case.get('jitter', 0.1), dtype=case.get('dtype', 'float64'))
    kind = case['aligner']
    rec = dict(kind='consist', aligner='greedy', stft=0, start=0, width=0, shift=0, main=0, sub=0,
               expect_identity=False)
    if kind == 'greedy':
        al = pa.GreedyPermutationAlignment(similarity_metric=case['metric'], algorithm=case['alg'])
    elif kind == 'identity':
        al = pa.GreedyPermutationAlignment(similarity_metric=case['metric']) if case['seed'] % 2 else None
        rec['expect_identity'] = True
    if kind in ('dhtv', 'dhtv_default') or (kind == 'identity' and al is None):
        if kind == 'dhtv_default' and F in (257, 513):
            al = pa.DHTVPermutationAlignment.from_stft_size(2 * (F - 1), similarity_metric=case['metric'])
        else:
            width = int(rng.integers(3, max(4, F // 2)))
            start = int(rng.integers(0, F - width + 1))
            shift = int(rng.integers(1, max(2, width // 3 + 1)))
            al = pa.DHTVPermutationAlignment(
                stft_size=2 * (F - 1), segment_start=start, segment_width=width, segment_shift=shift,
                main_iterations=20, sub_iterations=2, similarity_metric=case['metric'],
                algorithm=case['alg'])
        rec.update(aligner='dhtv', stft=al.stft_size, start=al.segment_start, width=al.segment_width,
                   shift=al.segment_shift, main=al.main_iterations, sub=al.sub_iterations)
    # injected permutation field
    if kind == 'identity':
        field = np.repeat(np.arange(K)[:, None], F, axis=1)
    else:
        field = np.stack([rng.permutation(K) for _ in range(F)], axis=1)
        if rec['aligner'] == 'dhtv':
            # >= 70 % of the first segment's bins share one order (here: ~80 %)
            s, e = rec['start'], rec['start'] + rec['width']
            lo = range(rec['start'] - rec['shift'], 0, -rec['shift'])
            hi = range(rec['start'] + rec['shift'], F - rec['width'], rec['shift'])
            if len(hi) == 0:
                e = F
            if len(lo) == 0:
                s = 0
            common = rng.permutation(K)
            for f in range(s, e):
                if rng.random() < 0.85:
                    field[:, f] = common
    mask = pa.apply_mapping(ref, field)
    mapping, exc = _call(al.calculate_mapping, mask)
    rec.update(truth=enc.aint(field + 1), exc=exc, mapping=[] if mapping is None else enc.aint(mapping),
               fp=f'consist;aligner={kind};metric={case["metric"]};alg={case["alg"]};jitter={case.get("jitter", 0.1)};dtype={case.get("dtype", "float64")}',
               key=f'consist:{case["seed"]}')
    return [rec]


def _gaps(S):
    K = S.shape[0]
    perms = list(itertools.permutations(range(K)))
    Sf = [[Fraction(float(x)) for x in row] for row in S]
    tot = [sum(Sf[i][p[i]] for i in range(K)) for p in perms]
    unit = Fraction(float(np.finfo(float).eps)) * max(sum(abs(x) for row in Sf for x in row), Fraction(1, 10 ** 300))
    best = max(tot)
    return [int(min((best - t) / unit, 1 << 28)) for t in tot]


def _dhtv_trace(case):
    """hook events of one DHTV call as records for Trace_DHTV.tla"""
    from pb_bss import _verif
    rng = np.random.default_rng(case['seed'])
    K, F, T = case['K'], case['F'], case['T']
    mask = rng.random((K, F, T)) if case['regime'] == 'float' else _mask(rng, K, F, T, case['regime'], 'float64')
    if case['regime'] == 'permuted':
        ref = _structured(rng, K, F, T)
        field = np.stack([rng.permutation(K) for _ in range(F)], axis=1)
        mask = pa.apply_mapping(ref, field)
    if case['regime'] == 'tinyscale':
        # badly scaled mask (exact power-of-two scale) with classes of different strength and overlapping patterns
        mask = rng.random((K, F, T)) * (0.2 + rng.random((K, 1, 1))) * 2.0 ** -60
    width = int(rng.integers(1, F + 1))
    start = int(rng.integers(0, F - width + 1))
    shift = int(rng.integers(1, width + 1))
    cfg = dict(stft=2 * (F - 1), start=start, width=width, shift=shift, main=int(rng.integers(1, 5)), sub=int(rng.integers(1, 3)))
    al = pa.DHTVPermutationAlignment(stft_size=cfg['stft'], segment_start=start, segment_width=width, segment_shift=shift,
                                     main_iterations=cfg['main'], sub_iterations=cfg['sub'],
                                     similarity_metric=case['metric'], algorithm=case['alg'])
    ev = []
    cb = lambda e, f: ev.append((e, dict(f))) if e.startswith('dhtv') else None
    _verif.register(cb)
    try:
        mapping, exc = _call(al.calculate_mapping, mask)
    finally:
        _verif.unregister(cb)
    fp = f'dhtvtrace;metric={case["metric"]};alg={case["alg"]};regime={case["regime"]}'
    recs = []
    feat0 = None
    last_score = None
    for e, f in ev:
        if e == 'dhtv_start':
            feat0 = f['features']
            endf = [x[1]['features'] for x in ev if x[0] == 'dhtv_end']
            ids = _rowids(feat0, *(endf[:1]))
            recs.append(dict(kind='start', ids=ids[0], fv=enc.aflt(feat0), mv=enc.aflt(mask), plan=[[int(x) for x in p] for p in f['plan']],
                             metric=case['metric'], alg=case['alg'], **cfg))
            end_ids = ids[1] if len(ids) > 1 else []
        elif e == 'dhtv_iter':
            recs.append(dict(kind='iter', s=int(f['start']), e=int(f['end']), it=int(f['iteration']), cen=enc.aflt(f['centroid'])))
        elif e == 'dhtv_score':
            last_score = np.asarray(f['score'], dtype=float)
        elif e == 'dhtv_bin':
            recs.append(dict(kind='bin', f=int(f['f']), S=enc.aflt(last_score), R=enc.ranks(last_score),
                             rp=enc.aint(f['reverse_permutation']),
                             gaps=_gaps(last_score) if case['alg'] == 'optimal' else []))
        elif e == 'dhtv_iter_end':
            recs.append(dict(kind='iter_end', nothing_changed=bool(f['nothing_changed'])))
        elif e == 'dhtv_end':
            recs.append(dict(kind='end', mapping=enc.aint(f['mapping']), ids=end_ids))
    if exc:
        recs.append(dict(kind='end', mapping=[], ids=[], exc=exc))
    for r in recs:
        r.setdefault('exc', '')
        r['tid'] = case['seed']
        r['fp'] = fp + ';' + r['kind']
        r['key'] = f'dt:{case["seed"]}:{len(recs)}'
    return recs


def run_case(case):
    t = case['t']
    if t == 'dhtv_trace':
        return _dhtv_trace(case)
    if t == 'plan':
        return _plan(case)
    if t in ('dhtvx', 'greedyx', 'oraclex'):
        return _exact(case)
    if t == 'consist':
        return _consist(case)
    if t == 'greedyx_rand':
        rng = np.random.default_rng(case['seed'])
        K, F, T = case['K'], case['F'], case['T']
        m = rng.integers(0, 4 if case['seed'] % 4 == 0 else 101, size=(K, F, T)).tolist()
        if case.get('small'):
            mm = rng.integers(0, 3, size=(K, F, T))
            mm[..., 0] = np.where(mm.sum(-1) == 0, 1, mm[..., 0])
            m = mm.tolist()
        if case['which'] == 'greedy':
            return _exact(dict(t='greedyx', m=m, metric=case['metric']))
        width = int(rng.integers(1, F + 1))
        start = int(rng.integers(0, F - width + 1))
        shift = int(rng.integers(1, width + 1))
        return _exact(dict(t='dhtvx', m=m, stft=2 * (F - 1), start=start, width=width, shift=shift,
                           main=int(rng.integers(1, 4)), sub=int(rng.integers(1, 3)),
                           metric=case['metric'], alg=case['alg']))
    if t == 'assign_int':
        return [_rec_assign(np.array(case['S']), case['alg'], case.get('batch', 0))]
    if t == 'assign_rand':
        rng = np.random.default_rng(case['seed'])
        S = rng.integers(0, case['hi'] + 1, size=(case['K'], case['K']))
        return [_rec_assign(S, case['alg'])]
    if t == 'assignf':
        return [_rec_assignf(case)]
    if t == 'aligner':
        return _run_aligner(case)
    if t == 'inline_apply':
        return _inline_apply(case)
    if t == 'oracle_inv':
        return _oracle_inv(case)
    raise ValueError(t)
