"""Driver for pb_bss.permutation_alignment (C14, C15, C16): runs the real code, logs records
for Trace_Align.tla.  No property is decided here."""
import itertools
from fractions import Fraction

import numpy as np

from harness import enc

import pb_bss.permutation_alignment as pa


def _rowids(*arrays):
    """Map identical rows (bytes of a[k, f, ...]) to the same small int across all arrays."""
    table = {}
    outs = []
    for a in arrays:
        a = np.asarray(a)
        K, F = a.shape[:2]
        o = [[0] * F for _ in range(K)]
        for k in range(K):
            for f in range(F):
                key = (str(a.dtype), np.ascontiguousarray(a[k, f]).tobytes())
                o[k][f] = table.setdefault(key, len(table))
        outs.append(o)
    return outs


def _call(fn, *a, **kw):
    try:
        return fn(*a, **kw), ''
    except Exception as e:  # the trace spec decides whether an exception is acceptable
        return None, type(e).__name__


# ---------------------------------------------------------------------------
def cases(tier, seed, args):
    prop = args.get('prop', 'C14')
    rng = np.random.default_rng(seed + 1000 * int(prop[1:]))
    out = []
    q = tier == 'quick'
    if prop in ('C14', 'C15'):
        # float score matrices (assignf)
        n = 150 if q else 1500
        for i in range(n):
            K = int(rng.integers(1, 6 if q else 7))
            out.append(dict(t='assignf', K=K, seed=int(rng.integers(1 << 30)),
                            regime=['normal', 'offset', 'ties', 'scaled'][i % 4],
                            alg=['greedy', 'optimal'][(i // 4) % 2], batch=int(i % 3)))
        # integer matrices K 4..6 sampled
        n = 60 if q else 600
        for i in range(n):
            K = int(rng.integers(4, 6 if q else 7))
            out.append(dict(t='assign_rand', K=K, seed=int(rng.integers(1 << 30)),
                            hi=int(rng.integers(1, 6)), alg=['greedy', 'optimal'][i % 2]))
    if prop == 'C14':
        n = 120 if q else 1200
        for i in range(n):
            K = int(rng.integers(1, 7))
            F = int(rng.choice([1, 3, 5, 9, 17, 33] if q else [1, 3, 5, 9, 17, 33, 65, 129]))
            T = int(rng.integers(1, 12))
            out.append(dict(t='aligner', aligner=['dhtv', 'greedy', 'oracle', 'apply'][i % 4],
                            K=K, F=F, T=T, seed=int(rng.integers(1 << 30)),
                            regime=['float', 'const', 'zero', 'tied', 'int'][(i // 4) % 5],
                            metric=['cos', 'euclidean', 'multiply'][(i // 20) % 3],
                            alg=['greedy', 'optimal'][(i // 60) % 2],
                            dtype=['float64', 'float32'][(i // 7) % 2]))
    if prop == 'C15':
        n = 120 if q else 1500
        for i in range(n):
            K = int(rng.integers(2, 7))
            F = int(rng.choice([1, 3, 5, 9]))
            T = int(rng.integers(max(2, K), 12))
            out.append(dict(t='oracle_inv', K=K, F=F, T=T, seed=int(rng.integers(1 << 30)),
                            metric=['cos', 'euclidean', 'multiply'][i % 3],
                            alg=['greedy', 'optimal'][(i // 3) % 2],
                            glob=bool((i // 6) % 3 == 0)))
    return out


# ---------------------------------------------------------------------------
def _assign_int(S, alg, batch=0):
    S = np.asarray(S)
    if batch == 0:
        res, exc = _call(pa._mapping_from_score_matrix, S, alg)
    else:
        # stacked call: the matrix under test is one bin of a stack
        stack = np.stack([S[::-1, ::-1]] * batch + [S])
        res, exc = _call(pa._mapping_from_score_matrix, stack, alg)
        if res is not None:
            res = res[:, -1]
    return res, exc


def _rec_assign(S, alg, batch=0, fp=''):
    S = np.asarray(S)
    res, exc = _assign_int(S, alg, batch)
    lsa = 0
    if alg == 'optimal':
        from scipy.optimize import linear_sum_assignment
        r, c = linear_sum_assignment(-S)
        lsa = int(S[r, c].sum())
    return dict(kind='assign', S=enc.aint(S), alg=alg, exc=exc,
                res=[] if res is None else enc.aint(res), lsa=lsa,
                fp=f'fn=_mapping_from_score_matrix;alg={alg};K={S.shape[0]}' + fp,
                key=f'{alg}:{S.tolist()}')


def _float_matrix(rng, K, regime):
    S = rng.normal(size=(K, K))
    if regime == 'offset':
        S = 1000.0 + rng.normal(size=(K, K)) * 10.0 ** rng.integers(-3, 1)
    elif regime == 'ties':
        S = rng.integers(0, 3, size=(K, K)).astype(float) + \
            (rng.random((K, K)) < 0.3) * rng.normal(size=(K, K)) * 1e-3
    elif regime == 'scaled':
        S = S * 10.0 ** rng.integers(-12, 13)
    return S


def _rec_assignf(case):
    rng = np.random.default_rng(case['seed'])
    K, alg = case['K'], case['alg']
    S = _float_matrix(rng, K, case['regime'])
    res, exc = _assign_int(S, alg, case.get('batch', 0))
    perms = list(itertools.permutations(range(K)))
    gaps = []
    if alg == 'optimal':
        Sf = [[Fraction(float(x)) for x in row] for row in S]
        tot = [sum(Sf[i][p[i]] for i in range(K)) for p in perms]
        unit = Fraction(float(np.finfo(float).eps)) * max(sum(abs(x) for row in Sf for x in row),
                                                          Fraction(1, 10 ** 300))
        best = max(tot)
        gaps = [int(min((best - t) / unit, 1 << 28)) for t in tot]
    return dict(kind='assignf', R=enc.ranks(S), alg=alg, exc=exc,
                res=[] if res is None else enc.aint(res), gaps=gaps,
                fp=f'fn=_mapping_from_score_matrix;float;alg={alg};regime={case["regime"]}',
                key=f'{alg}:{case["seed"]}')


def _mask(rng, K, F, T, regime, dtype):
    if regime == 'float':
        m = rng.random((K, F, T))
    elif regime == 'const':
        m = np.full((K, F, T), 0.5)
        m[:, : F // 2] = rng.random((K, F // 2, T))
    elif regime == 'zero':
        m = rng.random((K, F, T))
        m[rng.integers(K)] = 0.0
        m[:, rng.integers(F)] = 0.0
    elif regime == 'tied':
        m = rng.random((1, F, T)).repeat(K, axis=0)
        if K > 1:
            m[0] = rng.random((F, T))
    else:  # int valued
        m = rng.integers(0, 3, size=(K, F, T)).astype(float)
    return m.astype(dtype)


def _dhtv_for(F, rng, metric, alg):
    stft = 2 * (F - 1)
    width = int(rng.integers(1, F + 1))
    start = int(rng.integers(0, F - width + 1))
    shift = int(rng.integers(1, width + 1))
    return pa.DHTVPermutationAlignment(
        stft_size=stft, segment_start=start, segment_width=width, segment_shift=shift,
        main_iterations=int(rng.integers(1, 5)), sub_iterations=int(rng.integers(1, 3)),
        similarity_metric=metric, algorithm=alg), dict(stft=stft, start=start, width=width, shift=shift)


def _apply_record(mask_before, mask, mapping, out, exc, fp, key, ref=None, truth=None,
                  expect_identity=False, expect_consistent=False):
    arrs = [mask]
    if out is not None:
        arrs.append(out)
    if ref is not None:
        arrs.append(ref)
    ids = _rowids(*arrs)
    rec = dict(kind='apply', mask=ids[0], exc=exc,
               mapping=[] if mapping is None else enc.aint(mapping),
               out=[] if out is None else ids[1],
               ref=ids[-1] if ref is not None and out is not None else [],
               truth=[] if truth is None else enc.aint(np.asarray(truth) + 1),
               expect_identity=bool(expect_identity), expect_consistent=bool(expect_consistent),
               fp=fp, key=key)
    if mask_before is not None and enc.digest(mask_before) != enc.digest(mask):
        rec['exc'] = 'InputMutated'
    return rec


def _run_aligner(case):
    rng = np.random.default_rng(case['seed'])
    K, F, T = case['K'], case['F'], case['T']
    mask = _mask(rng, K, F, T, case['regime'], case['dtype'])
    before = mask.copy()
    kind = case['aligner']
    fp = f'aligner={kind};metric={case["metric"]};alg={case["alg"]};regime={case["regime"]}'
    key = f'{kind}:{case["seed"]}'
    recs = []
    if kind == 'apply':
        mapping = pa.sample_random_mapping(K, F, np.random.RandomState(case['seed'] % (1 << 31)))
        out, exc = _call(pa.apply_mapping, mask, mapping)
        recs.append(_apply_record(before, mask, mapping, out, exc, 'fn=apply_mapping', key))
        return recs
    if kind == 'dhtv':
        al, cfg = _dhtv_for(F, rng, case['metric'], case['alg'])
        fp += f';cfg={cfg}'
        call = lambda: al.calculate_mapping(mask)
        full = lambda: al(mask)
    elif kind == 'greedy':
        al = pa.GreedyPermutationAlignment(similarity_metric=case['metric'], algorithm=case['alg'])
        call = lambda: al.calculate_mapping(mask)
        full = lambda: al(mask)
    else:
        ref = _mask(rng, K, F, T, 'float', case['dtype'])
        al = pa.OraclePermutationAlignment(similarity_metric=case['metric'], algorithm=case['alg'])
        call = lambda: al.calculate_mapping(mask, ref)
        full = lambda: al(mask, ref)
    mapping, exc = _call(call)
    out = None
    if mapping is not None:
        out, exc = _call(full)
    recs.append(_apply_record(before, mask, mapping, out, exc, fp, key))
    return recs


def _oracle_inv(case):
    rng = np.random.default_rng(case['seed'])
    K, F, T = case['K'], case['F'], case['T']
    # reference with pairwise distinct *normalised* rows in every bin
    ref = rng.random((K, F, T)) + 0.05
    ref[np.arange(K) % K, :, np.arange(K) % T] += 1.0 + np.arange(K)[:, None]
    field = np.stack([rng.permutation(K) for _ in range(F)], axis=1)
    if case['glob']:
        field = np.repeat(rng.permutation(K)[:, None], F, axis=1)
    mask = pa.apply_mapping(ref, field)
    al = pa.OraclePermutationAlignment(similarity_metric=case['metric'], algorithm=case['alg'])
    before = mask.copy()
    if case['glob']:
        m2, r2 = mask.reshape(K, F * T), ref.reshape(K, F * T)
        mapping, exc = _call(al.calculate_mapping, m2, r2)
        out = None
        if mapping is not None:
            mapping = np.repeat(np.asarray(mapping)[:, None], F, axis=1)
            out, exc = _call(pa.apply_mapping, mask, mapping)
    else:
        mapping, exc = _call(al.calculate_mapping, mask, ref)
        out, exc2 = _call(al, mask, ref)
        exc = exc or exc2
    return [_apply_record(before, mask, mapping, out, exc,
                          f'aligner=oracle;inv;metric={case["metric"]};alg={case["alg"]};glob={case["glob"]}',
                          f'oinv:{case["seed"]}', ref=ref)]


def run_case(case):
    t = case['t']
    if t == 'assign_int':
        return [_rec_assign(np.array(case['S']), case['alg'], case.get('batch', 0))]
    if t == 'assign_rand':
        rng = np.random.default_rng(case['seed'])
        S = rng.integers(0, case['hi'] + 1, size=(case['K'], case['K']))
        return [_rec_assign(S, case['alg'])]
    if t == 'assignf':
        return [_rec_assignf(case)]
    if t == 'aligner':
        return _run_aligner(case)
    if t == 'oracle_inv':
        return _oracle_inv(case)
    raise ValueError(t)
