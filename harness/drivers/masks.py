"""Driver for pb_bss.extraction.mask_module (C18)."""
import itertools

import numpy as np

from harness import enc

from pb_bss.extraction import mask_module as mm

# Gaussian integers with integer modulus
LAT = [0, 1, -1, 1j, -1j, 2, -2, 2j, 3, -3j, 4, 3 + 4j, -3 + 4j, 4 - 3j, 5, -5j, 5 + 12j, 6, 8 + 6j, 0, 0]


def _call(fn, *a, **kw):
    try:
        return fn(*a, **kw), ''
    except Exception as e:
        return None, type(e).__name__


def cases(tier, seed, args):
    rng = np.random.default_rng(seed + 18)
    q = tier == 'quick'
    out = []
    # every layout of rank 1..4
    for n in range(1, 5 if not q else 4):
        for ka in range(n):
            das = [None] + [d for d in range(n) if d != ka]
            for da in das:
                for fn in ['ibm', 'wiener', 'ratio', 'icm', 'psm']:
                    if da is not None and fn not in ('ibm', 'wiener'):
                        continue
                    for keep in ([False, True] if da is not None else [False]):
                        for rep in range(1 if q else 3):
                            out.append(dict(t='mask', fn=fn, n=n, ka=ka, da=da, keepdims=keep,
                                            shape=[int(rng.integers(1, 4)) for _ in range(n)],
                                            neg=bool(rng.integers(2)), seed=int(rng.integers(1 << 30)),
                                            regime=['lat', 'tied', 'zero'][int(rng.integers(3))]))
    # larger tensors
    for i in range(30 if q else 300):
        n = int(rng.integers(2, 5))
        ka = int(rng.integers(n))
        fn = ['ibm', 'wiener', 'ratio', 'icm', 'psm'][i % 5]
        da = None
        if fn in ('ibm', 'wiener') and i % 2:
            da = int(rng.choice([d for d in range(n) if d != ka]))
        out.append(dict(t='mask', fn=fn, n=n, ka=ka, da=da, keepdims=bool(i % 4 == 1),
                        shape=[int(rng.integers(1, 7)) for _ in range(n)], neg=bool(rng.integers(2)),
                        seed=int(rng.integers(1 << 30)), regime=['lat', 'tied', 'zero'][i % 3],
                        sexp=[0, -20, 20, -26][(i // 5) % 4] if fn in ('ratio', 'icm', 'psm') else 0, single=bool(i % 3 == 1)))
    # quantile / lorenz
    for i in range(40 if q else 400):
        n = int(rng.integers(2, 5))
        naxes = int(rng.integers(1, min(n, 2) + 1))
        axes = [int(a) for a in rng.choice(n, size=naxes, replace=False)]
        shape = [int(rng.integers(1, 4)) for _ in range(n)]
        for a in axes:
            shape[a] = int(rng.integers(3, 7))
        fn = ['quantile', 'lorenz'][i % 2]
        da = None
        if fn == 'lorenz' and i % 4 == 1:
            rest = [d for d in range(n) if d not in axes]
            if rest:
                da = int(rng.choice(rest))
        qv = [[1, 10], [3, 10], [1, 4], [1, 2], [-9, 10], [-1, 4], [-1, 2], [1, 8], [3, 4]][i % 9]
        fr = [[98, 100], [1, 2], [9, 10], [3, 4], [7, 10]][i % 5]
        w = [[999, 1000], [1, 2], [1, 1], [0, 1]][i % 4]
        out.append(dict(t='mask', fn=fn, n=n, ka=0, da=da, keepdims=bool(i % 8 == 1), axes=axes, shape=shape,
                        neg=bool(rng.integers(2)), seed=int(rng.integers(1 << 30)), q=qv, frac=fr, w=w,
                        regime=['lat', 'tied', 'distinct'][i % 3], scalar_axis=bool(naxes == 1 and i % 3 == 0),
                        qtuple=[0, 0, 1, 2, 3][(i // 2) % 5] if fn == 'quantile' else 0))
    # quantile thresholds that coincide with a sample: (N - 1) |q| integer, or mostly silent inputs (threshold 0)
    for i in range(12 if q else 72):
        n = 2 + i % 2
        odd = [3, 5, 7][(i // 2) % 3]
        shape = [int(rng.integers(1, 4)) for _ in range(n)]
        ax = int(rng.integers(n))
        shape[ax] = odd if i % 3 else 11
        qv = [[-1, 2], [1, 2], [-9, 10] if shape[ax] == 11 else [-1, 2], [-1, 4]][i % 4]
        out.append(dict(t='mask', fn='quantile', n=n, ka=0, da=None, keepdims=False, axes=[ax], shape=shape,
                        neg=bool(rng.integers(2)), seed=int(rng.integers(1 << 30)), q=qv, frac=[1, 2], w=[[999, 1000], [1, 2]][i % 2],
                        regime=['distinct', 'silent', 'distinct', 'tied'][(i // 4) % 4], scalar_axis=bool(i % 2), qtuple=0))
    return out


def _signal(rng, shape, regime):
    lat = np.array(LAT, dtype=complex)
    if regime == 'distinct':
        # integer moduli, many distinct values
        mods = rng.permutation(int(np.prod(shape)) + 3)[: int(np.prod(shape))] + 1
        ph = np.array([1, -1, 1j, -1j])[rng.integers(0, 4, size=mods.shape)]
        return (mods * ph).reshape(shape).astype(complex)
    s = lat[rng.integers(0, len(lat), size=shape)]
    if regime == 'tied':
        s = lat[rng.integers(0, 6, size=shape)]
    if regime == 'zero':
        s = s * (rng.random(shape) < 0.5)
    if regime == 'silent':
        s = s * (rng.random(shape) < 0.25)       # mostly silent time-frequency points
    return s


def run_case(case):
    rng = np.random.default_rng(case['seed'])
    n, ka, da = case['n'], case['ka'], case['da']
    shape = case['shape']
    sig = _signal(rng, shape, case['regime'])
    fn = case['fn']
    neg = case['neg']
    # the masks built from amplitude ratios are homogeneous of degree zero: the call sees 2^sexp * sig (an exact
    # scaling in binary floating point), the record carries the lattice signal the specification evaluates
    sexp = case.get('sexp', 0)
    lattice = sig
    if sexp:
        sig = sig * 2.0 ** sexp
    single = bool(case.get('single')) and not sexp
    if single:
        sig = sig.astype(np.complex64)          # Gaussian integers are exact in single precision as well
    A = lambda a: a - n if neg else a
    rec = dict(kind='mask', fn=fn, shape=enc.shape(lattice), sig=enc.acint(lattice), ka=A(ka),
               da=0 if da is None else A(da), has_da=da is not None, keepdims=case['keepdims'],
               mod=enc.aint(np.rint(np.abs(lattice)).astype(int)))
    d0 = enc.digest(sig)
    sig.setflags(write=False)
    kw = dict(source_axis=A(ka))
    if da is not None:
        kw['sensor_axis'] = A(da)
    if fn == 'ibm':
        out, exc = _call(mm.ideal_binary_mask, sig, keepdims=case['keepdims'], **kw)
    elif fn == 'wiener':
        out, exc = _call(mm.wiener_like_mask, sig, keepdims=case['keepdims'], **kw)
    elif fn == 'ratio':
        out, exc = _call(mm.ideal_ratio_mask, sig, **kw)
    elif fn == 'icm':
        with np.errstate(all='ignore'):
            out, exc = _call(mm.ideal_complex_mask, sig, **kw)
    elif fn == 'psm':
        out, exc = _call(mm.phase_sensitive_mask, sig, **kw)
    elif fn == 'quantile':
        axes = [A(a) for a in case['axes']]
        rec.update(axes=axes, q=case['q'], w=case['w'])
        ax = axes[0] if case.get('scalar_axis') else tuple(axes)
        qt = case.get('qtuple', 0)
        if qt:
            # sequence of quantiles: one mask per entry, each the scalar-quantile mask with the SAME weight
            q2 = [-1, 4] if case['q'][0] > 0 else [3, 10]
            qs = [case['q'], q2]
            seq = [a / b for a, b in qs]
            kwq = dict(axis=ax, weight=case['w'][0] / case['w'][1])
            if qt == 3:          # documented defaults: quantile=(0.1, -0.9), weight=0.999
                qs, kwq = [[1, 10], [-9, 10]], dict(axis=ax)
                rec['w'] = [999, 1000]
                outs, exc = _call(mm.quantile_mask, sig, **kwq)
            else:
                outs, exc = _call(mm.quantile_mask, sig, quantile=tuple(seq) if qt == 1 else list(seq), **kwq)
            if enc.digest(sig) != d0:
                exc = 'InputMutated'
            recs = []
            for j, qq in enumerate(qs):
                o = None if outs is None or np.shape(outs)[0] != len(qs) else outs[j]
                e = exc or ('' if o is not None else 'BadShape')
                recs.append(dict(rec, q=qq, exc=e, out_shape=[] if o is None else enc.shape(o),
                                 out=[] if o is None else enc.arat(np.real(o)),
                                 fp=f'fn=quantile;seq={qt};regime={case["regime"]};neg={neg}', key=f'quantile:{case["seed"]}:{j}'))
            return recs
        out, exc = _call(mm.quantile_mask, sig, quantile=case['q'][0] / case['q'][1], axis=ax,
                         weight=case['w'][0] / case['w'][1])
    else:
        axes = [A(a) for a in case['axes']]
        rec.update(axes=axes, frac=case['frac'], w=case['w'])
        ax = axes[0] if case.get('scalar_axis') else tuple(axes)
        kw2 = {}
        if da is not None:
            kw2['sensor_axis'] = A(da)
        out, exc = _call(mm.lorenz_mask, sig, axis=ax, lorenz_fraction=case['frac'][0] / case['frac'][1],
                         weight=case['w'][0] / case['w'][1], keepdims=case['keepdims'], **kw2)
    if enc.digest(sig) != d0:
        exc = 'InputMutated'
    rk = dict(rel=1e-6) if single else {}
    rec.update(exc=exc, out_shape=[] if out is None else enc.shape(out),
               out=[] if out is None else (enc.acrat(out, **rk) if fn == 'icm' else
                                           (enc.arat(np.real(out), **rk) if not np.iscomplexobj(out) or np.all(np.imag(out) == 0)
                                            else [list(enc.IRR_R)] * int(np.size(out)))),
               fp=f'fn={fn};regime={case["regime"]};da={"none" if da is None else "given"};neg={neg};sexp={sexp};single={single}',
               key=f'{fn}:{case["seed"]}')
    return [rec]
