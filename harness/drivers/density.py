"""Driver for C07: log_pdf of every distribution object at stored parameters."""
import numpy as np

from harness import enc
from harness.drivers import mmlib as ml
from harness.drivers.mmlib import call

from pb_bss.distribution.gaussian import Gaussian, DiagonalGaussian, SphericalGaussian
from pb_bss.distribution.complex_circular_symmetric_gaussian import ComplexCircularSymmetricGaussian
from pb_bss.distribution.complex_angular_central_gaussian import ComplexAngularCentralGaussian
from pb_bss.distribution.complex_watson import ComplexWatson
from pb_bss.distribution.von_mises_fisher import VonMisesFisher
from pb_bss.distribution.complex_bingham import ComplexBingham

Z = enc.azflt
DISTS = ['gauss_full', 'gauss_diagonal', 'gauss_spherical', 'cgauss', 'cacg', 'watson', 'vmf', 'bingham']


def cases(tier, seed, args):
    rng = np.random.default_rng(seed + 7)
    q = tier == 'quick'
    out = []
    for i in range(64 if q else 640):
        dist = DISTS[i % 8]
        lo = 2 if dist in ('cacg', 'watson', 'bingham') else 1      # (the real sphere S^0 = {-1, +1} is a legitimate vMF domain)
        hi = 6 if dist in ('cacg', 'watson', 'bingham') else 8
        out.append(dict(t='density', dist=dist, D=int(rng.integers(lo, hi + 1)), L=[int(rng.integers(1, 3)) for _ in range(int(rng.integers(0, 3)))],
                        P=int(rng.integers(2, 5)), seed=int(rng.integers(1 << 30)),
                        cond=float(10.0 ** rng.choice([0, 1, 2, 4, 6, 8])),
                        # concentrations: the whole range, the medium band where asymptotic forms start to apply, the top decade
                        kappa_exp=float([rng.uniform(-6, np.log10(500)), rng.uniform(np.log10(5), np.log10(40)),
                                         rng.uniform(1.5, np.log10(500))][(i // 8) % 3]),
                        mean_scale=[1.0, 1.0, 1e4, 1e6][(i // 8) % 4], layout='CF'[(i // 16) % 2]))
        if out[-1]['layout'] == 'F' and (i // 32) % 2 == 0:
            out[-1]['L'] = [[2, 3], [3, 2], [2, 2]][(i // 64) % 3]      # two genuine leading axes: C and Fortran order differ
    for i in range(14 if q else 84):
        dist = ['gauss_full', 'gauss_diagonal', 'gauss_spherical', 'cgauss', 'bingham', 'watson', 'vmf'][i % 7]
        out.append(dict(t='density', dist=dist, D=int(rng.integers(2, 5)), L=[int(rng.integers(1, 3)) for _ in range(int(rng.integers(0, 2)))],
                        P=2, seed=int(rng.integers(1 << 30)), cond=10.0, kappa_exp=0.5, mean_scale=1.0, layout='C', int_params=True))
    # many independent parameter sets at once (stacks of 33 .. 72 leading entries)
    for i in range(8 if q else 48):
        dist = DISTS[i % 8]
        lo = 2
        out.append(dict(t='density', dist=dist, D=int(rng.integers(lo, 4)), L=[[40], [5, 8], [3, 4, 3], [33]][(i // 8 + i) % 4], P=2,
                        seed=int(rng.integers(1 << 30)), cond=float(10.0 ** rng.choice([0, 2, 4])), kappa_exp=float(rng.uniform(-1, 2)),
                        mean_scale=1.0, layout='C'))
    # concentration sweeps of the directional normalisers: geometric grid over the whole admissible range, every dimension
    grid = np.geomspace(1e-6, 499.0, 32 if q else 128)
    for D in ((2, 4, 6) if q else (2, 3, 4, 5, 6)):
        for j, kap in enumerate(grid):
            out.append(dict(t='density', dist='watson', D=D, L=[], P=1, seed=int(rng.integers(1 << 30)), cond=1.0,
                            kappa_exp=float(np.log10(kap * (1 + 0.2 * rng.random()))), mean_scale=1.0, layout='C', exact_kappa=True))
    for D in ((1, 2, 3, 5, 8) if q else (1, 2, 3, 4, 5, 6, 7, 8)):
        for j, kap in enumerate(grid[::2]):
            out.append(dict(t='density', dist='vmf', D=D, L=[], P=1, seed=int(rng.integers(1 << 30)), cond=1.0,
                            kappa_exp=float(np.log10(kap * (1 + 0.2 * rng.random()))), mean_scale=1.0, layout='C', exact_kappa=True))
    # evaluation points that are almost, but not exactly, of unit norm (single-precision normalisation, gains 1 +- 4e-6),
    # close to each other, at high concentration: differences between the points resolve 1e-9 of the value
    for i in range(6 if q else 24):
        out.append(dict(t='density', dist='vmf', D=[3, 5, 8][i % 3], L=[[], [2]][i % 2], P=4, seed=int(rng.integers(1 << 30)), cond=1.0,
                        kappa_exp=float(np.log10([500.0, 300.0, 120.0][i % 3])), mean_scale=1.0, layout='C', exact_kappa=True,
                        near_unit=['gain', 'single'][(i // 3) % 2]))
    # spherical / diagonal Gaussians on extreme scales (variance 1e-100 .. 1e100; the condition number stays 1)
    for i in range(12 if q else 48):
        out.append(dict(t='density', dist=['gauss_spherical', 'gauss_diagonal'][i % 2], D=[8, 7, 5, 8][(i // 2) % 4], L=[[], [2]][(i // 4) % 2], P=2,
                        seed=int(rng.integers(1 << 30)), cond=1.0, kappa_exp=0.0, mean_scale=1.0, layout='C',
                        var_exp=[-39, 39, -60, 60, -100, 100, -45, 45, -20, 20, -30, 30][i % 12]))
    for kap in (0.75, 12.5, 200.0):
        for D in (2, 5, 3, 6, 4):
            for dist in ('watson', 'vmf'):
                out.append(dict(t='density', dist=dist, D=D, L=[2], P=1, seed=int(rng.integers(1 << 30)), cond=1.0,
                                kappa_exp=float(np.log10(kap)), mean_scale=1.0, layout='C', exact_kappa=True))
    return out


def _pd(rng, L, D, cond, cplx):
    a = rng.normal(size=(*L, D, D)) + (1j * rng.normal(size=(*L, D, D)) if cplx else 0)
    q, _ = np.linalg.qr(a)
    lam = np.logspace(0, -np.log10(cond), D) if D > 1 else np.ones(1)
    lam = lam * 10.0 ** rng.uniform(-1, 1)
    m = (q * lam) @ np.conj(np.swapaxes(q, -1, -2))
    return 0.5 * (m + np.conj(np.swapaxes(m, -1, -2))), q, lam


def run_case(case):
    rng = np.random.default_rng(case['seed'])
    dist, D, L, P = case['dist'], case['D'], case['L'], case['P']
    fp = f't=density;dist={dist};lead={len(L)};cond={case["cond"]:g}'
    kappa = 10.0 ** case['kappa_exp'] * np.ones(L) if L else np.array(10.0 ** case['kappa_exp'])
    if not case.get('exact_kappa'):
        kappa = kappa * rng.uniform(0.5, 1.0, size=kappa.shape)
    real = dist.startswith('gauss') or dist == 'vmf'
    y = rng.normal(size=(*L, P, D)) + (0 if real else 1j * rng.normal(size=(*L, P, D)))
    if dist in ('gauss_full', 'gauss_diagonal', 'gauss_spherical'):
        mean = rng.normal(size=(*L, D)) * case.get('mean_scale', 1.0)
        cov, _, _ = _pd(rng, L, D, min(case['cond'], 1e6), False)
        if case.get('mean_scale', 1.0) > 1:
            cov = cov * 1e-2
        cov = cov.real
        if case.get('var_exp') is not None:
            sd = 10.0 ** (case['var_exp'] / 2.0)
            cov = cov * sd * sd
            y = y * sd
        if dist == 'gauss_full':
            obj, e0 = call(Gaussian, mean=mean, covariance=cov)
        elif dist == 'gauss_diagonal':
            var = np.einsum('...dd->...d', cov) * rng.uniform(0.1, 10, size=(*L, D))
            obj, e0 = call(DiagonalGaussian, mean=mean, covariance=var)
        else:
            var = np.einsum('...dd->...', cov) / D
            obj, e0 = call(SphericalGaussian, mean=mean, covariance=var)
        y = y + mean[..., None, :]
    elif dist == 'cgauss':
        cov, _, _ = _pd(rng, L, D, min(case['cond'], 1e6), True)
        obj, e0 = call(ComplexCircularSymmetricGaussian, covariance=cov)
    elif dist == 'cacg':
        _, U, lam = _pd(rng, L, D, case['cond'], True)
        lam = np.broadcast_to(lam / lam.max(), (*L, D)).copy()
        obj, e0 = call(ComplexAngularCentralGaussian, covariance_eigenvectors=U, covariance_eigenvalues=lam)
    elif dist == 'watson':
        mode = ml.unit(rng.normal(size=(*L, D)) + 1j * rng.normal(size=(*L, D)))
        obj, e0 = call(ComplexWatson, mode=mode, concentration=kappa)
    elif dist == 'vmf':
        mean = ml.unit(rng.normal(size=(*L, D)))
        obj, e0 = call(VonMisesFisher, mean=mean, concentration=kappa)
    else:
        _, U, _ = _pd(rng, L, D, 10.0, True)
        lam = -np.sort(rng.uniform(0.2, 8.0, size=(*L, D)), axis=-1)[..., ::-1] * np.arange(D)
        lam = lam - lam.max(-1, keepdims=True)
        lam = lam + np.arange(D)[::-1] * (-1e-3)          # gaps >= 1e-3
        lam = lam - lam.max(-1, keepdims=True)
        obj, e0 = call(ComplexBingham, covariance_eigenvectors=U, covariance_eigenvalues=lam)
    if case.get('int_params') and obj is not None:
        # integer-valued parameters handed over with an INTEGER dtype (lists of ints, label-like arrays): the same density
        import dataclasses
        ip = {}
        if dist in ('gauss_full', 'gauss_diagonal', 'gauss_spherical', 'cgauss'):
            a = rng.integers(-2, 3, size=(*L, D, D))
            spd = a @ np.swapaxes(a, -1, -2) + 2 * np.eye(D, dtype=np.int64)
            if dist == 'gauss_full':
                ip = dict(mean=rng.integers(-3, 4, size=(*L, D)), covariance=spd)
            elif dist == 'gauss_diagonal':
                ip = dict(mean=rng.integers(-3, 4, size=(*L, D)), covariance=np.einsum('...dd->...d', spd).copy())
            elif dist == 'gauss_spherical':
                ip = dict(mean=rng.integers(-3, 4, size=(*L, D)), covariance=rng.integers(1, 5, size=L) if L else np.array(3))
            else:
                ip = dict(covariance=spd)
            if 'mean' in ip:
                y = y - mean[..., None, :] + ip['mean'][..., None, :]
        elif dist == 'bingham':
            ip = dict(covariance_eigenvectors=obj.covariance_eigenvectors,
                      covariance_eigenvalues=np.broadcast_to(-np.cumsum(rng.integers(1, 4, size=D))[::-1] + 0, (*L, D)).copy())
            ip['covariance_eigenvalues'] = ip['covariance_eigenvalues'] - ip['covariance_eigenvalues'].max(-1, keepdims=True)
        elif dist in ('watson', 'vmf'):
            ip = dict(**{('mode' if dist == 'watson' else 'mean'): getattr(obj, 'mode' if dist == 'watson' else 'mean')},
                      concentration=(rng.integers(1, 40, size=L) if L else np.array(int(rng.integers(1, 40)))))
        if ip:
            obj, e0 = call(type(obj), **ip)
            fp += ';int_params'
    if case.get('layout') == 'F' and obj is not None:
        # the same parameter values held in Fortran-ordered buffers (transposed views, loadmat output, einsum results)
        import dataclasses
        kwf = {f.name: (np.asfortranarray(getattr(obj, f.name)) if isinstance(getattr(obj, f.name), np.ndarray) and
                        getattr(obj, f.name).ndim >= 2 else getattr(obj, f.name))
               for f in dataclasses.fields(obj) if f.init}
        obj, e0 = call(type(obj), **kwf)
        fp += ';layout=F'
    if obj is None:
        return [dict(kind='density', dist=dist, exc='construct:' + e0, fp=fp, key=f'den:{case["seed"]}')]
    yy = y if dist not in ('cacg', 'watson', 'vmf', 'bingham') else y * 10.0 ** rng.uniform(-3, 3, size=(*L, P, 1))
    if case.get('near_unit'):
        base = ml.unit(rng.normal(size=(*L, 1, D)) + 2.0 * obj.mean[..., None, :])
        y = ml.unit(base + 1e-4 * rng.normal(size=(*L, P, D)))
        if case['near_unit'] == 'gain':
            yy = y * (1.0 + 4e-6 * rng.uniform(-1, 1, size=(*L, P, 1)))
        else:
            yy = ml.unit(y.astype(np.float32)).astype(np.float64)      # normalised in single precision
            y = ml.unit(yy)
        fp += f';near_unit={case["near_unit"]}'
    if dist == 'bingham':
        yy = ml.unit(y)
    import copy as _copy
    snap = _copy.deepcopy(obj)
    lp, exc = call(obj.log_pdf, yy)
    if lp is not None and case['seed'] % 2:
        # the object is evaluated again (and once on other points in between): same density, same stored parameters
        call(obj.log_pdf, yy[..., ::-1, :] * (1.0 if dist == 'bingham' else 1.5))
        lp, exc = call(obj.log_pdf, yy)
    if lp is not None:
        import dataclasses as _dc
        for f_ in _dc.fields(obj):
            a0, a1 = getattr(snap, f_.name), getattr(obj, f_.name)
            if isinstance(a0, np.ndarray) and not (np.shape(a0) == np.shape(a1) and np.array_equal(a0, a1, equal_nan=True)):
                lp, exc = None, 'ModelMutated'        # evaluating a density must not change the distribution object
                break
    recs = []
    idxs = list(np.ndindex(*L, P))
    rng.shuffle(idxs)
    for idx in idxs[:3]:
        li, p = idx[:-1], idx[-1]
        rec = dict(kind='density', dist=dist, D=D, exc=exc, fp=fp, key=f'den:{case["seed"]}:{idx}', kern=[])
        if lp is None:
            recs.append(rec)
            break
        if np.shape(lp) != (*L, P):
            rec['exc'] = 'WrongShape'
            recs.append(rec)
            break
        rec['lp'] = enc.flt(lp[idx])
        z = ml.unit(y[idx]) if dist in ('cacg', 'watson', 'vmf', 'bingham') else y[idx]
        if dist == 'gauss_full' or dist == 'cgauss':
            S = obj.covariance[li]
            Lc = np.linalg.cholesky(S)
            d = y[idx] - (obj.mean[li] if dist == 'gauss_full' else 0)
            v = np.linalg.solve(Lc, d)
            rec.update(cov=Z(S), L=Z(Lc), v=Z(v), y=Z(y[idx]), d=Z(d))
            if dist == 'gauss_full':
                rec['mean'] = Z(obj.mean[li])
            rec['kern'] = [dict(fn='ln', idx=a + 1, arg_f=float(Lc[a, a].real)) for a in range(D)]
        elif dist == 'gauss_diagonal':
            rec.update(var=enc.aflt(obj.covariance[li]), mean=Z(obj.mean[li]), y=Z(y[idx]), d=Z(y[idx] - obj.mean[li]))
            rec['kern'] = [dict(fn='ln', idx=a + 1, arg_f=float(obj.covariance[li][a])) for a in range(D)]
        elif dist == 'gauss_spherical':
            rec.update(var=[enc.flt(obj.covariance[li])], mean=Z(obj.mean[li]), y=Z(y[idx]), d=Z(y[idx] - obj.mean[li]))
            rec['kern'] = [dict(fn='ln', idx=1, arg_f=float(obj.covariance[li]))]
        elif dist == 'cacg':
            U, lam = obj.covariance_eigenvectors[li], obj.covariance_eigenvalues[li]
            quad = float(np.sum(np.abs(U.conj().T @ z) ** 2 / lam))
            rec.update(U=Z(U), lam=enc.aflt(lam), z=Z(z))
            rec['kern'] = [dict(fn='ln', idx=0, arg_f=quad)] + [dict(fn='ln', idx=e + 1, arg_f=float(lam[e])) for e in range(D)]
        elif dist == 'watson':
            rec.update(mode=Z(obj.mode[li]), kappa=enc.flt(obj.concentration[li]), z=Z(z))
            rec['kern'] = [dict(fn='watson_lognorm', idx=1, arg_f=float(obj.concentration[li]), D=D)]
        elif dist == 'vmf':
            rec.update(mean=Z(obj.mean[li]), kappa=enc.flt(obj.concentration[li]), z=Z(z))
            if case.get('near_unit'):
                # a second point of the same call: the difference of the two values (formed in double precision) against
                # the difference of the two directions
                p2 = (p + 1) % P
                rec.update(has_pair=True, dlp=enc.flt(float(lp[idx]) - float(lp[(*li, p2)])), dz=Z(z - ml.unit(y[(*li, p2)])))
            rec['kern'] = [dict(fn='vmf_lognorm', idx=1, arg_f=float(obj.concentration[li]), D=D)]
        else:
            U, lam = obj.covariance_eigenvectors[li], obj.covariance_eigenvalues[li]
            rec.update(U=Z(U), lam=enc.aflt(lam), z=Z(z))
            rec['kern'] = [dict(fn='bingham_arg', idx=e + 1, arg_f=float(lam[e])) for e in range(D)] + \
                          [dict(fn='bingham_lognorm', idx=1, arg_f=0.0, args_f=[float(x) for x in lam], D=D)]
        recs.append(rec)
    return recs
