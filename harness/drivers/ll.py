"""Driver for C02: per-iteration mixture log-likelihood traces (hook based)."""
import numpy as np

from harness import enc
from harness.drivers import mmlib as ml
from harness.drivers import mm as mmd
from harness.drivers.mmlib import call, flat

from pb_bss import _verif


def cases(tier, seed, args):
    rng = np.random.default_rng(seed + 2)
    q = tier == 'quick'
    out = []
    kinds = ['cacgmm', 'cwmm', 'gmm', 'gcacgmm', 'cacgmm', 'gmm', 'cacgmm', 'gmm']
    for i in range(16 if q else 160):
        kind = kinds[i % 8]
        integ = kind in ml.INTEGRATION
        nlead = 1 if integ else int(rng.integers(0, 2))
        K = int(rng.integers(2, 4))
        D = int(rng.integers(2, 4))
        wcas = [(-1,), (-3,), (-3, -1)] if integ else ([(-1,), (-3,), (-3, -1), -2] if nlead else [(-1,), -2, (-2,)])
        wca = wcas[int(rng.integers(len(wcas)))]
        sc = dict(t='ll', kind=kind, L=[2] * nlead, K=K, D=D, N=4 * K * D + int(rng.integers(0, 8)), wca=wca,
                  wca_type='int' if isinstance(wca, int) else 'tuple', iterations=int(8 if q else rng.choice([8, 20, 50])),
                  saliency=bool(i % 3 == 1), seed=int(rng.integers(1 << 30)), opts={}, offset=float([0, 0, 1e3, 1e7][i % 4]) if kind == 'gmm' else 0.0,
                  sal_class=bool(i % 6 == 1))
        if kind == 'cacgmm':
            sc['opts'] = dict(covariance_norm=['eigenvalue', 'trace', False][i % 3], affiliation_eps=0.0)
            if i % 8 == 4:
                # saliency correlated with the class, long trajectory
                sc.update(saliency=True, sal_class=True, iterations=30, K=2, D=3, N=100, L=[2], wca=[(-1,), (-3, -1)][(i // 8) % 2],
                          wca_type='tuple')
            if i % 8 == 6:
                # weights tied over frequency, saliency mass and class proportions differ between the bins
                sc.update(saliency=True, sal_class=True, sal_bin=True, iterations=30, K=2, D=3, N=80, L=[3],
                          wca=[(-3, -1), (-3,)][(i // 8) % 2], wca_type='tuple')
        if kind == 'gmm':
            sc['opts'] = dict(covariance_type=['full', 'diagonal', 'spherical'][(i // 2) % 3])
            if sc['offset'] >= 1e7:
                sc.update(iterations=40, K=3, D=2, N=120, L=[], wca=[(-1,), -2][i % 2], wca_type=['tuple', 'int'][i % 2])
        if kind == 'gcacgmm':
            sc['opts'] = dict(spatial_weight=1.0, spectral_weight=1.0, covariance_type=['spherical', 'diagonal', 'full'][i % 3],
                              affiliation_eps=0.0)
            sc['E'] = 3
        out.append(sc)
    # integration model with a non-uniform saliency that is correlated with the (soft) initial class
    for i in range(4 if q else 24):
        out.append(dict(t='ll', kind='gcacgmm', L=[2 + i % 2], K=2, D=3, N=40, wca=[(-1,), (-3, -1)][i % 2], wca_type='tuple',
                        iterations=12 if q else 25, saliency=True, seed=int(rng.integers(1 << 30)),
                        opts=dict(spatial_weight=1.0, spectral_weight=1.0, covariance_type=['spherical', 'full', 'diagonal'][i % 3],
                                  affiliation_eps=0.0), offset=0.0, sal_class=True, E=3))
    # badly scaled / sharply concentrated regimes
    for i in range(12 if q else 48):
        if i % 2 == 0:
            # GMM on small-scale data (class std 1e-3 .. 1e-5): absolute regularisers are no longer negligible
            out.append(dict(t='ll', kind='gmm', L=[], K=2 + i % 2, D=2, N=60, wca=(-1,), wca_type='tuple', iterations=8 if q else 20,
                            saliency=False, seed=int(rng.integers(1 << 30)), opts=dict(covariance_type=['full', 'diagonal', 'spherical'][(i // 2) % 3]),
                            offset=0.0, sal_class=False, scale=[1e-3, 1e-4, 1e-5][(i // 6) % 3], informed=bool((i // 2) % 2)))
        else:
            # cWMM with sharply concentrated classes: fitted concentrations between 100 and the limit of 500
            out.append(dict(t='ll', kind='cwmm', L=[], K=2, D=3, N=[60, 200][(i // 2) % 2], wca=(-1,), wca_type='tuple', iterations=15 if q else 30,
                            saliency=False, seed=int(rng.integers(1 << 30)), opts={}, offset=0.0, sal_class=False,
                            noise=[0.1, 0.066, 0.12, 0.06, 0.07, 0.055][(i // 2) % 6], informed=bool((i // 2) % 2)))
    # long signals (more than 1024 observations, not a multiple of 1024)
    for i in range(1 if q else 4):
        out.append(dict(t='ll', kind='cacgmm', L=[], K=2, D=3, N=[1500, 2047, 1100, 1300][i % 4], wca=(-1,), wca_type='tuple', iterations=5,
                        saliency=False, seed=int(rng.integers(1 << 30)), opts=dict(covariance_norm='eigenvalue', affiliation_eps=0.0),
                        offset=0.0, sal_class=False, every=1))
    # more than 4096 observations, source after source (blocks of unequal class mass)
    for i in range(1 if q else 3):
        out.append(dict(t='ll', kind='cwmm', L=[], K=2, D=3, N=[4296, 4500, 8200][i % 3], wca=(-1,), wca_type='tuple', iterations=10 if q else 20,
                        saliency=False, seed=int(rng.integers(1 << 30)), opts={}, offset=0.0, sal_class=False, noise=0.3, informed=False,
                        sorted_labels=True))
    # peak-normalised recordings: the longest observation vector has norm one (exactly / within rounding), the others are shorter
    for i in range(3 if q else 12):
        out.append(dict(t='ll', kind='cwmm', L=[[], [2]][i % 2], K=2, D=3, N=[60, 120, 90][i % 3], wca=(-1,), wca_type='tuple', iterations=8 if q else 16,
                        saliency=False, seed=int(rng.integers(1 << 30)), opts={}, offset=0.0, sal_class=False, noise=[0.25, 0.3, 0.2][i % 3], informed=bool(i % 2),
                        peak=True))
    # embeddings of the integration model handed over as a transposed view / in Fortran order (same values)
    for i in range(8 if q else 24):
        out.append(dict(t='ll', kind='gcacgmm', L=[[4], [2], [3], [8]][i % 4], K=2, D=3, N=[100, 200, 60, 40][i % 4], wca=[(-1,), (-3, -1)][i % 2], wca_type='tuple',
                        iterations=8, saliency=False, seed=int(rng.integers(1 << 30)),
                        opts=dict(spatial_weight=1.0, spectral_weight=1.0, covariance_type=['spherical', 'full', 'diagonal'][i % 3],
                                  affiliation_eps=0.0), offset=0.0, sal_class=False, E=3, emb_layout=['view', 'F', 'view'][i % 3], informed_pos=True))
    # badly spread data: two heavy regular clusters (integer saliency = repetitions) and a few points 1e3 deviations away
    for i in range(3 if q else 12):
        out.append(dict(t='ll', kind='gmm', L=[], K=3, D=2, N=46, wca=(-1,), wca_type='tuple', iterations=6, saliency=True,
                        seed=int(rng.integers(1 << 30)), opts=dict(covariance_type=['full', 'diagonal', 'spherical'][i % 3]), offset=0.0,
                        sal_class=False, far_cluster=True))
    # long soft-start runs in which one class crosses a concentration of 200 on its way (the other class stays ordinary)
    for i in range(2 if q else 8):
        out.append(dict(t='ll', kind='cwmm', L=[], K=2, D=3, N=[400, 600][i % 2], wca=(-1,), wca_type='tuple', iterations=16,
                        saliency=False, seed=1 + 2 * int(rng.integers(1 << 29)), opts={}, offset=0.0, sal_class=False,
                        noise=[0.066, 0.06, 0.07, 0.062][i % 4], informed=False))
    return out


def _gauss_ref(g, x):
    """log N(x; mean, cov) for x (..., K-broadcast, N, E) from the STORED mean / covariance (independent of log_pdf)."""
    name = type(g).__name__
    mean = np.asarray(g.mean, dtype=float)
    cov = np.asarray(g.covariance, dtype=float)
    d = x - mean[..., None, :]
    E = d.shape[-1]
    if name == 'Gaussian':
        sign, logdet = np.linalg.slogdet(cov)
        sol = np.linalg.solve(cov[..., None, :, :], d[..., None])[..., 0]
        quad = np.sum(d * sol, axis=-1)
        return -0.5 * E * np.log(2 * np.pi) - 0.5 * logdet[..., None] - 0.5 * quad
    if name == 'DiagonalGaussian':
        return -0.5 * E * np.log(2 * np.pi) - 0.5 * np.sum(np.log(cov), axis=-1)[..., None] - 0.5 * np.sum(d * d / cov[..., None, :], axis=-1)
    return -0.5 * E * np.log(2 * np.pi) - 0.5 * E * np.log(cov)[..., None] - 0.5 * np.sum(d * d, axis=-1) / cov[..., None]


def _cacg_ref(c, y):
    z = ml.unit(y)[..., None, :, :]
    U, lam = c.covariance_eigenvectors, c.covariance_eigenvalues
    proj = np.einsum('...de,...nd->...ne', np.conj(U), z)
    q = np.sum(np.abs(proj) ** 2 / lam[..., None, :], axis=-1)
    return -y.shape[-1] * np.log(q) - np.sum(np.log(lam), axis=-1)[..., None]


def ref_log_pdf(kind, model, data):
    """Component log densities (*L, K, N) of the CURRENT model from their defining closed forms, evaluated on the stored
    parameters with NumPy / SciPy only (no pb_bss density code)."""
    from scipy.special import hyp1f1, gammaln
    y = data['y']
    if kind == 'cacgmm':
        return _cacg_ref(model.cacg, y)
    if kind == 'cwmm':
        z = ml.unit(y)[..., None, :, :]
        D = y.shape[-1]
        w, kap = model.complex_watson.mode, np.asarray(model.complex_watson.concentration, dtype=float)
        p = np.abs(np.einsum('...d,...nd->...n', np.conj(w), z)) ** 2
        lognorm = np.log(2.0) + D * np.log(np.pi) - gammaln(D) + np.log(hyp1f1(1, D, kap))
        return kap[..., None] * p - lognorm[..., None]
    if kind == 'gmm':
        return _gauss_ref(model.gaussian, y[..., None, :, :])
    if kind == 'gcacgmm':
        F, T, D = y.shape
        emb = data['emb']
        E = emb.shape[-1]
        lp = _gauss_ref(model.gaussian, np.reshape(emb, (1, F * T, E)))
        K = lp.shape[0]
        lp = np.transpose(np.reshape(lp, (K, F, T)), (1, 0, 2))
        return model.spatial_weight * _cacg_ref(model.cacg, y) + model.spectral_weight * lp
    return None


def _eff_weight(kind, model, full, wca):
    """stored weight re-expanded to a shape broadcastable against (..L, K, N)"""
    w = np.asarray(model.weight, dtype=float)
    if kind in ml.INTEGRATION:
        R = len(full)
        axes = sorted(a % R for a in ([wca] if isinstance(wca, int) else wca))
        shape = [1 if i in axes else full[i] for i in range(R)]
        return np.reshape(w, shape)
    return w


def run_case(case):
    rng = np.random.default_rng(case['seed'])
    kind, L, K, D, N = case['kind'], case['L'], case['K'], case['D'], case['N']
    data = ml.make_data(rng, kind, L, K, D, N, regime='regular', E=case.get('E'))
    if kind == 'gmm':
        lab = rng.integers(0, K, size=(*L, N))
        data['y'] = rng.normal(size=(*L, N, D)) + 3.0 * np.eye(K, D)[lab] + case['offset']
    lab0 = None
    far = None
    if kind == 'gmm' and case.get('far_cluster'):
        labf = np.arange(N) % 2
        y_ = rng.normal(size=(N, D)) + 6.0 * np.eye(2, D)[labf]
        y_[-6:] = 1e3 + rng.normal(size=(6, D))
        data['y'] = y_
        far = np.ones(N)
        far[:-6] = 400.0                      # every regular observation stands for 400 repetitions
    if kind == 'gmm' and case.get('scale'):
        data['y'] = (data['y'] - case['offset']) * case['scale']
        lab0 = lab
    if kind == 'cwmm' and case.get('noise'):
        proto = ml.unit(rng.normal(size=(K, D)) + 1j * rng.normal(size=(K, D)))
        lab0 = rng.integers(0, K, size=(*L, N))
        if case.get('sorted_labels'):
            lab0 = np.sort(lab0, axis=-1)
        # class 0 sharply concentrated, the other classes ordinary (every second case): the concentrated class is not clipped
        sig = np.full(K, case['noise'])
        if case['seed'] % 2:
            sig[1:] = 0.25
        data['y'] = proto[lab0] + (sig[lab0] / np.sqrt(2))[..., None] * (rng.normal(size=(*L, N, D)) + 1j * rng.normal(size=(*L, N, D)))
    if case.get('peak'):
        mag = rng.uniform(0.7, 1.0, size=data['y'].shape[:-1] + (1,))
        yy_ = ml.unit(data['y']) * mag
        data['y'] = yy_ / np.max(np.linalg.norm(yy_, axis=-1))
    lab = None
    if case.get('sal_class') and kind == 'cacgmm':
        # overlapping anisotropic cACG sources: y = A_k x
        A = rng.normal(size=(*L, K, D, D)) + 1j * rng.normal(size=(*L, K, D, D))
        A[..., 0] *= 3
        lab = rng.integers(0, K, size=(*L, N))
        if case.get('sal_bin'):
            # class proportions differ between the bins
            pr = np.linspace(0.2, 0.8, L[0])
            lab = (rng.random((*L, N)) < pr[:, None]).astype(int)
        x = rng.normal(size=(*L, N, D)) + 1j * rng.normal(size=(*L, N, D))
        Al = np.take_along_axis(A, lab[..., None, None], axis=-3) if False else \
            np.stack([A[..., k, :, :] for k in range(K)], axis=-3)
        sel = np.zeros((*L, N, D, D), complex)
        for k in range(K):
            sel = np.where((lab == k)[..., None, None], A[..., k, None, :, :], sel)
        data['y'] = np.einsum('...nde,...ne->...nd', sel, x)
    init = ml.make_init(rng, L, K, N)
    if case.get('informed_pos') and 'emb' in data:
        # both streams follow one labelling; the start is a blurred (strictly positive) version of it
        labp = rng.integers(0, K, size=(*L, N))
        cent = rng.normal(size=(K, data['emb'].shape[-1])) * 2
        data['emb'] = cent[labp] + 0.3 * rng.normal(size=data['emb'].shape)
        proto = rng.normal(size=(*L, K, D)) + 1j * rng.normal(size=(*L, K, D))
        data['y'] = np.take_along_axis(proto, labp[..., None], axis=-2) + 0.3 * (rng.normal(size=(*L, N, D)) + 1j * rng.normal(size=(*L, N, D)))
        init = 0.9 * np.moveaxis(np.eye(K)[labp], -1, -2) + 0.1 / K
    if case.get('emb_layout') and 'emb' in data:
        e0 = np.ascontiguousarray(data['emb'])
        if case['emb_layout'] == 'F':
            data['emb'] = np.asfortranarray(e0)
        else:
            # a (T, F, E) array (e.g. a network output) handed over as its (F, T, E) transposed view
            data['emb'] = np.ascontiguousarray(np.swapaxes(e0, 0, 1)).swapaxes(0, 1)
        assert np.array_equal(data['emb'], e0) and not data['emb'].flags.c_contiguous
    if case.get('informed') and lab0 is not None:
        init = 0.96 * np.moveaxis(np.eye(K)[lab0], -1, -2) + 0.04 / K
        init = init / init.sum(-2, keepdims=True)
    opts = dict(case['opts'])
    opts['weight_constant_axis'] = mmd.wca_arg(case)
    sal = None
    if case['saliency']:
        sal = rng.integers(1, 4, size=(*L, N)).astype(float)
        if lab is not None:
            sal = np.where(lab == 0, rng.uniform(0.5, 1.0, size=(*L, N)), rng.uniform(0.05, 0.2, size=(*L, N)))
            if case.get('sal_bin'):
                sal = np.ones((*L, N))
                sal[0] = 20.0              # integer saliency: 20 in one bin, 1 in the others
        elif case.get('sal_class'):
            # saliency correlated with the (soft) initial class
            sal = np.where(init[..., 0, :] > np.median(init[..., 0, :]), rng.uniform(0.5, 1.0, size=(*L, N)),
                           rng.uniform(0.05, 0.2, size=(*L, N)))
        if far is not None:
            sal = far
            init = rng.uniform(0.05, 1.0, size=(K, N))
            init = init / init.sum(0, keepdims=True)
        opts['saliency'] = sal
    if kind == 'cwmm':
        # history: a trainer of the same class has been used with another feature dimension in this process
        from pb_bss.distribution import CWMMTrainer
        yo = rng.normal(size=(20, D + 1)) + 1j * rng.normal(size=(20, D + 1))
        call(CWMMTrainer().fit, yo, initialization=ml.make_init(rng, [], K, 20), iterations=2)
    models = []

    def cb(ev, f):
        if ev == 'mstep':
            models.append(f['model'])
    _verif.register(cb)
    try:
        model, exc = call(ml.fit, kind, data, init, case['iterations'], opts)
    finally:
        _verif.unregister(cb)
    fp = f't=ll;model={kind};wca={case["wca"]};sal={case["saliency"]};salclass={case.get("sal_class")};opts={case["opts"]};offset={case["offset"]:g}' \
         f';scale={case.get("scale")};noise={case.get("noise")}'
    if model is None:
        if exc in mmd.EXPLICIT:
            return []
        return [dict(kind='ll', exc=exc, first=True, fp=fp, key=f'll:{case["seed"]}', tid=case['seed'])]
    full = [*L, K, N]
    recs = []
    for t, m in enumerate(models):
        lp_own, e = call(ml.component_log_pdf, kind, m, data)
        lp = lp_own
        if lp_own is not None:
            with np.errstate(all='ignore'):
                ref, e_ref = call(ref_log_pdf, kind, m, data)
            if ref is not None and np.shape(ref) == np.shape(lp_own):
                lp = ref                # the likelihood is evaluated with the defining density of the current parameters
        if lp is None:
            recs.append(dict(kind='ll', exc='log_pdf:' + e, first=t == 0, fp=fp, key=f'll:{case["seed"]}:{t}', tid=case['seed']))
            continue
        w = _eff_weight(kind, m, full, case['wca'])
        with np.errstate(all='ignore'):
            a = np.log(np.broadcast_to(w, lp.shape)) + lp
            mx = np.max(a, axis=-2, keepdims=True)
            ell = (mx + np.log(np.sum(np.exp(a - mx), axis=-2, keepdims=True)))[..., 0, :]
        args = lp - ell[..., None, :]
        F = getattr(m, '__dataclass_fields__', {})
        lam = m.cacg.covariance_eigenvalues if 'cacg' in F else np.ones(1)
        kap = m.complex_watson.concentration if 'complex_watson' in F else np.ones(1)
        pw = (sal if sal is not None else 1.0) * ell
        hi = np.rint(np.nan_to_num(pw, posinf=0, neginf=0) * 1024.0)
        fine_ok = bool(np.sum(np.abs(hi)) < 2 ** 30)        # the exact integer sum must fit TLC's 32-bit integers
        if not fine_ok:
            hi = np.zeros_like(hi)
        lo = pw - hi / 1024.0
        rec = dict(kind='ll', exc='', first=t == 0, full=full, fine_ok=fine_ok, fix_hi=[int(x) for x in hi.ravel()],
                   fix_lo=[enc.flt(x) for x in lo.ravel()], w=flat(w), lp=flat(lp), lp_own=flat(lp_own), ell=flat(ell),
                   kexp_args=[float(x) for x in args.ravel()], has_sal=sal is not None,
                   sal=flat(sal) if sal is not None else dict(shape=[], data=[]),
                   lam=flat(lam), kappa=flat(kap), floor=enc.flt(1e-10), kmin=enc.flt(0.0), kmax=enc.flt(500.0),
                   has_own=False, own=enc.flt(0.0), mslack=enc.flt(1e-3 if kind == 'cwmm' else 0.0),
                   fp=fp, key=f'll:{case["seed"]}:{t}', tid=case['seed'], cost=K * N)
        if kind == 'cacgmm' and sal is None:
            own, e2 = call(m.log_likelihood, data['y'])
            if own is not None:
                rec['has_own'] = True
                rec['own'] = enc.flt(float(own))
        recs.append(rec)
    return recs
