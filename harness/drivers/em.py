"""Driver for C08 (estimators, EM alternation) and C02 (likelihood traces): hook-based iteration traces."""
import numpy as np

from harness import enc
from harness.drivers import mmlib as ml
from harness.drivers import mm as mmd
from harness.drivers.mmlib import call, flat, flatz, flati, flatr

from pb_bss import _verif
from pb_bss.distribution import mixture_model_utils as mmu
from pb_bss.distribution.gaussian import GaussianTrainer
from pb_bss.distribution.complex_watson import ComplexWatsonTrainer
from pb_bss.distribution.von_mises_fisher import VonMisesFisherTrainer
from pb_bss.distribution.complex_angular_central_gaussian import ComplexAngularCentralGaussianTrainer
from pb_bss.permutation_alignment import GreedyPermutationAlignment, DHTVPermutationAlignment

COMP = dict(cacgmm='cacg', cwmm='watson', cbmm='bingham', gmm='gaussian', vmfmm='vmf', gcacgmm='cacg', vmfcacgmm='cacg')


def cases(tier, seed, args):
    rng = np.random.default_rng(seed + 8)
    q = tier == 'quick'
    out = []
    if args.get('prop') == 'C14':
        # EM with an inline aligner (with and without a source-activity mask): the align step only permutes
        for i in range(8 if q else 48):
            sc = mmd.scenario(rng, 'cacgmm', tier)
            sc.update(regime=['regular', 'separable'][i % 2], init='soft', dtype='float64', iterations=2 + i % 3, saliency=bool(i % 4 == 1),
                      K=2 + i % 3, D=2, N=int(rng.integers(8, 12)), L=[[3], [5]][i % 2], wca=[(-3,), (-3, -1)][(i // 2) % 2], wca_type='tuple',
                      aligner=True, sam=bool(i % 2 == 0))
            sc.pop('wca_pos', None)
            out.append(dict(t='emtrace', **sc))
        return out
    n = 28 if q else 280
    for i in range(n):
        kind = ml.KINDS[i % 7]
        sc = mmd.scenario(rng, kind, tier)
        sc['regime'] = ['regular', 'separable'][i % 2]
        sc['init'] = 'soft'
        sc['dtype'] = 'float64'
        sc['iterations'] = int(rng.integers(1, 5 if q else 9))
        sc['saliency'] = bool(i % 3 != 2)
        sc['K'] = int(rng.integers(2, 4))
        sc['N'] = int(rng.integers(8, 14))
        sc['D'] = int(rng.integers(2, 4))
        sc['L'] = sc['L'][:1] if not sc.get('aligner') else sc['L']
        if sc['L'] and not sc.get('aligner'):
            sc['L'] = [min(sc['L'][0], 2)]
        if kind == 'cacgmm' and i % 14 == 0:
            sc['aligner'] = True
            sc['wca'] = (-3,)
            sc['wca_type'] = 'tuple'
            sc['L'] = [3]
            sc['K'] = 3
            sc['iterations'] = max(3, sc['iterations'])
        out.append(dict(t='emtrace', **sc))
    # inline alignment inside EM with K = 3 / 4 (non-involutive per-bin permutations occur)
    for i in range(4 if q else 24):
        sc = mmd.scenario(rng, 'cacgmm', tier)
        sc.update(regime=['regular', 'separable'][i % 2], init='soft', dtype='float64', iterations=3 + i % 2, saliency=bool(i % 2),
                  K=3 + i % 2, D=2, N=int(rng.integers(8, 11)), L=[3], wca=[(-3,), (-3, -1)][(i // 2) % 2], wca_type='tuple',
                  aligner=True, sam=False)
        out.append(dict(t='emtrace', **sc))
    # clipping constants that are active (several iterations on separable data, three and more classes)
    for i in range(4 if q else 24):
        kind = ['cacgmm', 'cbmm', 'cacgmm', 'gcacgmm'][i % 4]
        sc = mmd.scenario(rng, kind, tier)
        sc.update(regime='separable', init='soft', dtype='float64', iterations=4 + i % 3, saliency=False, K=3 + (i // 2) % 2, D=3,
                  N=int(rng.integers(12, 16)), L=[2] if kind == 'gcacgmm' else [], wca=(-1,), wca_type='tuple', aligner=False, sam=False)
        sc['opts'] = dict({k: v for k, v in sc['opts'].items() if k not in ('inline_permutation_alignment',)}, affiliation_eps=[0.02, 0.005][i % 2])
        sc.pop('wca_pos', None)
        out.append(dict(t='emtrace', **sc))
    # continued fits (initialisation by a model)
    for i in range(4 if q else 24):
        sc = mmd.scenario(rng, 'cacgmm', tier)
        sc.update(regime=['regular', 'separable'][i % 2], init='soft', dtype='float64', iterations=1 + i % 3, saliency=bool(i % 2), K=2 + i % 2,
                  D=3, N=int(rng.integers(8, 13)), L=[[], [2]][i % 2], wca=(-1,), wca_type='tuple', aligner=False, sam=False, continued=True)
        sc.pop('wca_pos', None)
        out.append(dict(t='emtrace', **sc))
    # cACG normalisation x flooring grid: sizeable floors (the floor is reached on ordinary data) and rank-deficient weights
    for i in range(6 if q else 36):
        sc = mmd.scenario(rng, 'cacgmm', tier)
        sc.update(regime='regular', init='soft', dtype='float64', iterations=1 + i % 2, saliency=bool(i % 2), K=2, D=3,
                  N=int(rng.integers(8, 14)), L=[], wca=(-1,), wca_type='tuple', aligner=False, sam=False)
        sc['opts'] = dict(covariance_norm=['trace', False, 'eigenvalue'][i % 3], eigenvalue_floor=[0.05, 0.3, 0.15][(i // 3) % 3],
                          affiliation_eps=1e-10, hermitize=True)
        out.append(dict(t='emtrace', **sc))
    # more than 4096 observations in one M-step: the saliency is zero except on a few dozen observations (head, block
    # boundaries, tail); only those carry weight and only those are recorded
    for i in range(2 if q else 8):
        sc = mmd.scenario(rng, ['cacgmm', 'cwmm', 'gmm', 'vmfmm'][i % 4], tier)
        sc.update(regime='regular', init='soft', dtype='float64', iterations=1, saliency=True, K=2, D=2 + i % 2, N=[6000, 4196, 9000, 17000][i % 4], L=[],
                  wca=(-1,), wca_type='tuple', aligner=False, sam=False, support=True)
        sc['opts'] = {k: v for k, v in sc['opts'].items() if k not in ('inline_permutation_alignment',)}
        sc.pop('wca_pos', None)
        out.append(dict(t='emtrace', **sc))
    # embeddings of the integration models handed over as transposed views / Fortran-ordered arrays (same values)
    for i in range(4 if q else 16):
        kind = ['vmfcacgmm', 'gcacgmm'][i % 2]
        sc = mmd.scenario(rng, kind, tier)
        sc.update(regime='regular', init='soft', dtype='float64', iterations=1 + i % 2, saliency=bool(i % 2), K=2, D=3, N=int(rng.integers(6, 10)), L=[2 + i % 2],
                  aligner=False, sam=False, emb_layout=['view', 'F'][(i // 2) % 2])
        sc['opts'] = {k: v for k, v in sc['opts'].items() if k not in ('inline_permutation_alignment',)}
        out.append(dict(t='emtrace', **sc))
    for i in range(14 if q else 140):
        out.append(dict(t='single', dist=['gauss_full', 'gauss_diagonal', 'gauss_spherical', 'watson', 'vmf', 'cacg', 'bingham'][i % 7],
                        L=[int(rng.integers(1, 3))] * int(rng.integers(0, 2)), D=int(rng.integers(2, 4)), N=int(rng.integers(6, 14)),
                        saliency=bool(i % 2), seed=int(rng.integers(1 << 30)), maxc=[50.0, 20.0, 500.0, 200.0][(i // 7) % 4] if i % 7 != 6 else [500.0, 500.0, 30.0][(i // 7) % 3],
                        concentrated=bool(i % 3 == 0)))
    # complex Gaussian trainer: saliency on every scale (the estimator is a ratio)
    for i in range(6 if q else 36):
        out.append(dict(t='single', dist='cgauss', L=[[], [2]][i % 2], D=int(rng.integers(2, 4)), N=int(rng.integers(6, 12)), saliency=bool(i % 3 != 2),
                        seed=int(rng.integers(1 << 30)), maxc=500.0, concentrated=bool(i % 2), sal_scale=[1.0, 1e-18, 1e12, 1e-30][(i // 2) % 4]))
    # Bingham trainer with finite limits on sharply concentrated data in three and more dimensions
    for i in range(4 if q else 24):
        out.append(dict(t='single', dist='bingham', L=[], D=3 + i % 2, N=int(rng.integers(10, 16)), saliency=bool(i % 2), seed=int(rng.integers(1 << 30)),
                        maxc=[20.0, 50.0][i % 2], concentrated=True, spread=[0.02, 0.05][(i // 2) % 2]))
    # directional trainers: every dimension x concentration limit x spread (estimate below, near and above the limit)
    for i in range(18 if q else 108):
        dist = ['vmf', 'watson'][i % 2]
        out.append(dict(t='single', dist=dist, L=[], D=[2, 3, 5][(i // 2) % 3], N=int(rng.integers(10, 16)), saliency=bool((i // 6) % 2),
                        seed=int(rng.integers(1 << 30)), maxc=[5.0, 50.0, 500.0][(i // 6) % 3], concentrated=True,
                        spread=[0.6, 0.2, 0.04][(i // 2 + i // 6) % 3], zero_frames=[0, 2, 0, 3][(i // 2) % 4]))
    for i in range(24 if q else 240):
        nl = int(rng.integers(0, 3))
        integ = bool(i % 4 == 3)
        wcas = [(-1,), (-3,), (-3, -1), (-3, -2, -1)] if integ else [(-1,), -1, [-1], -2, (-2,)] + ([(-3,), (-3, -1), (-3, -2, -1), -3] if nl else [])
        if integ:
            nl = 1
        w_ = wcas[int(rng.integers(len(wcas)))]
        out.append(dict(t='weightx', L=[int(rng.integers(1, 4)) for _ in range(nl)], K=int(rng.integers(1, 5)), N=int(rng.integers(1, 7)),
                        wca=w_, wca_type='int' if isinstance(w_, int) else ('list' if isinstance(w_, list) else 'tuple'), has_sal=bool(i % 2) or integ, integration=integ,
                        seed=int(rng.integers(1 << 30))))
    for i in range(18 if q else 180):
        out.append(dict(t='gaussx', gtype=['full', 'diagonal', 'spherical'][i % 3], D=int(rng.integers(1, 4)), N=int(rng.integers(2, 7)),
                        offset=[0, 1000000, 10000000, -3000000][(i // 3) % 4], saliency=bool(i % 2), mixture=bool(i % 4 == 3),
                        seed=int(rng.integers(1 << 30))))
    for i in range(14 if q else 140):
        kind = ml.KINDS[i % 7]
        out.append(dict(t='repeat', kind=kind, K=2, D=int(rng.integers(2, 4)), N=int(rng.integers(6, 10)),
                        iterations=int(rng.integers(1, 4)), seed=int(rng.integers(1 << 30))))
    return out


# ---------------------------------------------------------------------------
def _common(case, kind, opts):
    wca = case['wca']
    wl = [wca] if isinstance(wca, int) else [int(a) for a in wca]
    return dict(wca=wl, wca_int=isinstance(wca, int), integration=kind in ml.INTEGRATION,
                floor=enc.flt(opts.get('eigenvalue_floor', 1e-10)),
                norm={'eigenvalue': 'eigenvalue', 'trace': 'trace', False: 'none'}[opts.get('covariance_norm', 'eigenvalue')],
                always_sal=kind != 'cacgmm', kmin=enc.flt(1e-10),
                kmax=enc.flt(case.get('trainer_kw', {}).get('max_concentration', 500.0)))


def _obs(kind, data):
    y = data['y']
    if kind in ('gmm',):
        return flat(y), False
    if kind == 'vmfmm':
        return flat(ml.unit(y)), False
    return flatz(ml.unit(y)), True


def _emtrace(case):
    rng = np.random.default_rng(case['seed'])
    kind, L, K, D, N = case['kind'], case['L'], case['K'], case['D'], case['N']
    data = ml.make_data(rng, kind, L, K, D, N, regime=case['regime'], E=case.get('E'))
    init = ml.make_init(rng, L, K, N)
    opts = dict(case['opts'])
    wca = case['wca']
    opts['weight_constant_axis'] = mmd.wca_arg(case)
    sal = None
    if case['saliency']:
        sal = rng.integers(1, 4, size=(*L, N)).astype(float) * rng.choice([1.0, 0.5])
        opts['saliency'] = sal
    sel = None
    if case.get('support'):
        idx = set(range(6)) | set(range(N - 8, N)) | {N // 2, N // 3}
        for b in (1024, 4096, 8192, 16384):
            idx |= {b - 2, b - 1, b, b + 1}
        sel = np.array(sorted(i for i in idx if 0 <= i < N))
        keep = np.zeros(N, dtype=bool)
        keep[sel] = True
        sal = np.where(keep, sal, 0.0)
        opts['saliency'] = sal
    if case.get('emb_layout') and 'emb' in data:
        e0 = np.ascontiguousarray(data['emb'])
        data['emb'] = np.asfortranarray(e0) if case['emb_layout'] == 'F' else np.ascontiguousarray(np.swapaxes(e0, 0, 1)).swapaxes(0, 1)
    if case.get('sam'):
        sam = rng.random((*L, K, N)) < 0.75
        sam[..., 0] = True
        # at least one class stays active everywhere (no all-inactive observation: that corner is a recorded C09 finding)
        sam[..., 0, :] = True
        opts['source_activity_mask'] = sam
    aligner = None
    if case.get('aligner'):
        aligner = GreedyPermutationAlignment(similarity_metric='cos')
        opts['inline_permutation_aligner'] = aligner
    opts.pop('inline_permutation_alignment', None)
    events = []

    def cb(ev, f):
        if ev in ('estep', 'align', 'mstep'):
            events.append((ev, dict(iteration=f.get('iteration'), model=f.get('model'),
                                    aff=np.array(f['affiliation'], copy=True),
                                    qf=None if f.get('quadratic_form') is None else np.array(f['quadratic_form'], copy=True))))
    start = init
    continued = bool(case.get('continued')) and kind == 'cacgmm'
    if continued:
        # continued fit: the hooked run starts from the MODEL returned by an earlier fit (iteration 1 begins with an E-step)
        start, e0 = call(ml.fit, kind, data, init, 1 + case['seed'] % 2, opts)
        if start is None:
            return []
    _verif.register(cb)
    try:
        model, exc = call(ml.fit, kind, data, start, case['iterations'], opts,
                          trainer=ml.trainer_for(kind, **case.get('trainer_kw', {})))
    finally:
        _verif.unregister(cb)
    fp = f't=emtrace;model={kind};wca={wca};sal={case["saliency"]};aligner={bool(aligner)};opts={case["opts"]};continued={continued}'
    key = f'em:{case["seed"]}'
    recs = [dict(kind='loop', events=[e for e, _ in events], model_start=continued, iterations=case['iterations'],
                 aligner=bool(aligner), mstep_iterations=[int(f['iteration']) for e, f in events if e == 'mstep'],
                 exc=exc if exc not in mmd.EXPLICIT else '', fp=fp + ';loop', key=key + ':loop')]
    if model is None:
        if exc in mmd.EXPLICIT:
            return []
        return recs
    cut = (lambda a: a) if sel is None else (lambda a: np.asarray(a)[..., sel])
    z, zc = _obs(kind, data if sel is None else {k: np.asarray(v)[..., sel, :] for k, v in data.items()})
    full = [*L, K, N if sel is None else len(sel)]
    comp = COMP[kind]
    if sel is not None:
        fp += ';support'
    base = dict(full=full, z=z, zcplx=zc, has_sal=sal is not None, sal=flat(cut(sal)) if sal is not None else dict(shape=[], data=[]),
                comp=comp, **_common(case, kind, opts))
    prev_model = None
    last_e = None
    msteps = [f for e, f in events if e == 'mstep']
    pick = sorted(set([0, len(msteps) - 1]))
    mi = -1
    eps_fit = float(opts.get('affiliation_eps', 1e-10 if kind in ('cacgmm', 'gcacgmm', 'vmfcacgmm') else 0.0))
    nposts = 0
    for j, (e, f) in enumerate(events):
        if e == 'estep' and eps_fit >= 1e-4 and aligner is None and f['model'] is not None and nposts < 3 and \
                not case['opts'].get('inline_permutation_alignment') and not case.get('sam'):
            # the E-step of the alternation: Bayes posterior under the current model, clipped to [eps, 1 - eps] (no
            # renormalisation after clipping)
            nposts += 1
            wrec = wca if not isinstance(wca, tuple) else list(wca)
            recs.append(ml.posterior_record(kind, f['model'], data, f['aff'], wca=wrec, eps=eps_fit, fp=fp + ';estep', key=key + f':e{j}',
                                            full=[*L, K, N]))
        if e == 'estep':
            last_e = f
            if comp == 'cacg' and kind == 'cacgmm' and f['qf'] is not None and f['model'] is not None and len(recs) < 6 and sel is None:
                recs.append(dict(kind='qform', exc='', qf=flat(f['qf']), fields=mmd.raw_fields(kind, f['model']), **base,
                                 fp=fp + ';qform', key=key + f':q{j}'))
        if e == 'align' and last_e is not None:
            recs.append(_align_record(aligner, last_e, f, fp, key + f':a{j}'))
        if e == 'mstep':
            mi += 1
            if mi not in pick:
                continue
            rec = dict(kind='mstep', exc='', aff=flat(cut(f['aff'])), has_qf=f['qf'] is not None,
                       qf=flat(cut(f['qf'])) if f['qf'] is not None else dict(shape=[], data=[]),
                       fields=mmd.raw_fields(kind, f['model']), gtype='', glead=[], gshared=False, watson_ratio=[],
                       **base, fp=fp + ';mstep', key=key + f':m{mi}')
            if comp == 'gaussian':
                g = f['model'].gaussian
                rec['gtype'] = {'Gaussian': 'full', 'DiagonalGaussian': 'diagonal', 'SphericalGaussian': 'spherical'}[type(g).__name__]
                rec['glead'] = [list(map(int, ix)) for ix in np.ndindex(*L)]
            rec['pooled'] = ''
            rec['emb'] = dict(shape=[], data=[])
            if kind in ml.INTEGRATION:
                # spectral stream pooled over all frequencies: embeddings as the trainer sees them
                emb = data['emb'] if kind == 'gcacgmm' else ml.unit(data['emb'])
                rec['emb'] = flat(emb)
                rec['pooled'] = 'gaussian' if kind == 'gcacgmm' else 'vmf'
                if kind == 'gcacgmm':
                    g = f['model'].gaussian
                    rec['gtype'] = {'Gaussian': 'full', 'DiagonalGaussian': 'diagonal', 'SphericalGaussian': 'spherical'}[type(g).__name__]
            if comp == 'bingham':
                rec['bingham_lambda'] = [float(x) for x in np.asarray(f['model'].complex_bingham.covariance_eigenvalues).ravel()]
                rec['kmax'] = enc.flt(min(case.get('trainer_kw', {}).get('max_concentration', np.inf), 1e300))
            if comp == 'watson':
                rec['watson_kappa'] = [float(x) for x in np.asarray(f['model'].complex_watson.concentration).ravel()]
            recs.append(rec)
    return recs


def _align_record(aligner, before, after, fp, key):
    """inline alignment: affiliation and quadratic form permuted together by the aligner's own mapping"""
    from harness.drivers.align import _rowids
    a0 = np.transpose(before['aff'], (1, 0, 2))
    a1 = np.transpose(after['aff'], (1, 0, 2))
    mapping, exc = call(aligner.calculate_mapping, a0)
    ids = _rowids(a0, a1)
    rec = dict(kind='apply', mask=ids[0], out=ids[1], mapping=[] if mapping is None else enc.aint(mapping), exc=exc, ref=[],
               truth=[], expect_identity=False, expect_consistent=False, fp=fp + ';align:aff', key=key)
    if before['qf'] is not None and after['qf'] is not None:
        q0 = np.transpose(before['qf'], (1, 0, 2))
        q1 = np.transpose(after['qf'], (1, 0, 2))
        idq = _rowids(q0, q1)
        rec2 = dict(rec, mask=idq[0], out=idq[1], fp=fp + ';align:qf', key=key + 'q')
        return [rec, rec2]
    return [rec]


def _single(case):
    rng = np.random.default_rng(case['seed'])
    dist, L, D, N = case['dist'], case['L'], case['D'], case['N']
    real = dist.startswith('gauss') or dist == 'vmf'
    y = rng.normal(size=(*L, N, D)) + (0 if real else 1j * rng.normal(size=(*L, N, D)))
    if case['concentrated']:
        proto = rng.normal(size=(*L, 1, D)) + (0 if real else 1j * rng.normal(size=(*L, 1, D)))
        y = proto + case.get('spread', 0.05) * y
    if case.get('zero_frames') and dist in ('watson', 'vmf', 'bingham'):
        y[..., 1:1 + case['zero_frames'], :] = 0          # digital silence: frames that stay zero after the normalisation
    sal = rng.integers(0, 4, size=(*L, N)).astype(float) if case['saliency'] and dist != 'cacg' else None
    if sal is not None:
        sal[..., 0] = 1.0
    fp = f't=single;dist={dist};sal={sal is not None}'
    key = f'single:{case["seed"]}'
    if dist.startswith('gauss'):
        m, exc = call(GaussianTrainer().fit, y, saliency=sal, covariance_type=dist.split('_')[1])
        comp, z, zc = 'gaussian', flat(y), False
    elif dist == 'watson':
        # history: another trainer with the default limit has been used in this process before
        call(ComplexWatsonTrainer().fit, y, saliency=sal)
        yo = rng.normal(size=(6, D + 1)) + 1j * rng.normal(size=(6, D + 1))
        call(ComplexWatsonTrainer().fit, yo)             # ... and one with another feature dimension
        m, exc = call(ComplexWatsonTrainer(max_concentration=case['maxc']).fit, y, saliency=sal)
        comp, z, zc = 'watson', flatz(ml.unit(y)), True
    elif dist == 'vmf':
        m, exc = call(VonMisesFisherTrainer().fit, y, saliency=sal, max_concentration=case['maxc'])
        comp, z, zc = 'vmf', flat(ml.unit(y)), False
    elif dist == 'cgauss':
        from pb_bss.distribution.complex_circular_symmetric_gaussian import ComplexCircularSymmetricGaussianTrainer
        if sal is not None:
            sal = sal * case.get('sal_scale', 1.0)
        m, exc = call(ComplexCircularSymmetricGaussianTrainer().fit, y, saliency=sal)
        comp, z, zc = 'cgauss', flatz(y), True
    elif dist == 'bingham':
        from pb_bss.distribution.complex_bingham import ComplexBinghamTrainer
        kwb = {} if case['maxc'] >= 500.0 else dict(max_concentration=case['maxc'])
        m, exc = call(ComplexBinghamTrainer(**kwb).fit, y, saliency=sal)
        comp, z, zc = 'bingham', flatz(ml.unit(y)), True
    else:
        # one Tyler step from quadratic form 1, and the fixed point after many iterations
        tr = ComplexAngularCentralGaussianTrainer()
        m, exc = call(tr.fit, y, iterations=1)
        comp, z, zc = 'cacg', flatz(ml.unit(y)), True
    if m is None and dist == 'bingham' and sal is not None and exc in ('AssertionError', 'ValueError') \
            and int(np.min(np.sum(sal > 0, axis=-1))) < D:
        # fewer than D observations carry weight in some slice: the weighted scatter is singular and the Bingham maximum
        # likelihood estimate does not exist (an eigenvalue of minus infinity); the trainer's explicit rejection is accepted
        return []
    if m is None:
        return [dict(kind='mstep', exc=exc, fp=fp, key=key)]

    def lift(f):     # insert the class axis K = 1 at its schema position
        cax = dict(gaussian_mean=-2, gaussian_covariance_full=-3, gaussian_covariance_diagonal=-2, gaussian_covariance_spherical=-1,
                   watson_mode=-2, watson_concentration=-1, vmf_mean=-2, vmf_concentration=-1, cacg_eigenvectors=-3,
                   cacg_eigenvalues=-2, bingham_eigenvalues=-2, cgauss_covariance=-3)[f['name']]
        sh = list(f['t']['shape'])
        sh.insert(len(sh) + 1 + cax, 1)
        return dict(f, t=dict(f['t'], shape=sh))
    fields = []
    for f in (ml.dist_fields(m) if False else _raw_dist(m)):
        fields.append(lift(f))
    fields.append(ml._field('weight', np.ones((*L, 1, 1))))
    rec = dict(kind='mstep', exc='', full=[*L, 1, N], aff=flat(np.ones((*L, 1, N))), has_sal=sal is not None,
               sal=flat(sal) if sal is not None else dict(shape=[], data=[]), has_qf=False, qf=dict(shape=[], data=[]),
               z=z, zcplx=zc, comp=comp, fields=fields, wca=[-1], wca_int=False, integration=False, always_sal=False,
               floor=enc.flt(1e-10), norm='eigenvalue',
               kmin=enc.flt(1e-10), kmax=enc.flt(case['maxc'] if dist in ('watson', 'vmf') else 500.0), gtype=dist.split('_')[1] if comp == 'gaussian' else '',
               glead=[list(map(int, ix)) for ix in np.ndindex(*L)], gshared=False, watson_ratio=[], pooled='',
               emb=dict(shape=[], data=[]), fp=fp, key=key)
    if comp == 'watson':
        rec['watson_kappa'] = [float(x) for x in np.asarray(m.concentration).ravel()]
    if comp == 'bingham':
        rec['bingham_lambda'] = [float(x) for x in np.asarray(m.covariance_eigenvalues).ravel()]
        rec['kmax'] = enc.flt(case['maxc'] if case['maxc'] < 500.0 else 1e300)
    recs = [rec]
    if dist == 'cacg':
        # Tyler fixed point: after 100 iterations the model reproduces itself under one more step
        m100, e = call(ComplexAngularCentralGaussianTrainer().fit, y, iterations=100)
        if m100 is not None:
            _, q = m100._log_pdf(np.swapaxes(ml.unit(y), -1, -2))
            r2 = dict(rec, fields=[lift(f) for f in _raw_dist(m100)] + [ml._field('weight', np.ones((*L, 1, 1)))], has_qf=True,
                      qf=flat(q[..., None, :]), fp=fp + ';fixed_point', key=key + ':fp')
            recs.append(r2)
    return recs


def _raw_dist(m):
    n = type(m).__name__
    if n == 'ComplexAngularCentralGaussian':
        return [ml._field('cacg_eigenvectors', m.covariance_eigenvectors, True), ml._field('cacg_eigenvalues', m.covariance_eigenvalues)]
    if n == 'ComplexWatson':
        return [ml._field('watson_mode', m.mode, True), ml._field('watson_concentration', m.concentration)]
    if n == 'ComplexCircularSymmetricGaussian':
        return [ml._field('cgauss_covariance', m.covariance, True)]
    if n == 'ComplexBingham':
        return [ml._field('cacg_eigenvectors', m.covariance_eigenvectors, True), ml._field('bingham_eigenvalues', m.covariance_eigenvalues)]
    if n == 'VonMisesFisher':
        return [ml._field('vmf_mean', m.mean), ml._field('vmf_concentration', m.concentration)]
    name = {'Gaussian': 'full', 'DiagonalGaussian': 'diagonal', 'SphericalGaussian': 'spherical'}[n]
    return [ml._field('gaussian_mean', m.mean), ml._field('gaussian_covariance_' + name, m.covariance)]


def _weightx(case):
    rng = np.random.default_rng(case['seed'])
    L, K, N = case['L'], case['K'], case['N']
    aff8 = rng.integers(0, 9, size=(*L, K, N))
    sal = rng.integers(0, 4, size=(*L, N)) if case['has_sal'] else None
    wca = case['wca']
    arg = mmd.wca_arg(case)
    if case['integration']:
        # the integration trainers' own rule: sum of aff*sal over the tied axes, normalised over classes, squeezed
        from pb_bss.distribution.gcacgmm import GCACGMMTrainer
        F = L[0]
        D, E = 2, 2
        obs = rng.normal(size=(F, N, D)) + 1j * rng.normal(size=(F, N, D))
        emb = rng.normal(size=(F, N, E))
        masked = aff8 * (sal[..., None, :] if sal is not None else 1)
        axes = tuple(a % 3 for a in wca)
        norm = masked.sum(axis=axes, keepdims=True).sum(axis=-2, keepdims=True) if 1 not in axes else np.ones(1)
        if K < 2 or np.any(aff8.sum(-1) == 0) or np.any(norm == 0) or np.any(masked.sum(-1) == 0):
            return []        # positive class mass is the premise of the weight rule
        m, exc = call(GCACGMMTrainer()._m_step, obs / np.linalg.norm(obs, axis=-1, keepdims=True), emb, np.ones((F, K, N)),
                      affiliation=aff8 / 8.0, saliency=(sal if sal is not None else np.ones((F, N))).astype(float), hermitize=True,
                      covariance_norm='eigenvalue', eigenvalue_floor=1e-10, covariance_type='spherical', fixed_covariance=None,
                      weight_constant_axis=tuple(wca), spatial_weight=1., spectral_weight=1.)
        if m is None and exc in ('ValueError', 'LinAlgError', 'AssertionError'):
            return []        # the component estimators rejected the tiny lattice sample; only the weight rule is tested here
        out = None if m is None else np.asarray(m.weight, dtype=float)
    else:
        out, exc = call(mmu.estimate_mixture_weight, aff8 / 8.0, None if sal is None else sal.astype(float), arg)
    wl = [wca] if isinstance(wca, int) else [int(a) for a in wca]
    return [dict(kind='weightx', aff=flati(aff8), affden=8, has_sal=sal is not None,
                 sal=flati(sal) if sal is not None else dict(shape=[], data=[]), wca=wl, wca_int=case.get('wca_type') == 'int',
                 integration=case['integration'], exc=exc, out=flatr(out) if out is not None else dict(shape=[], data=[]),
                 fp=f't=weightx;wca={wca};sal={sal is not None};integration={case["integration"]}', key=f'wx:{case["seed"]}')]


def _exactly_singular(u, g, gtype):
    """exact (integer) test: is the weighted covariance sum g (u-m)(u-m)^T singular / zero?"""
    from fractions import Fraction
    u = [[int(v) for v in row] for row in u]
    g = [int(v) for v in g]
    N, D = len(u), len(u[0])
    G = sum(g)
    if G == 0:
        return True
    S1 = [sum(g[n] * u[n][a] for n in range(N)) for a in range(D)]
    C = [[sum(g[n] * u[n][a] * u[n][b] for n in range(N)) * G - S1[a] * S1[b] for b in range(D)] for a in range(D)]
    if gtype == 'diagonal':
        return any(C[a][a] == 0 for a in range(D))
    if gtype == 'spherical':
        return sum(C[a][a] for a in range(D)) == 0
    M = [[Fraction(x) for x in row] for row in C]
    det = Fraction(1)
    for c in range(D):
        piv = next((r for r in range(c, D) if M[r][c] != 0), None)
        if piv is None:
            return True
        if piv != c:
            M[c], M[piv] = M[piv], M[c]
            det = -det
        det *= M[c][c]
        for r in range(c + 1, D):
            f = M[r][c] / M[c][c]
            M[r] = [M[r][k] - f * M[c][k] for k in range(D)]
    return det == 0


def _gaussx(case):
    """exact weighted Gaussian moments; a common offset of the data must not matter"""
    rng = np.random.default_rng(case['seed'])
    D, N = case['D'], case['N']
    u = rng.integers(-3, 4, size=(N, D))
    g8 = rng.integers(1, 9, size=N)                      # weights in units of 1/8
    if case['saliency']:
        g8 = g8 * rng.integers(1, 3, size=N)
    c = case['offset']
    x = (u + c).astype(float)
    if case['mixture']:
        # through the GMM M-step: affiliation gamma = g/8 for class 0 and 1 - g/8 ... (class 0 is checked)
        from pb_bss.distribution.gmm import GMMTrainer
        g8 = np.minimum(g8, 7)
        aff = np.stack([g8 / 8.0, 1 - g8 / 8.0])
        m, exc = call(GMMTrainer()._m_step, x, affiliation=aff, saliency=np.ones(N), weight_constant_axis=(-1,),
                      covariance_type=case['gtype'], fixed_covariance=None)
        if m is None and exc in ('ValueError', 'LinAlgError') and (
                _exactly_singular(u, g8, case['gtype']) or _exactly_singular(u, 8 - g8, case['gtype'])):
            return []        # singular class covariance of the tiny lattice sample: explicit rejection, not an estimator issue
        mean = None if m is None else m.gaussian.mean[0]
        cov = None if m is None else m.gaussian.covariance[0]
    else:
        m, exc = call(GaussianTrainer().fit, x, saliency=g8 / 8.0, covariance_type=case['gtype'])
        mean = None if m is None else m.mean
        cov = None if m is None else m.covariance
    if m is None and exc in ('ValueError', 'LinAlgError') and _exactly_singular(u, g8, case['gtype']):
        return []            # the exact weighted covariance of this lattice sample is singular: explicit rejection is right
    rec = dict(kind='gaussx', u=u.tolist(), g=[int(v) for v in g8], gtype=case['gtype'], exc=exc, mean_c=[], cov=[],
               fp=f't=gaussx;gtype={case["gtype"]};offset={c};mixture={case["mixture"]}', key=f'gx:{case["seed"]}')
    if m is not None:
        rec['mean_c'] = [enc.rat(float(v) - c) for v in np.atleast_1d(mean)]
        cv = np.asarray(cov, dtype=float)
        rec['cov'] = enc.arat(cv) if cv.ndim else [enc.rat(float(cv))]
    return [rec]


def _repeat(case):
    """an integer saliency s_n acts exactly like repeating observation n s_n times"""
    rng = np.random.default_rng(case['seed'])
    kind, K, D, N = case['kind'], case['K'], case['D'], case['N']
    L = [2] if kind in ml.INTEGRATION else []
    data = ml.make_data(rng, kind, L, K, D, N, regime='separable')
    init = ml.make_init(rng, L, K, N)
    s = rng.integers(1, 5, size=N)
    rep = np.repeat(np.arange(N), s)
    data_r = {k: v[..., rep, :] for k, v in data.items()}
    init_r = np.ascontiguousarray(init[..., rep])
    ma, ea = call(ml.fit, kind, data, init, case['iterations'], dict(saliency=np.broadcast_to(s.astype(float), (*L, N)).copy()))
    mb, eb = call(ml.fit, kind, data_r, init_r, case['iterations'], {})
    fp = f't=repeat;model={kind}'
    key = f'rep:{case["seed"]}'
    if ma is None or mb is None:
        if ma is None and mb is None:
            return []
        return [ml.twin_record('same', None, None, kind=kind, exc=ea or eb, fp=fp, key=key)]
    A = ml.model_fields(kind, ma)
    B = ml.model_fields(kind, mb)
    return [ml.twin_record('same', A, B, kind=kind, fp=fp, key=key)]


def run_case(case):
    t = case['t']
    if t == 'emtrace':
        out = []
        for r in _emtrace(case):
            out.extend(r if isinstance(r, list) else [r])
        return out
    if t == 'single':
        return _single(case)
    if t == 'weightx':
        return _weightx(case)
    if t == 'repeat':
        return _repeat(case)
    if t == 'gaussx':
        return _gaussx(case)
    raise ValueError(t)
