"""Driver for C03: EM started from the true (blurred) partition of separable data."""
import numpy as np

from harness import enc
from harness.drivers import mmlib as ml
from harness.drivers.mmlib import call, flat, flatz, flati


def cases(tier, seed, args):
    rng = np.random.default_rng(seed + 3)
    q = tier == 'quick'
    out = []
    for i in range(35 if q else 350):
        kind = ml.KINDS[i % 7]
        K = int(rng.integers(2, 5))
        D = int(rng.integers(K, 9))
        if kind == 'cbmm':
            K, D = 2, int(rng.integers(2, 4))
        out.append(dict(t='fp', kind=kind, K=K, D=D, F=int(rng.integers(1, 3)), iterations=[1, 2, 5, 20][i % 4] if kind != 'cbmm' else [1, 2][i % 2],
                        blur=float(rng.uniform(0, 0.45)), noise=float(10.0 ** rng.uniform(-4, -2)),
                        seed=int(rng.integers(1 << 30)), gains=bool(i % 2), gainmode=['mixed', 'tiny', 'huge'][(i // 2) % 3],
                        E=int(rng.integers(K, 7))))
    # targeted regimes: few dimensions relative to the classes with a heavily blurred start (after the first M-step the class
    # covariances have K-1 huge directions along the mean differences: the whitening orientation decides the ranking);
    # unbalanced class sizes (clearly different concentrations between the classes)
    for i in range(10 if q else 60):
        K = [3, 4, 4][i % 3]
        out.append(dict(t='fp', kind='gmm', K=K, D=K + [0, 0, 1][i % 3], F=1, iterations=1, blur=float(rng.uniform(0.2, 0.45)),
                        noise=float(10.0 ** rng.uniform(-4, -2)), seed=int(rng.integers(1 << 30)), gains=False, gainmode='mixed', E=K))
    for i in range(8 if q else 48):
        kind = ['vmfmm', 'vmfcacgmm'][i % 2]
        out.append(dict(t='fp', kind=kind, K=4, D=int(rng.integers(6, 9)), F=1 + (i % 2), iterations=[2, 5, 3, 20][i % 4], blur=float(rng.uniform(0.3, 0.45)),
                        noise=float(10.0 ** rng.uniform(-4, -2)), seed=int(rng.integers(1 << 30)), gains=False, gainmode='mixed',
                        E=int(rng.integers(6, 9)), sizes=[10, 40, 40, 40]))
    # heavily blurred start in many dimensions after the process has seen a small feature dimension
    for i in range(7 if q else 42):
        kind = ml.KINDS[i % 7] if i >= 3 else 'cwmm'
        # the Watson mixture is additionally started from a blur that only just keeps the true class the largest
        out.append(dict(t='fp', kind=kind, K=3, D=8 if kind != 'cbmm' else 3, F=1, iterations=[1, 2, 5, 20][i % 4] if kind != 'cbmm' else 1,
                        blur=float([0.9, 0.8, 0.85][i % 3]) if kind == 'cwmm' else float([0.4, 0.35, 0.42][i % 3]), noise=float(10.0 ** rng.uniform(-3, -2)), seed=int(rng.integers(1 << 30)),
                        gains=False, gainmode='mixed', E=6, prehistory=True, sizes=[12, 12, 12]))
    # cBMM with a finite concentration limit and D >= 4: several small eigenvalues are clipped to the limit and tie exactly
    for i in range(6 if q else 36):
        out.append(dict(t='fp', kind='cbmm', K=2, D=[4, 5, 4][i % 3], F=1, iterations=[1, 2][i % 2], blur=float(rng.uniform(0, 0.3)),
                        noise=float(10.0 ** rng.uniform(-2, -1.3)), seed=int(rng.integers(1 << 30)), gains=False, gainmode='mixed', E=2,
                        trainer_kw=dict(max_concentration=[100.0, 50.0, 300.0][(i // 2) % 3])))
    # single-precision complex observations in many dimensions (own-class log densities beyond the float32 exp range)
    for i in range(4 if q else 24):
        out.append(dict(t='fp', kind=['cacgmm', 'cwmm'][i % 2], K=3, D=[8, 7][i % 2], F=1, iterations=[1, 2, 5, 3][i % 4],
                        blur=float([0.0, 0.4, 0.2, 0.45][i % 4]), noise=[1e-3, 2e-3][(i // 2) % 2], seed=int(rng.integers(1 << 30)),
                        gains=bool(i % 3 == 0), gainmode='mixed', E=6, single=True))
    # classes that are extremely tight (perturbation 1e-7 .. 1e-9 of the prototype scale) - Gaussian models
    for i in range(6 if q else 36):
        out.append(dict(t='fp', kind=['gmm', 'gcacgmm', 'gmm'][i % 3], K=2 + i % 3, D=4, F=1 + (i % 3 == 1), iterations=[1, 2, 5][i % 3],
                        # (a blurred start puts between-class scatter of order one next to the class's own 1e-18: beyond 1e-8 the
                        # condition number of the first covariance exceeds 1 / eps and the Cholesky guard rejects it)
                        blur=float([0.0, 0.2][i % 2]) if [1e-8, 3e-8, 1e-7, 1e-9][(i // 2) % 4] >= 1e-8 else 0.0,
                        noise=[1e-8, 3e-8, 1e-7, 1e-9][(i // 2) % 4], seed=int(rng.integers(1 << 30)), gains=False,
                        gainmode='mixed', E=4))
    # the true partition handed over as a boolean / integer one-hot mask
    for i in range(7 if q else 42):
        if ml.KINDS[i % 7] in ml.INTEGRATION:
            continue            # the integration trainers reject integer / boolean affiliations with a casting TypeError
        out.append(dict(t='fp', kind=ml.KINDS[i % 7], K=3, D=4 if ml.KINDS[i % 7] != 'cbmm' else 3, F=1, iterations=[2, 3, 5, 20][i % 4] if ml.KINDS[i % 7] != 'cbmm' else 2,
                        blur=0.0, noise=float(10.0 ** rng.uniform(-3, -2)), seed=int(rng.integers(1 << 30)), gains=False, gainmode='mixed', E=4,
                        init_dtype=['bool', 'int64'][(i // 7) % 2]))
    # exactly orthonormal prototypes with silent channels (canonical basis vectors / lines confined to channels 2..D), no perturbation
    for i in range(6 if q else 36):
        out.append(dict(t='fp', kind='cwmm', K=[2, 3, 3][i % 3], D=[4, 5, 6][i % 3], F=1 + i % 2, iterations=[1, 2, 5, 20][i % 4],
                        blur=float([0.0, 0.2, 0.4][i % 3]), noise=0.0, seed=int(rng.integers(1 << 30)), gains=bool(i % 2), gainmode='mixed', E=4,
                        proto_style=['canonical', 'sparse'][(i // 2) % 2]))
    # strongly unbalanced classes (D + 2 against 200 .. 300 observations) with a mildly blurred start
    for i in range(10 if q else 60):
        # (the Gaussian mixture only: with a directional model or stream one blurred M-step on a 40 : 1 imbalance legitimately moves the small
        # class's mode towards the big class - 5 % of 200 frames outweigh 95 % of 5 frames)
        kind = 'gmm'
        D = int(rng.integers(3, 6))
        out.append(dict(t='fp', kind=kind, K=2 + (i // 5) % 2, D=D, F=1, iterations=[1, 2, 5, 3][i % 4], blur=float([0.05, 0.1, 0.08][i % 3]),
                        noise=float(10.0 ** rng.uniform(-3, -2)), seed=int(rng.integers(1 << 30)), gains=False, gainmode='mixed', E=D,
                        sizes=([D + 2, 200] if (i // 5) % 2 == 0 else [D + 2, 300, D + 3]),
                        opts=dict(covariance_type=['full', 'spherical', 'spherical', 'diagonal'][(i // 5) % 4]) if kind in ('gmm', 'gcacgmm') else {}))
    # process-level state is order dependent: the cases with a small-dimension prehistory run first in the driver process
    out.sort(key=lambda c: 0 if c.get('prehistory') else 1)
    return out


def protos(rng, F, K, D, cplx):
    """prototype sets with pairwise |cos| <= 0.3"""
    while True:
        a = rng.normal(size=(F, D, D)) + (1j * rng.normal(size=(F, D, D)) if cplx else 0)
        q, _ = np.linalg.qr(a)
        p = np.swapaxes(q, -1, -2)[:, :K, :] + 0.08 * (rng.normal(size=(F, K, D)) + (1j * rng.normal(size=(F, K, D)) if cplx else 0))
        pn = p / np.linalg.norm(p, axis=-1, keepdims=True)
        g = np.abs(np.einsum('fkd,fjd->fkj', pn, pn.conj()))
        g = g - np.eye(K)
        if g.max() <= 0.3:
            return p


def run_case(case):
    rng = np.random.default_rng(case['seed'])
    kind, K, D, F = case['kind'], case['K'], case['D'], case['F']
    integ = kind in ml.INTEGRATION
    real = kind in ('gmm', 'vmfmm')
    N = K * (D + 2) + int(rng.integers(0, 12))
    lab = np.stack([rng.permutation(np.arange(N) % K) for _ in range(F)])
    if case.get('sizes'):
        base = np.repeat(np.arange(K), case['sizes'])
        N = len(base)
        lab = np.stack([rng.permutation(base) for _ in range(F)])
    sizes_ok = all(np.bincount(lab[f], minlength=K).min() >= D + 2 for f in range(F))
    p = protos(rng, F, K, D, not real)
    if case.get('proto_style') == 'canonical':
        p = np.stack([np.eye(D)[rng.permutation(D)[:K]] for _ in range(F)]).astype(complex)
    elif case.get('proto_style') == 'sparse':
        # orthonormal lines inside the span of channels 2..D: the first channel is exactly silent
        q_ = np.linalg.qr(rng.normal(size=(F, D - 1, D - 1)) + 1j * rng.normal(size=(F, D - 1, D - 1)))[0]
        p = np.zeros((F, K, D), complex)
        p[:, :, 1:] = np.swapaxes(q_, -1, -2)[:, :K, :]
    if real:
        p = p * 5.0
    noise = rng.normal(size=(F, N, D)) + (0 if real else 1j * rng.normal(size=(F, N, D)))
    y = np.take_along_axis(p, lab[..., None].repeat(D, -1), axis=1) if False else np.stack([p[f][lab[f]] for f in range(F)])
    y = y + case['noise'] * np.abs(p).max() * noise
    lo, hi = dict(mixed=(-3, 3), tiny=(-7, -5), huge=(5, 8))[case.get('gainmode', 'mixed')]
    if case['gains'] and not real:
        y = y * (10.0 ** rng.uniform(lo, hi, size=(F, N, 1)) * np.exp(2j * np.pi * rng.random((F, N, 1))))
    if case['gains'] and kind == 'vmfmm':
        y = y * 10.0 ** rng.uniform(-3, 3, size=(F, N, 1))
    if case.get('single') and not real:
        y = y.astype(np.complex64)            # single-precision observations (the whole cACG chain runs in float32)
    data = dict(y=y)
    E = case['E']
    pm = None
    if integ:
        pm = protos(rng, 1, K, max(E, K), False)[0] * (5.0 if kind == 'gcacgmm' else 1.0)
        emb = pm[lab] + case['noise'] * np.abs(pm).max() * rng.normal(size=(F, N, pm.shape[-1]))
        data['emb'] = emb
    onehot = np.moveaxis(np.eye(K)[lab], -1, -2)
    init = (1 - case['blur']) * onehot + case['blur'] / K
    if case.get('init_dtype'):
        init = onehot.astype(case['init_dtype'])
    fp = f't=fp;model={kind};it={case["iterations"]};gains={case["gains"]};gainmode={case.get("gainmode")}' + (';single' if case.get('single') else '') \
         + (f';init={case["init_dtype"]}' if case.get('init_dtype') else '') + (f';protos={case["proto_style"]}' if case.get('proto_style') else '')
    key = f'fp:{case["seed"]}'
    tkw = case.get('trainer_kw') or {}
    if tkw:
        fp += f';trainer={tkw}'
    if case.get('opts'):
        fp += f';opts={case["opts"]}'
    if case.get('sizes') and max(case['sizes']) >= 10 * min(case['sizes']):
        fp += ';unbalanced'
    if case.get('prehistory'):
        # process history: ANOTHER trainer of the same class has been used with a smaller feature dimension before
        r0 = np.random.default_rng(case['seed'] + 1)
        L0 = [1] if integ else []
        d0 = ml.make_data(r0, kind, L0, 2, 2, 12, regime='separable', E=2)
        call(ml.fit, kind, d0, ml.make_init(r0, L0, 2, 12), 2, {}, ml.trainer_for(kind))
        fp += ';prehistory'
    trainer = ml.trainer_for(kind, **tkw)
    if case['seed'] % 2:
        # history: the same trainer object has completed another fit (several iterations, blurred start) before
        init0 = 0.6 * onehot + 0.4 / K
        call(ml.fit, kind, data, init0, 3, {}, trainer)
        fp += ';reused'
    model, exc = call(ml.fit, kind, data, init, case['iterations'], dict(case.get('opts') or {}), trainer)
    if model is None:
        return [dict(kind='fixedpoint', exc=exc, fp=fp, key=key)]
    post, e2 = call(ml.predict, kind, model, data)
    if post is None:
        return [dict(kind='fixedpoint', exc=e2, fp=fp, key=key)]
    fields = ml.model_fields(kind, model, with_weight=False)
    rec = dict(kind='fixedpoint', exc='', full=[F, K, N], truth=flati(lab), post=flat(post),
               protos=flatz(p) if not real else flat(p), pcplx=not real, fields=fields,
               mean_kind='gaussian' if kind in ('gmm', 'gcacgmm') else ('vmf' if kind in ('vmfmm', 'vmfcacgmm') else 'none'),
               mleads=[[f] for f in range(F)] if not integ else [[]], mprotos=flat(p if not integ else pm) if (real or integ) else dict(shape=[], data=[]),
               z=dict(shape=[F, N, D], data=[]), strict=bool(case['iterations'] >= 5 or case['blur'] <= 0.02),
               dstrict=bool(case['iterations'] >= 5 or case['blur'] <= 0.45), fp=fp, key=key)
    if integ:
        # the spectral prototypes have no leading axis: index mprotos by <<k, a>> only
        rec['mleads'] = [[]]
    return [rec]
