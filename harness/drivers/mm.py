"""Driver for the mixture models: posteriors, initializers, weights (C01 and shared scenario machinery)."""
import itertools

import numpy as np

from harness import enc
from harness.drivers import mmlib as ml
from harness.drivers.mmlib import call, flat, flatb, flatr, flati

from pb_bss import _verif
from pb_bss.distribution import mixture_model_utils as mmu
from pb_bss import initializer as pinit
from pb_bss.permutation_alignment import DHTVPermutationAlignment, GreedyPermutationAlignment

EXPLICIT = ('AssertionError', 'ValueError', 'LinAlgError', 'NotImplementedError')

STD_WCA = [(-1,), -1, [-1], (-3,), (-3, -1), -2, (-2,), (-3, -2, -1)]
INT_WCA = [(-1,), (-3,), (-3, -1), (-3, -2, -1)]


def scenario(rng, kind, tier):
    """A random configuration of one mixture model."""
    integ = kind in ml.INTEGRATION
    nlead = 1 if integ else int(rng.integers(0, 3))
    L = [int(rng.integers(1, 4)) for _ in range(nlead)]
    K = int(rng.integers(2, 5))
    D = int(rng.integers(2, 6))
    N = int(rng.integers(max(6, 2 * K), 24))
    wcas = INT_WCA if integ else [w for w in STD_WCA if nlead >= 1 or (w not in [(-3,), (-3, -1), (-3, -2, -1)])]
    wca = wcas[int(rng.integers(len(wcas)))]
    wca_type = 'int' if isinstance(wca, int) else ('list' if isinstance(wca, list) else 'tuple')
    sc = dict(kind=kind, L=L, K=K, D=D, N=N, wca=wca, wca_type=wca_type, regime=['regular', 'separable', 'degenerate', 'scaled'][int(rng.integers(4))],
              init=['soft', 'hard'][int(rng.integers(2))], iterations=int(rng.integers(1, 5)),
              saliency=bool(rng.integers(2)), seed=int(rng.integers(1 << 30)), opts={},
              dtype='float64' if rng.random() < 0.8 else 'float32')
    if kind == 'cacgmm':
        sc['opts'] = dict(covariance_norm=['eigenvalue', 'trace', False][int(rng.integers(3))],
                          affiliation_eps=[1e-10, 0.0, 1e-3][int(rng.integers(3))],
                          hermitize=bool(rng.integers(2)))
        fl = [None, None, 0.05, 0.2, 1e-3][int(rng.integers(5))]
        if fl is not None:
            sc['opts']['eigenvalue_floor'] = fl
        sc['sam'] = bool(rng.integers(3) == 0)
        sc['aligner'] = bool(rng.integers(4) == 0) and nlead == 1
    elif kind == 'gmm':
        sc['opts'] = dict(covariance_type=['full', 'diagonal', 'spherical'][int(rng.integers(3))])
        sc['regime'] = ['regular', 'separable'][int(rng.integers(2))] if sc['regime'] == 'scaled' else sc['regime']
    elif kind == 'vmfmm':
        pass
    elif kind in ('cwmm', 'cbmm'):
        sc['aligner'] = bool(rng.integers(4) == 0) and nlead == 1
        if kind == 'cwmm':
            sc['trainer_kw'] = dict(max_concentration=float(rng.choice([500, 50, 20, 200])))
        if kind == 'cbmm':
            sc['opts'] = dict(affiliation_eps=[0, 1e-10, 1e-3][int(rng.integers(3))])
            sc['D'] = int(rng.integers(2, 4))
            sc['trainer_kw'] = dict(max_concentration=float(rng.choice([50.0, 20.0, 100.0])))
            sc['iterations'] = min(sc['iterations'], 2)
    elif integ:
        sc['opts'] = dict(spatial_weight=float(rng.choice([1.0, 0.5, 2.0])), spectral_weight=float(rng.choice([1.0, 0.2, 3.0])),
                          inline_permutation_alignment=bool(rng.integers(3) == 0))
        if kind == 'gcacgmm':
            sc['opts']['covariance_type'] = ['spherical', 'diagonal', 'full'][int(rng.integers(3))]
        sc['E'] = int(rng.integers(2, 5))
    if not integ and int(rng.integers(4)) == 0:
        # the same tying written with non-negative axis indices (the docstring's "positive counterpart")
        sc['wca_pos'] = True
    if sc.get('aligner'):
        sc['wca'] = [(-3,), (-3, -1), -3][int(rng.integers(3))]
        sc['wca_type'] = 'int' if isinstance(sc['wca'], int) else 'tuple'
        sc['L'] = [int(2 * rng.integers(1, 4) + 1)]     # odd number of bins
    return sc


def cases(tier, seed, args):
    prop = args.get('prop', 'C01')
    rng = np.random.default_rng(seed + sum(map(ord, prop)))
    q = tier == 'quick'
    out = []
    if prop == 'C01':
        # exact lattice problems (the instances MC_Posterior explores)
        for (K, N) in ([(2, 1)] if q else [(2, 1), (3, 1), (2, 2)]):
            stride = 1 if (K, N) != (2, 2) else 5
            n = 0
            for w in itertools.product([1, 2, 3], repeat=K * N):
                for lik in itertools.product([1, 2, 4], repeat=K * N):
                    for sam in itertools.product([False, True], repeat=K * N):
                        for eps in ([0, 1], [1, 8]):
                            n += 1
                            if n % stride:
                                continue
                            out.append(dict(t='bayesx', K=K, N=N, w=list(w), lik=list(lik), sam=list(sam), eps=eps))
        for i in range(30 if q else 300):
            out.append(dict(t='bayeslog', K=int(rng.integers(1, 7)), N=int(rng.integers(1, 9)), L=[int(rng.integers(1, 3))] * int(rng.integers(0, 2)),
                            seed=int(rng.integers(1 << 30)), eps=[0.0, 1e-10, 1e-3][i % 3], sam=bool(i % 2),
                            dtype=['float64', 'float32'][i % 5 == 4]))
        for i in range(30 if q else 200):
            K = int(rng.integers(1, 7))
            out.append(dict(t='flag', K=K, N=int(rng.integers(1, 13)), L=[int(rng.integers(1, 3)) for _ in range(int(rng.integers(0, 3)))],
                            minimum=[int(rng.integers(0, 8)), 8 * K + int(rng.integers(1, 5))]))
        for i in range(24 if q else 120):
            out.append(dict(t='init', fn=['uniform_normalized', 'dirichlet', 'one_hot', 'dirichlet_uniform'][i % 4],
                            permutation_free=bool((i // 4) % 2), K=int(rng.integers(1, 7)), N=int(rng.integers(1, 20)),
                            L=[int(rng.integers(1, 4)) for _ in range(int(rng.integers(0, 3)))], seed=int(rng.integers(1 << 30))))
        for i in range(2 if q else 6):
            out.append(dict(t='deflation', K=int(rng.integers(2, 4)), seed=int(rng.integers(1 << 30)),
                            permutation_free=bool(i % 2)))
        n = 42 if q else 420
        for i in range(n):
            sc = scenario(rng, ml.KINDS[i % 7], tier)
            out.append(dict(t='model', **sc))
        # rank-deficient class scatter under every cACG normalisation: fewer frames than channels, one M-step, then predict
        for i in range(6 if q else 36):
            sc = scenario(rng, 'cacgmm', tier)
            # (no all-zero frames here: a class whose scatter is exactly zero is the recorded C09 finding zero_scatter_class)
            sc.update(regime=['separable', 'regular'][i % 2], init='hard', dtype='float64', K=2, D=4 + i % 2, N=3 + i % 2, iterations=1,
                      sam=False, aligner=False, saliency=False, L=[[], [2]][(i // 2) % 2])
            sc['opts'] = dict(covariance_norm=['trace', False, 'eigenvalue'][i % 3], affiliation_eps=0.0, hermitize=True)
            sc.pop('wca_pos', None)
            if sc['wca'] not in [(-1,), -1, [-1]]:
                sc['wca'], sc['wca_type'] = (-1,), 'tuple'
            out.append(dict(t='model', **sc))
        # held-out observations on extreme scales against models with floored (rank-deficient) class covariances
        for i in range(6 if q else 36):
            kind = ['gcacgmm', 'cacgmm', 'vmfcacgmm', 'gcacgmm', 'cwmm', 'cbmm'][i % 6]
            sc = scenario(rng, kind, tier)
            sc.update(regime='scaled', init='hard', dtype='float64', K=2, D=4 if kind != 'cbmm' else 3, N=6, iterations=1 + i % 2, sam=False,
                      aligner=False, saliency=False, heldout=True)
            sc.pop('wca_pos', None)
            out.append(dict(t='model', **sc))
        # predict with a source-activity mask, with and without the quadratic forms returned as well
        for i in range(4 if q else 24):
            sc = scenario(rng, 'cacgmm', tier)
            sc.update(regime='regular', init='soft', dtype='float64', K=2 + i % 2, iterations=2, sam=True, aligner=False, saliency=False,
                      with_qf=bool(i % 2 == 0))
            sc.pop('wca_pos', None)
            out.append(dict(t='model', **sc))
        # single precision throughout (observations, start, model) with an all-zero frame; one M-step, then predict
        for i in range(6 if q else 36):
            kind = ['cacgmm', 'gcacgmm', 'vmfcacgmm', 'cacgmm', 'cwmm', 'cacgmm'][i % 6]
            sc = scenario(rng, kind, tier)
            sc.update(regime='degenerate', init='soft', dtype='float32', init_single=True, K=2, iterations=1 + (i // 6) % 2, sam=False,
                      aligner=False, saliency=False)
            sc.pop('wca_pos', None)
            out.append(dict(t='model', **sc))
        # clipping constants that are visible at Flt resolution on confident (separable) posteriors: the E-steps clip, the
        # final predict / fit_predict posterior never does
        for i in range(7 if q else 42):
            kind = ml.KINDS[i % 7]
            sc = scenario(rng, kind, tier)
            sc.update(regime='separable', init='soft', dtype='float64', K=3, iterations=2 + i % 2, sam=False, aligner=False)
            if kind in ('cacgmm', 'cbmm', 'gcacgmm', 'vmfcacgmm'):
                sc['opts'] = dict(sc['opts'], affiliation_eps=[1e-3, 1e-2][i % 2])
            if sc.get('wca_type') is None or kind in ml.INTEGRATION:
                pass
            out.append(dict(t='model', **sc))
        for i in range(4 if q else 16):
            kind = ['cbmm', 'cacgmm'][i % 2]
            sc = scenario(rng, kind, tier)
            sc.update(regime='separable', init='soft', dtype='float64', K=3, D=3, N=24 + i, L=[[], [2]][(i // 2) % 2], iterations=2 + (i // 2) % 2,
                      sam=False, aligner=False, saliency=False)
            sc['opts'] = dict(sc['opts'], affiliation_eps=[1e-2, 1e-3][(i // 2) % 2])
            sc.pop('wca_pos', None)
            sc['wca'], sc['wca_type'] = (-1,), 'tuple'
            out.append(dict(t='model', **sc))
        # every weight-tying option of every model once, deterministically (one leading axis, weights that differ between
        # observations and bins)
        for kind in ml.KINDS:
            integ = kind in ml.INTEGRATION
            for wi, wca in enumerate(INT_WCA if integ else STD_WCA):
                sc = scenario(rng, kind, tier)
                sc.update(regime=['regular', 'separable'][wi % 2], init='soft', dtype='float64', K=2 + wi % 2, N=int(rng.integers(8, 14)), L=[2 + wi % 2],
                          iterations=1 + wi % 2, sam=False, aligner=False, saliency=bool(wi % 2), wca=wca,
                          wca_type='int' if isinstance(wca, int) else ('list' if isinstance(wca, list) else 'tuple'))
                sc.pop('wca_pos', None)
                if integ:
                    sc['opts'] = dict(sc['opts'], inline_permutation_alignment=False)
                out.append(dict(t='model', **sc))
        # more than 2^14 observations in one call (posterior columns are recorded at block boundaries and at the tail)
        for i in range(2 if q else 6):
            sc = scenario(rng, ['gmm', 'vmfmm', 'cacgmm'][i % 3], tier)
            sc.update(regime='regular', init='soft', dtype='float64', K=2, D=2 + i % 2, N=[16384 + 37, 20000, 33000][i % 3], L=[], iterations=1,
                      sam=False, aligner=False, saliency=False, cols=True)
            sc.pop('wca_pos', None)
            sc['wca'], sc['wca_type'] = (-1,), 'tuple'
            out.append(dict(t='model', **sc))
    if prop == 'inlinepa':
        for (K, T) in ([(2, 1), (2, 2), (3, 1)] if q else [(2, 1), (2, 2), (3, 1), (3, 2)]):
            n = 0
            for ms in itertools.product(range(3), repeat=K * T):
                for me in itertools.product(range(3), repeat=K * T):
                    n += 1
                    if (K, T) != (2, 1) and n % ({(2, 2): 9, (3, 1): 7, (3, 2): 5003}[K, T] if q else {(2, 2): 2, (3, 1): 2, (3, 2): 1009}[K, T]):
                        continue
                    out.append(dict(t='inlinepa', K=K, T=T, ms=list(ms), me=list(me), w=[1 + (n + k) % 3 for k in range(K)],
                                    F=1 + n % 2))
    if prop == 'inlinepaf':
        for i in range(12 if q else 80):
            out.append(dict(t='inlinepaf', K=3 + (i // 6) % 2, T=int(rng.integers(5, 10)), F=2 + i % 2, seed=int(rng.integers(1 << 30)),
                            outlier=bool(i % 2)))
        # long signals (more than 1000 frames): frames at odd positions strongly support the identity, frames at even positions
        # (or every third, fourth one) weakly support another pairing
        for i in range(4 if q else 16):
            out.append(dict(t='inlinepaf', K=2 + i % 2, T=[1500, 2500, 3001, 4100][i % 4], F=2, seed=int(rng.integers(1 << 30)), outlier=False,
                            comb=[2, 3, 4, 5][i % 4]))
        # the E-steps of hooked integration-model fits with the built-in alignment and unequal stream weights
        for i in range(4 if q else 16):
            out.append(dict(t='inlinepaf_model', kind=['vmfcacgmm', 'gcacgmm'][i % 2], K=2 + (i // 2) % 2, F=2 + i % 2, N=int(rng.integers(10, 16)), D=3, E=3,
                            seed=int(rng.integers(1 << 30)), sw=[0.25, 2.0, 0.5, 3.0][i % 4], ew=[2.0, 0.25, 3.0, 0.2][i % 4],
                            wca=[(-1,), (-3,), (-3, -1)][i % 3]))
    if prop == 'C09':
        n = 70 if q else 700
        for i in range(n):
            sc = scenario(rng, ml.KINDS[i % 7], tier)
            if i % 3 == 0:
                sc['regime'] = 'degenerate'
            if i % 5 == 0:
                sc['init'] = 'hard'
            if i % 4 == 1:
                sc['saliency'] = True
                sc['sal_scale'] = [1e-14, 1e6, 1e-9, 1.0, 1e-18, 1e-30][(i // 4) % 6]
            if i % 7 == 3 and not sc.get('sam'):
                sc['init'] = 'soft'
                sc['tiny_class'] = [1e-19, 1e-25][(i // 7) % 2]      # one class with positive but tiny mass on every frame
            if sc['kind'] == 'cwmm' and i % 2:
                sc['regime'] = 'separable'
            if sc['kind'] == 'cbmm':
                sc['regime'] = ['separable', 'degenerate'][i % 2]
                sc['D'] = 3
            if i % 11 == 0 and sc['kind'] not in ml.INTEGRATION:
                sc['N'] = max(2, sc['D'] - 1)         # fewer frames than channels
                sc['K'] = 2
            out.append(dict(t='domain', **sc))
        # initial affiliation with a singleton independent axis (broadcast over the bins), one M-step
        for i in range(4 if q else 24):
            sc = scenario(rng, 'cacgmm', tier)
            sc.update(regime='regular', init=['soft', 'hard'][i % 2], dtype='float64', K=2 + i % 2, D=3, N=int(rng.integers(8, 14)), iterations=1 + (i // 2) % 2,
                      saliency=False, L=[int(rng.integers(2, 4))], sam=False, aligner=False, lead_singleton=True)
            sc.pop('wca_pos', None)
            sc['wca'], sc['wca_type'] = [(-1,), (-3,)][(i // 2) % 2], 'tuple'
            out.append(dict(t='domain', **sc))
        # stand-alone cACG trainer: every normalisation, non-default floors, fewer frames than channels / collinear frames
        for i in range(9 if q else 54):
            out.append(dict(t='domain_single', D=3 + i % 2, N=[2, 6, 3][i % 3], L=[[], [2]][(i // 3) % 2], seed=int(rng.integers(1 << 30)),
                            norm=['eigenvalue', 'trace', 'none'][i % 3], floor=[1e-10, 1e-3, 0.1][(i // 3) % 3], iterations=1 + i % 3,
                            dup=bool(i % 3 == 1)))
        # observations with a common offset of 1e5 .. 1e7 times their spread (covariances stay symmetric positive definite)
        for i in range(6 if q else 36):
            kind = ['gmm', 'gmm', 'gcacgmm'][i % 3]
            sc = scenario(rng, kind, tier)
            sc.update(regime='regular', init='soft', dtype='float64', K=2, iterations=1 + i % 3, saliency=bool(i % 2), sam=False, aligner=False,
                      offset=[1e6, 1e5, 1e7][(i // 3) % 3], N=max(sc['N'], 12))
            sc['opts'] = dict(sc['opts'], covariance_type=['full', 'diagonal', 'full'][i % 3])
            out.append(dict(t='domain', **sc))
        # exactly zero variances: a class owning a single frame (hard start, one M-step), constant coordinates
        for i in range(6 if q else 36):
            sc = scenario(rng, 'gmm', tier)
            sc.update(regime=['regular', 'degenerate'][i % 2], init='hard', dtype='float64', K=2 + i % 2, D=2 + i % 3, iterations=1,
                      saliency=False, L=[], sam=False, aligner=False)
            sc['N'] = sc['K'] + (i // 3) % 2          # N = K: every class owns exactly one frame
            sc['opts'] = dict(covariance_type=['diagonal', 'spherical', 'full'][i % 3])
            sc.pop('wca_pos', None)
            sc['wca'], sc['wca_type'] = (-1,), 'tuple'
            out.append(dict(t='domain', **sc))
        # non-default concentration limits of the vMF models (1000, 5000: beyond the range of the unscaled Bessel function) on
        # tight classes, several iterations
        for i in range(4 if q else 16):
            kind = ['vmfmm', 'vmfcacgmm'][i % 2]
            sc = scenario(rng, kind, tier)
            sc.update(regime='separable', init='hard', dtype='float64', K=2 + i % 2, iterations=2 + i % 3, saliency=False, sam=False, aligner=False,
                      tight_vmf=True)
            sc['opts'] = dict({k: v for k, v in sc['opts'].items() if k != 'inline_permutation_alignment'}, max_concentration=[1000.0, 5000.0][(i // 2) % 2])
            sc.pop('wca_pos', None)
            out.append(dict(t='domain', **sc))
        # integration models with the class axis among the tied axes (uniform weights), written in every order
        for i in range(4 if q else 12):
            kind = ['gcacgmm', 'vmfcacgmm'][i % 2]
            sc = scenario(rng, kind, tier)
            sc.update(regime='regular', init='soft', dtype='float64', K=2 + i % 2, iterations=2 + i % 2, saliency=bool(i % 2), sam=False, aligner=False)
            sc['opts'] = {k: v for k, v in sc['opts'].items() if k != 'inline_permutation_alignment'}
            sc.pop('wca_pos', None)
            sc['wca'], sc['wca_type'] = [(-2, -1), (-1, -2), (-3, -2, -1), (-2, -1)][(i // 2) % 4], 'tuple'
            out.append(dict(t='domain', **sc))
        # fixed input reproducing the recorded known finding (known_findings.json, C09)
        import json as _json, os as _os
        out.extend(_json.load(open(_os.path.join(_os.path.dirname(__file__), 'c09_known_case.json'))))
    return out


# ---------------------------------------------------------------------------
def _raw_posterior(case):
    rng = np.random.default_rng(case['seed'])
    K, N, L = case['K'], case['N'], case['L']
    lp = rng.choice([0.0, -1.0, -2.0, -40.0, -1000.0, 1e5, 700.0, -1e300], size=(*L, K, N))
    w = rng.uniform(0.1, 1, size=(*L, K, 1))
    w = w / w.sum(-2, keepdims=True)
    sam = None
    if case['dtype'] == 'float32':
        lp = rng.choice([0.0, -1.0, -2.0, -40.0, 60.0, -80.0], size=(*L, K, N))
    if case['sam']:
        sam = rng.random((*L, K, N)) < 0.7
        # keep the dominant class active (otherwise every active class may underflow: outside the
        # property's premise that some active class has non-zero mass)
        am = np.argmax(lp, axis=-2)
        np.put_along_axis(sam, am[..., None, :], True, axis=-2)
    dt = np.float32 if case['dtype'] == 'float32' else np.float64
    if dt is np.float32:
        lp = np.clip(lp, -1e30, 1e30)
    aff, exc = call(mmu.log_pdf_to_affiliation, w.astype(dt), lp.astype(dt), sam, case['eps'])
    with np.errstate(all='ignore'):
        lik = np.exp(lp.astype(dt).astype(np.float64) - np.max(lp.astype(dt).astype(np.float64), axis=-2, keepdims=True))
    return [dict(kind='posterior', exc=exc, exc_explicit=False, full=[*L, K, N],
                 aff=flat(aff) if aff is not None else dict(shape=[], data=[]), lik=flat(lik), w=flat(w.astype(dt)),
                 has_sam=sam is not None, sam=flatb(sam) if sam is not None else dict(shape=[], data=[]),
                 eps=enc.flt(case['eps']), wca=[-1], wca_int=False, integration=False,
                 fp='fn=log_pdf_to_affiliation;raw', key=f'raw:{case["seed"]}')]


def _bayesx(case):
    K, N = case['K'], case['N']
    w = np.array(case['w'], float).reshape(K, N)
    lik = np.array(case['lik'], float).reshape(K, N)
    sam = np.array(case['sam'], bool).reshape(K, N)
    eps = case['eps'][0] / case['eps'][1]
    out, exc = call(mmu.log_pdf_to_affiliation, w, np.log(lik), sam, eps)
    return [dict(kind='bayesx', w=w.astype(int).tolist(), lik=lik.astype(int).tolist(), sam=sam.tolist(), has_sam=True,
                 eps=case['eps'], exc=exc, out=[] if out is None else enc.arat(out),
                 fp='fn=log_pdf_to_affiliation;lattice', key=f'bx:{case["w"]}:{case["lik"]}:{case["sam"]}:{case["eps"]}')]


def _flag(case):
    K, N, L = case['K'], case['N'], case['L']
    m = case['minimum']
    Y = np.zeros((*L, N, 2))
    out, exc = call(pinit.deterministic.flag, Y, K, permutation_free=True, minimum=m[0] / m[1])
    outs = []
    if out is not None and out.shape == (*L, K, N):
        outs = [enc.arat(o) for o in np.reshape(out, (-1, K, N))]
    elif out is not None:
        exc = 'WrongShape'
    return [dict(kind='flag', K=K, N=N, minimum=m, exc=exc, outs=outs, fp='fn=flag', key=f'flag:{K}:{N}:{m}:{L}')]


def _init(case):
    np.random.seed(case['seed'] % (1 << 31))
    K, N, L = case['K'], case['N'], case['L']
    Y = np.zeros((*L, N, 3))
    fn = getattr(pinit.iid, case['fn'])
    out, exc = call(fn, Y, K, permutation_free=case['permutation_free'])
    return [dict(kind='init', full=[*L, K, N], aff=flat(out) if out is not None else dict(shape=[], data=[]), exc=exc,
                 one_hot=case['fn'] == 'one_hot', fp=f'fn={case["fn"]};pf={case["permutation_free"]}',
                 key=f'init:{case["seed"]}')]


def _deflation(case):
    rng = np.random.default_rng(case['seed'])
    F, T, D, K = 257, 24, 3, case['K']
    Y = rng.normal(size=(F, T, D)) + 1j * rng.normal(size=(F, T, D))
    sal = np.abs(rng.normal(size=(F, T))) + 0.1
    from pb_bss.initializer.deflation import deflationSeed
    out, exc = call(deflationSeed, Y, K, saliencies=sal, permutation_free=case['permutation_free'])
    full = [K, F, T]
    rec = dict(kind='init', full=full, exc=exc, one_hot=False, fp='fn=deflationSeed', key=f'defl:{case["seed"]}',
               aff=dict(shape=[], data=[]))
    if out is not None:
        # the class axis of deflationSeed is the leading one: move it to -2 for the shared check
        o = np.moveaxis(np.asarray(out), 0, -2)
        rec['full'] = [F, K, T]
        rec['aff'] = flat(o[::16])
        rec['full'] = [int(s) for s in o[::16].shape]
    return [rec]


def _aligner_for(F, rng):
    if rng.integers(2):
        return GreedyPermutationAlignment(similarity_metric='cos')
    width = int(rng.integers(1, F + 1))
    start = int(rng.integers(0, F - width + 1))
    return DHTVPermutationAlignment(stft_size=2 * (F - 1), segment_start=start, segment_width=width,
                                    segment_shift=int(rng.integers(1, width + 1)), main_iterations=2, sub_iterations=1)


def wca_arg(case):
    """weight_constant_axis exactly as the scenario specifies it (JSON does not keep tuple vs list)"""
    wca = case['wca']
    t = case.get('wca_type', 'int' if isinstance(wca, int) else 'tuple')
    R = len(case['L']) + 2
    pos = (lambda a: int(a) % R) if case.get('wca_pos') and case.get('kind') not in ('gcacgmm', 'vmfcacgmm') and not case.get('aligner') \
        else (lambda a: int(a))
    if t == 'int':
        return pos(wca)
    return [pos(a) for a in wca] if t == 'list' else tuple(pos(a) for a in wca)


def _cols(case, N):
    """observation indices that are recorded for very long inputs: head, power-of-two block boundaries, tail"""
    if not case.get('cols'):
        return None
    idx = set(range(4)) | set(range(N - 6, N)) | {N // 2}
    for b in (1024, 4096, 8192, 16384, 32768):
        idx |= {b - 1, b, b + 1}
    return sorted(i for i in idx if 0 <= i < N)


def model_case(case, want=('predict', 'fit_predict', 'estep')):
    """Fit one scenario; returns (records, context).  context has model, data, init, opts for other drivers."""
    rng = np.random.default_rng(case['seed'])
    kind, L, K, D, N = case['kind'], case['L'], case['K'], case['D'], case['N']
    data = ml.make_data(rng, kind, L, K, D, N, regime=case['regime'], E=case.get('E'), dtype=case['dtype'])
    if case.get('offset') and kind in ('gmm', 'gcacgmm'):
        key_ = 'y' if kind == 'gmm' else 'emb'
        data[key_] = data[key_] + case['offset']        # common offset far larger than the spread
    init = ml.make_init(rng, L, K, N, style=case['init'], lead_singleton=bool(case.get('lead_singleton')))
    if case.get('tight_vmf'):
        key_ = 'emb' if kind in ml.INTEGRATION else 'y'
        E_ = data[key_].shape[-1]
        labt = rng.integers(0, K, size=(*L, N))
        labt[..., :K] = np.arange(K)
        data[key_] = ml.unit(ml.unit(rng.normal(size=(K, E_)))[labt] + 1e-4 * rng.normal(size=(*L, N, E_)))
        init = np.ascontiguousarray(np.moveaxis(np.eye(K)[labt], -1, -2))
    if case.get('tiny_class'):
        init[..., 0, :] = case['tiny_class']
        init = init / init.sum(-2, keepdims=True)
    if case['dtype'] == 'float32' and case.get('init_single'):
        init = init.astype(np.float32)          # a single-precision start keeps the whole model in single precision
    opts = dict(case['opts'])
    wca = case['wca']
    opts['weight_constant_axis'] = wca_arg(case)
    sam = None
    if case.get('sam'):
        sam = rng.random((*L, K, N)) < 0.8
        sam[..., 0] = True
        opts['source_activity_mask'] = sam
    if case['saliency']:
        opts['saliency'] = rng.uniform(0.1, 2.0, size=(*L, N)) * case.get('sal_scale', 1.0)
    if case.get('aligner'):
        opts['inline_permutation_aligner'] = _aligner_for(L[0], rng)
    fp = f'model={kind};wca={wca};regime={case["regime"]};init={case["init"]}{"+tiny" if case.get("tiny_class") else ""};opts={ {k: v for k, v in case["opts"].items()} };' \
         f'sam={bool(case.get("sam"))};sal={case["saliency"]};aligner={bool(case.get("aligner"))};lead={len(L)};pos={bool(case.get("wca_pos"))}'
    recs = []
    events = []

    last = {}

    def cb(event, f):
        if event == 'estep':
            last['aff'] = np.array(f['affiliation'], copy=True)
            if 'estep' in want:
                events.append((f['model'], last['aff']))
    _verif.register(cb)
    try:
        model, exc = call(ml.fit, kind, data, init, case['iterations'], opts,
                          trainer=ml.trainer_for(kind, **case.get('trainer_kw', {})))
    finally:
        _verif.unregister(cb)
    ctx = dict(model=model, data=data, init=init, opts=opts, sam=sam, exc=exc, fp=fp, last_aff=last.get('aff'))
    key = f'model:{case["seed"]}'
    wrec = wca if not isinstance(wca, tuple) else list(wca)
    if model is None:
        recs.append(ml.posterior_record(kind, None, data, None, wca=wrec, exc=exc, explicit=exc in EXPLICIT,
                                        fp=fp + ';call=fit', key=key, full=[*L, K, N]))
        return recs, ctx
    eps_fit = opts.get('affiliation_eps', 1e-10 if kind in ('cacgmm', 'gcacgmm', 'vmfcacgmm') else 0.0)
    if 'predict' in want:
        kw = {}
        if sam is not None:
            kw['source_activity_mask'] = sam
        data_p = data
        if case.get('heldout'):
            # posteriors of observations the model has not been fitted on (frames that match no class well)
            r2 = np.random.default_rng(case['seed'] + 7)
            data_p = ml.make_data(r2, kind, L, K, D, N, regime='scaled' if case['regime'] == 'scaled' else 'regular', E=case.get('E'),
                                  dtype=case['dtype'])
        if case.get('with_qf') and kind == 'cacgmm':
            # the documented variant that also returns the quadratic forms: same posterior, same mask handling
            res_, e = call(model.predict, data_p['y'], return_quadratic_form=True, **kw)
            aff = None if res_ is None else res_[0]
        else:
            aff, e = call(ml.predict, kind, model, data_p, **kw)
        recs.append(ml.posterior_record(kind, model, data_p, aff, wca=wrec, sam=sam, eps=0.0, exc=e, explicit=e in EXPLICIT,
                                        fp=fp + f';call=predict;heldout={bool(case.get("heldout"))};qf={bool(case.get("with_qf"))}',
                                        key=key + ':p', full=[*L, K, N], cols=_cols(case, N)))
    if 'fit_predict' in want:
        aff, e = call(ml.fit, kind, data, init, case['iterations'], opts, predict=True,
                      trainer=ml.trainer_for(kind, **case.get('trainer_kw', {})))
        recs.append(ml.posterior_record(kind, model, data, aff, wca=wrec, sam=sam, eps=0.0, exc=e, explicit=e in EXPLICIT,
                                        fp=fp + ';call=fit_predict', key=key + ':fp', full=[*L, K, N], cols=_cols(case, N)))
    if 'estep' in want and not opts.get('inline_permutation_alignment'):
        for j, (m, a) in enumerate(events[:2]):
            recs.append(ml.posterior_record(kind, m, data, a, wca=wrec, sam=sam, eps=eps_fit, exc='',
                                            fp=fp + ';call=estep', key=key + f':e{j}', full=[*L, K, N], cols=_cols(case, N)))
    return recs, ctx


def run_case(case):
    t = case['t']
    if t == 'bayesx':
        return _bayesx(case)
    if t == 'bayeslog':
        return _raw_posterior(case)
    if t == 'flag':
        return _flag(case)
    if t == 'init':
        return _init(case)
    if t == 'deflation':
        return _deflation(case)
    if t == 'model':
        return model_case(case)[0]
    if t == 'domain':
        return domain_case(case)
    if t == 'domain_single':
        return domain_single(case)
    if t == 'inlinepaf_model':
        import itertools as _it
        from pb_bss.utils import unsqueeze
        rng = np.random.default_rng(case['seed'])
        kind, K, F, N = case['kind'], case['K'], case['F'], case['N']
        data = ml.make_data(rng, kind, [F], K, case['D'], N, regime='separable', E=case['E'])
        # spatial classes scrambled per bin relative to the spectral ones
        init = ml.make_init(rng, [F], K, N, style='soft')
        opts = dict(weight_constant_axis=tuple(case['wca']), spatial_weight=case['sw'], spectral_weight=case['ew'],
                    inline_permutation_alignment=True, affiliation_eps=0.0)
        events = []

        def cb(event, f):
            if event == 'estep' and f.get('model') is not None:
                events.append((f['model'], np.array(f['affiliation'], copy=True)))
        _verif.register(cb)
        try:
            model, exc = call(ml.fit, kind, data, init, 3, opts)
        finally:
            _verif.unregister(cb)
        fp = f'fn=inline_pa_integration;model={kind};wca={case["wca"]};weights=({case["sw"]},{case["ew"]})'
        if model is None:
            return [dict(kind='inlinepaf', Q=[], chosen=[], exc=exc, fp=fp, key=f'ipam:{case["seed"]}')]
        recs = []
        perms = list(_it.permutations(range(K)))
        yn = ml.unit(data['y'])
        emb = ml.unit(data['emb']) if kind == 'vmfcacgmm' else data['emb']
        for ei, (m, aff) in enumerate(events[:2]):
            clp, _ = m.cacg._log_pdf(np.swapaxes(yn[..., None, :, :], -1, -2))                  # (F, K, N)
            spec = m.vmf if kind == 'vmfcacgmm' else m.gaussian
            slp = spec.log_pdf(np.reshape(emb, (1, F * N, -1)))
            slp = np.transpose(np.reshape(slp, (K, F, N)), (1, 0, 2))
            sp, se = m.spatial_weight * clp, m.spectral_weight * slp
            w = np.broadcast_to(unsqueeze(m.weight, m.weight_constant_axis), (F, K, N)) if np.ndim(m.weight) else np.full((F, K, N), float(m.weight))
            for f in range(F):
                Q, chosen = [], []
                for pi_, p in enumerate(perms):
                    lp0 = sp[f, list(p), :] + se[f]
                    g = np.exp(lp0 - lp0.max(0, keepdims=True))
                    g = g / g.sum(0, keepdims=True)
                    Q.append(float(np.sum(g * lp0)))
                    lp = lp0 + np.log(w[f])
                    mx = lp.max(0, keepdims=True)
                    post = np.exp(lp - (mx[0] + np.log(np.exp(lp - mx).sum(0)))[None])
                    if np.allclose(aff[f], post, rtol=1e-8, atol=1e-11):
                        chosen.append(pi_ + 1)
                recs.append(dict(kind='inlinepaf', Q=[enc.flt(x) for x in Q], chosen=chosen, exc='', fp=fp, key=f'ipam:{case["seed"]}:{ei}:{f}'))
        return recs
    if t == 'inlinepaf':
        # float problems with frames on very different likelihood scales: the criterion of every permutation is evaluated here
        # with a per-frame stable logsumexp (NumPy, trusted), the trace specification decides optimality
        import itertools as _it
        rng = np.random.default_rng(case['seed'])
        K, T, F = case['K'], case['T'], case['F']
        sp = 3.0 * rng.normal(size=(F, K, T))
        se = 3.0 * rng.normal(size=(F, K, T))
        if case.get('comb'):
            cyc = np.roll(np.arange(K), 1)
            se = 0.5 * sp[:, cyc, :]                     # weak preference for the cyclic pairing everywhere ...
            off = np.arange(T) % case['comb'] != 0
            se[:, :, off] = 2.0 * sp[:, :, off]          # ... strong preference for the identity off the comb
        if case['outlier']:
            # the last frames are outliers for every spectral class (-2000 nats) and prefer another pairing, strongly
            se[:, :, -2:] += -2000.0
            cyc = np.roll(np.arange(K), 1)
            for f in range(F):
                sp[f, :, -2:] = 0.0
                se[f, :, -2:] = -2000.0
                for k in range(K):
                    sp[f, cyc[k], -2:] += 40.0 * (k + 1)
                    se[f, k, -2:] += 40.0 * (k + 1)
        w = rng.uniform(0.5, 1.5, size=K)
        w = w / w.sum()
        out, exc = call(mmu.log_pdf_to_affiliation_for_integration_models_with_inline_pa, w[None, :, None], sp, se)
        perms = list(_it.permutations(range(K)))
        recs = []
        for f in range(F):
            Q, chosen = [], []
            for pi_, p in enumerate(perms):
                # the aligner's own criterion (Drude et al. 2018, Eq. 11-12): sum_n sum_k g_kn lp_kn with g the class softmax of
                # lp = spatial[p] + spectral (weights not included); the returned posterior is Bayes' rule WITH the weights
                lp0 = sp[f, list(p), :] + se[f]
                g = np.exp(lp0 - lp0.max(0, keepdims=True))
                g = g / g.sum(0, keepdims=True)
                Q.append(float(np.sum(g * lp0)))
                lp = lp0 + np.log(w)[:, None]
                mx = lp.max(0, keepdims=True)
                lse = mx[0] + np.log(np.exp(lp - mx).sum(0))
                post = np.exp(lp - lse[None])
                if out is not None and np.allclose(out[f], post, rtol=1e-9, atol=1e-12):
                    chosen.append(pi_ + 1)
            recs.append(dict(kind='inlinepaf', Q=[enc.flt(x) for x in Q], chosen=chosen, exc=exc,
                             fp=f'fn=inline_pa_integration;float;outlier={case["outlier"]};T={"long" if T > 1000 else "short"}', key=f'ipaf:{case["seed"]}:{f}'))
        return recs
    if t == 'inlinepa':
        K, T, F = case['K'], case['T'], case['F']
        ms = np.array(case['ms']).reshape(K, T)
        me = np.array(case['me']).reshape(K, T)
        w = np.array(case['w'], float)
        # the bins are independent problems: bin 0 is the lattice point with every spatial value doubled in weight (+1: a
        # higher criterion value), the following bins are the point with the spatial classes rolled (another best permutation)
        F = max(F, 2) if K >= 2 else F
        msb = [ms + 1] + [np.roll(ms, f, axis=0) for f in range(1, F)]
        sp = np.log(2.0) * np.stack(msb).astype(float)
        se = np.log(2.0) * np.broadcast_to(me, (F, K, T)).astype(float)
        out, exc = call(mmu.log_pdf_to_affiliation_for_integration_models_with_inline_pa, (w / w.sum())[None, :, None], sp, se)
        return [dict(kind='inlinepa', ms=msb[f].tolist(), me=me.tolist(), w=[int(x) for x in case['w']], exc=exc,
                     out=[] if out is None else enc.arat(out[f]), fp=f'fn=inline_pa_integration;lattice;bin={min(f, 1)}',
                     key=f'ipa:{case["ms"]}:{case["me"]}:{case["w"]}:{f}') for f in range(F)]
    raise ValueError(t)


# ---------------------------------------------------------------------------
# C09: parameter domains
def raw_fields(kind, model):
    f = [ml._field('weight', np.asarray(model.weight, dtype=float))]
    F = getattr(model, '__dataclass_fields__', {})
    if 'cacg' in F:
        f.append(ml._field('cacg_eigenvectors', model.cacg.covariance_eigenvectors, True))
        f.append(ml._field('cacg_eigenvalues', model.cacg.covariance_eigenvalues))
    if 'complex_watson' in F:
        f.append(ml._field('watson_mode', model.complex_watson.mode, True))
        f.append(ml._field('watson_concentration', model.complex_watson.concentration))
    if 'complex_bingham' in F:
        f.append(ml._field('bingham_eigenvalues', model.complex_bingham.covariance_eigenvalues))
        f.append(ml._field('cacg_eigenvectors', model.complex_bingham.covariance_eigenvectors, True))
    if 'vmf' in F:
        f.append(ml._field('vmf_mean', model.vmf.mean))
        f.append(ml._field('vmf_concentration', model.vmf.concentration))
    if 'gaussian' in F:
        g = model.gaussian
        name = {'Gaussian': 'full', 'DiagonalGaussian': 'diagonal', 'SphericalGaussian': 'spherical'}[type(g).__name__]
        f.append(ml._field('gaussian_mean', g.mean))
        f.append(ml._field('gaussian_covariance_' + name, g.covariance))
        if name == 'full':
            try:
                L = np.linalg.cholesky(0.5 * (g.covariance + np.swapaxes(g.covariance, -1, -2)))
            except np.linalg.LinAlgError:
                L = np.full_like(g.covariance, np.nan)
            f.append(ml._field('gaussian_cholesky', L))
    return f


def domain_single(case):
    """parameter domain of the stand-alone cACG trainer (rank-deficient data, non-default floors and normalisations)"""
    from pb_bss.distribution.complex_angular_central_gaussian import ComplexAngularCentralGaussianTrainer
    rng = np.random.default_rng(case['seed'])
    D, N, L = case['D'], case['N'], case['L']
    y = rng.normal(size=(*L, N, D)) + 1j * rng.normal(size=(*L, N, D))
    if case.get('dup'):
        y[..., 1:, :] = y[..., :1, :] * (1 + 1j)        # collinear frames
    norm = {'eigenvalue': 'eigenvalue', 'trace': 'trace', 'none': False}[case['norm']]
    m, exc = call(ComplexAngularCentralGaussianTrainer().fit, y, iterations=case['iterations'], covariance_norm=norm,
                  eigenvalue_floor=case['floor'])
    rec = dict(kind='domain', full=[*L, 1, N], wca=[-1], wca_int=False, integration=False, floor=enc.flt(case['floor']), norm=case['norm'],
               kmin=enc.flt(1e-10), kmax=enc.flt(500.0), eps=enc.flt(0.0), degenerate=True, zero_resultant=False, exc=exc,
               exc_explicit=exc in EXPLICIT, fields=[], rowsum=ml.flat(np.ones((*L, N))),
               fp=f'trainer=cacg_single;norm={case["norm"]};floor={case["floor"]};N={N};D={D};call=fit;domain', key=f'doms:{case["seed"]}')
    if m is not None:
        rec['fields'] = [ml._field('weight', np.ones((*L, 1, 1))),
                         ml._field('cacg_eigenvectors', m.covariance_eigenvectors[..., None, :, :], True),
                         ml._field('cacg_eigenvalues', m.covariance_eigenvalues[..., None, :])]
    return [rec]


def domain_case(case):
    recs, ctx = model_case(case, want=())
    kind = case['kind']
    L, K, N = case['L'], case['K'], case['N']
    wca = case['wca']
    wl = [wca] if isinstance(wca, int) else [int(a) for a in wca]
    opts = ctx['opts']
    rec = dict(kind='domain', full=[*L, K, N], wca=wl, wca_int=isinstance(wca, int), integration=kind in ml.INTEGRATION,
               floor=enc.flt(opts.get('eigenvalue_floor', 1e-10)),
               norm={'eigenvalue': 'eigenvalue', 'trace': 'trace', False: 'none'}[opts.get('covariance_norm', 'eigenvalue')],
               kmin=enc.flt(1e-10),
               kmax=enc.flt(case.get('trainer_kw', {}).get('max_concentration', opts.get('max_concentration', 500.0 if kind != 'cbmm' else 1e300))),
               eps=enc.flt(opts.get('affiliation_eps', 1e-10 if kind in ('cacgmm', 'gcacgmm', 'vmfcacgmm') else 0.0)),
               degenerate=case['regime'] == 'degenerate' or case['init'] == 'hard', zero_resultant=False,
               exc=ctx['exc'], exc_explicit=ctx['exc'] in EXPLICIT, fields=[], fp=ctx['fp'] + ';call=fit;domain',
               key=f'dom:{case["seed"]}')
    rec['rowsum'] = dict(shape=[], data=[])
    if ctx['model'] is not None:
        g = ctx.get('last_aff')
        if g is None and np.ndim(ctx['init']) >= 2:
            g = np.broadcast_to(ctx['init'], (*L, K, N))
        if g is not None and np.shape(g) == (*L, K, N):
            rec['rowsum'] = ml.flat(np.sum(np.asarray(g, dtype=float), axis=-2))
    if ctx['model'] is not None:
        rec['fields'] = raw_fields(kind, ctx['model'])
        if 'cacg' in getattr(ctx['model'], '__dataclass_fields__', {}):
            lam = np.asarray(ctx['model'].cacg.covariance_eigenvalues)
            # a class whose weighted scatter is exactly zero (all its mass on all-zero frames): every eigenvalue equal
            if np.any(np.all(lam == lam[..., :1], axis=-1) & (lam[..., 0] <= 1e-10)):
                rec['fp'] += ';zero_scatter_class'
        if ctx.get('sam') is not None and np.any(~np.any(ctx['sam'], axis=-2)):
            # the source-activity mask declares every source inactive for some observation
            rec['fp'] += ';all_inactive_observations'
        if ctx.get('sam') is not None and np.ndim(ctx['init']) >= 2 and \
                np.any(np.sum(np.broadcast_to(ctx['init'], ctx['sam'].shape) * ctx['sam'], axis=-2) == 0):
            # the mask switches off every class the initialisation gives mass to at some observation
            rec['fp'] += ';mask_contradicts_init'
        if 'complex_bingham' in getattr(ctx['model'], '__dataclass_fields__', {}):
            lam = np.asarray(ctx['model'].complex_bingham.covariance_eigenvalues)
            mx = lam.max(-1)
            # duplicate-eigenvalue spreading (eps = 1e-8) can leave the largest eigenvalue at +1e-8 instead of 0
            if np.any((mx > 0) & (mx <= 4e-8)):
                rec['fp'] += ';bingham_duplicate_spread'
        if 'vmf' in getattr(ctx['model'], '__dataclass_fields__', {}):
            rec['zero_resultant'] = bool(np.any(np.linalg.norm(ctx['model'].vmf.mean, axis=-1) == 0))
    return [rec]
