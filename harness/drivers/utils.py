"""Driver for the pure layout helpers (growth beyond the listed properties): unsqueeze, labels_to_one_hot,
interleave, is_broadcast_compatible, sample_random_mapping."""
import itertools

import numpy as np

from harness.drivers.mmlib import call, flati, flatb

import pb_bss.utils as pu
from pb_bss import permutation_alignment as pa


def cases(tier, seed, args):
    rng = np.random.default_rng(seed + 99)
    q = tier == 'quick'
    out = []
    shapes = [[]] + [[a] for a in (1, 2)] + [[a, b] for a in (1, 2) for b in (1, 3)]
    for sh in shapes:
        for n in (1, 2):
            for axes in itertools.product(range(-4, 4), repeat=n):
                if q and (sum(axes) + len(sh)) % 3:
                    continue
                out.append(dict(t='unsqueeze', shape=sh, axes=list(axes)))
    for lsh in ([2], [1, 2], [2, 1], [2, 3], [2, 1, 2]):
        for axis in range(-len(lsh) - 1, len(lsh) + 1):
            for keep in (False, True):
                out.append(dict(t='onehot', lshape=lsh, C=int(rng.integers(2, 5)), axis=axis, keepdims=keep, seed=int(rng.integers(1 << 30))))
    for i in range(30 if q else 200):
        out.append(dict(t='interleave', lists=[[int(x) for x in rng.integers(0, 9, size=rng.integers(0, 5))] for _ in range(int(rng.integers(1, 4)))]))
        out.append(dict(t='bcast', shapes=[[int(x) for x in rng.choice([1, 2, 3], size=rng.integers(0, 4))] for _ in range(int(rng.integers(1, 4)))]))
        out.append(dict(t='randmap', K=int(rng.integers(1, 7)), F=int(rng.integers(1, 12)), seed=int(rng.integers(1 << 30))))
    for i in range(36 if q else 240):
        nd = int(rng.integers(1, 4))
        out.append(dict(t='unitnorm', shape=[int(rng.integers(1, 4)) for _ in range(nd)], axis=int(rng.integers(-nd, nd)),
                        style=['plus', 'max', 'where'][i % 3], eps=[[1, 16], [4, 1], [1, 64], [3, 2]][(i // 3) % 4],
                        zero=bool(i % 5 == 0), seed=int(rng.integers(1 << 30)), dtype=['float64', 'float32', 'int64'][(i // 12) % 3]))
    for i in range(12 if q else 60):
        out.append(dict(t='hermitian', D=int(rng.integers(1, 5)), lead=int(i % 2), seed=int(rng.integers(1 << 30))))
        out.append(dict(t='abs_square', n=int(rng.integers(1, 9)), cplx=bool(i % 2), dtype=['complex128', 'complex64', 'float64', 'int64'][i % 4],
                        seed=int(rng.integers(1 << 30))))
    for size, fs in ((8, 16000), (1024, 16000), (512, 8000), (6, 44100), (2, 7)):
        out.append(dict(t='center_freq', size=size, fs=fs))
    return out


def run_case(case):
    t = case['t']
    if t == 'unitnorm':
        from pb_bss.distribution.utils import _unit_norm
        from harness import enc
        rng = np.random.default_rng(case['seed'])
        x = rng.integers(-4, 5, size=case['shape'])
        if case['zero']:
            x[tuple(0 for _ in case['shape'])] = 0
            x = x * (rng.random(case['shape']) < 0.5)
        eps = case['eps'][0] / case['eps'][1]
        xin = x.astype(case['dtype'])
        out, exc = call(_unit_norm, xin, axis=case['axis'], eps=eps, eps_style=case['style'], ord=1)
        return [dict(kind='unitnorm', x=flati(x), axis=case['axis'], style=case['style'], eps=case['eps'], exc=exc,
                     out=dict(shape=[] if out is None else [int(v) for v in np.shape(out)],
                              data=[] if out is None else [enc.rat(v, max_den=1 << 12, rel=1e-6 if case['dtype'] == 'float32' else 1e-9)
                                                           for v in np.asarray(out, dtype=float).ravel()]),
                     fp=f'fn=_unit_norm;style={case["style"]};dtype={case["dtype"]}')]
    if t == 'hermitian':
        from pb_bss.distribution.utils import force_hermitian
        from harness import enc
        rng = np.random.default_rng(case['seed'])
        D = case['D']
        m = rng.integers(-5, 6, size=(D, D)) + 1j * rng.integers(-5, 6, size=(D, D))
        arg = np.stack([m, 2 * m]) if case['lead'] else m
        before = arg.copy()
        out, exc = call(force_hermitian, arg)
        if not np.array_equal(before, arg):
            exc = 'InputMutated'
        o = None if out is None else (out[0] if case['lead'] else out)
        return [dict(kind='hermitian', m=enc.acint(m), out=[] if o is None else enc.acrat(o), exc=exc, fp='fn=force_hermitian')]
    if t == 'abs_square':
        from harness import enc
        rng = np.random.default_rng(case['seed'])
        n = case['n']
        x = rng.integers(-6, 7, size=n) + (1j * rng.integers(-6, 7, size=n) if case['dtype'].startswith('complex') else 0)
        out, exc = call(pu.abs_square, x.astype(case['dtype']))
        ok = out is not None and np.all(np.asarray(out) == np.rint(np.asarray(out).real))
        return [dict(kind='abs_square', x=enc.acint(np.asarray(x, dtype=complex)), exc=exc if (out is None or ok) else 'NonIntegral',
                     out=[] if out is None else [int(v) for v in np.asarray(out).real], real_out=bool(out is not None and not np.iscomplexobj(out)),
                     fp=f'fn=abs_square;dtype={case["dtype"]}')]
    if t == 'center_freq':
        from harness import enc
        out, exc = call(pu.get_stft_center_frequencies, case['size'], case['fs'])
        return [dict(kind='center_freq', size=case['size'], fs=case['fs'], exc=exc,
                     out=[] if out is None else [enc.rat(v, max_den=1 << 12) for v in out], fp='fn=get_stft_center_frequencies')]
    if t == 'reshape':
        shape = [1 if x == '1' else case['sizes'][case['names'].index(x)] for x in case['src']]
        n = int(np.prod(shape)) if shape else 1
        arr = (np.arange(1, n + 1).reshape(shape)).astype(case['dtype'])
        if case['layout'] == 'F':
            arr = np.asfortranarray(arr)
        elif case['layout'] == 'strided' and arr.ndim >= 1:
            big = np.zeros([2 * d for d in arr.shape], dtype=arr.dtype)
            view = big[tuple(slice(None, None, 2) for _ in arr.shape)]
            view[...] = arr
            arr = view
        before = arr.copy()
        out, exc = call(pu.reshape, arr, case['op'])
        if not np.array_equal(before, arr):
            exc = 'InputMutated'
        ok = out is not None and np.all(np.asarray(out) == np.rint(np.real(out))) and np.all(np.imag(out) == 0)
        return [dict(kind='reshape', src=case['src'], tgt=case['tgt'], names=case['names'], sizes=case['sizes'], op=case['op'],
                     exc=exc if (out is None or ok) else 'NonIntegral',
                     out_shape=[] if out is None else [int(x) for x in np.shape(out)],
                     out=[] if out is None else [int(x) for x in np.real(np.asarray(out)).ravel()],
                     same_dtype=bool(out is not None and np.asarray(out).dtype == arr.dtype),
                     fp=f'fn=reshape;layout={case["layout"]};dtype={case["dtype"]}')]
    if t == 'reshape_reject':
        out, exc = call(pu.reshape, np.zeros((2, 3)), case['op'])
        return [dict(kind='reshape_reject', op=case['op'], exc=exc, fp='fn=reshape;reject')]
    if t == 'unsqueeze':
        a = np.arange(int(np.prod(case['shape']))).reshape(case['shape']) if case['shape'] else np.array(7)
        out, exc = call(pu.unsqueeze, a, tuple(case['axes']))
        return [dict(kind='unsqueeze', shape=case['shape'], axes=case['axes'], exc=exc,
                     out_shape=[] if out is None else [int(s) for s in out.shape],
                     same_data=bool(out is not None and np.array_equal(np.ravel(out), np.ravel(a))), fp='fn=unsqueeze')]
    if t == 'onehot':
        rng = np.random.default_rng(case['seed'])
        lsh = case['lshape']
        labels = rng.integers(0, case['C'], size=lsh)
        ax = case['axis']
        if case['keepdims']:
            a = ax if ax >= 0 else ax + len(lsh)
            if not (0 <= a < len(lsh)) or lsh[a] != 1:
                return []
        else:
            a = ax if ax >= 0 else ax + len(lsh) + 1
            if not (0 <= a <= len(lsh)):
                return []
        out, exc = call(pu.labels_to_one_hot, labels, case['C'], axis=ax, keepdims=case['keepdims'])
        return [dict(kind='onehot', labels=flati(labels), C=case['C'], axis=ax, keepdims=case['keepdims'], exc=exc,
                     out=flatb(out) if out is not None else dict(shape=[], data=[]), fp='fn=labels_to_one_hot')]
    if t == 'interleave':
        out, exc = call(lambda: list(pa.interleave(*case['lists'])))
        return [dict(kind='interleave', lists=case['lists'], out=out or [], exc=exc, fp='fn=interleave')]
    if t == 'bcast':
        out, exc = call(pu.is_broadcast_compatible, *case['shapes'])
        return [dict(kind='bcast', shapes=case['shapes'], out=bool(out), exc=exc, fp='fn=is_broadcast_compatible')]
    if t == 'randmap':
        out, exc = call(pa.sample_random_mapping, case['K'], case['F'], np.random.RandomState(case['seed'] % (1 << 31)))
        return [dict(kind='randmap', K=case['K'], F=case['F'], mapping=[] if out is None else [[int(x) for x in row] for row in out],
                     exc=exc, fp='fn=sample_random_mapping')]
    raise ValueError(t)
