"""Driver for the pure layout helpers (growth beyond the listed properties): unsqueeze, labels_to_one_hot,
interleave, is_broadcast_compatible, sample_random_mapping."""
import itertools

import numpy as np

from harness.drivers.mmlib import call, flati, flatb

import pb_bss.utils as pu
from pb_bss import permutation_alignment as pa


def cases(tier, seed, args):
    rng = np.random.default_rng(seed + 99)
    q = tier == 'quick'
    out = []
    shapes = [[]] + [[a] for a in (1, 2)] + [[a, b] for a in (1, 2) for b in (1, 3)]
    for sh in shapes:
        for n in (1, 2):
            for axes in itertools.product(range(-4, 4), repeat=n):
                if q and (sum(axes) + len(sh)) % 3:
                    continue
                out.append(dict(t='unsqueeze', shape=sh, axes=list(axes)))
    for lsh in ([2], [1, 2], [2, 1], [2, 3], [2, 1, 2]):
        for axis in range(-len(lsh) - 1, len(lsh) + 1):
            for keep in (False, True):
                out.append(dict(t='onehot', lshape=lsh, C=int(rng.integers(2, 5)), axis=axis, keepdims=keep, seed=int(rng.integers(1 << 30))))
    for i in range(30 if q else 200):
        out.append(dict(t='interleave', lists=[[int(x) for x in rng.integers(0, 9, size=rng.integers(0, 5))] for _ in range(int(rng.integers(1, 4)))]))
        out.append(dict(t='bcast', shapes=[[int(x) for x in rng.choice([1, 2, 3], size=rng.integers(0, 4))] for _ in range(int(rng.integers(1, 4)))]))
        out.append(dict(t='randmap', K=int(rng.integers(1, 7)), F=int(rng.integers(1, 12)), seed=int(rng.integers(1 << 30))))
    return out


def run_case(case):
    t = case['t']
    if t == 'reshape':
        shape = [1 if x == '1' else case['sizes'][case['names'].index(x)] for x in case['src']]
        n = int(np.prod(shape)) if shape else 1
        arr = (np.arange(1, n + 1).reshape(shape)).astype(case['dtype'])
        if case['layout'] == 'F':
            arr = np.asfortranarray(arr)
        elif case['layout'] == 'strided' and arr.ndim >= 1:
            big = np.zeros([2 * d for d in arr.shape], dtype=arr.dtype)
            view = big[tuple(slice(None, None, 2) for _ in arr.shape)]
            view[...] = arr
            arr = view
        before = arr.copy()
        out, exc = call(pu.reshape, arr, case['op'])
        if not np.array_equal(before, arr):
            exc = 'InputMutated'
        ok = out is not None and np.all(np.asarray(out) == np.rint(np.real(out))) and np.all(np.imag(out) == 0)
        return [dict(kind='reshape', src=case['src'], tgt=case['tgt'], names=case['names'], sizes=case['sizes'], op=case['op'],
                     exc=exc if (out is None or ok) else 'NonIntegral',
                     out_shape=[] if out is None else [int(x) for x in np.shape(out)],
                     out=[] if out is None else [int(x) for x in np.real(np.asarray(out)).ravel()],
                     same_dtype=bool(out is not None and np.asarray(out).dtype == arr.dtype),
                     fp=f'fn=reshape;layout={case["layout"]};dtype={case["dtype"]}')]
    if t == 'reshape_reject':
        out, exc = call(pu.reshape, np.zeros((2, 3)), case['op'])
        return [dict(kind='reshape_reject', op=case['op'], exc=exc, fp='fn=reshape;reject')]
    if t == 'unsqueeze':
        a = np.arange(int(np.prod(case['shape']))).reshape(case['shape']) if case['shape'] else np.array(7)
        out, exc = call(pu.unsqueeze, a, tuple(case['axes']))
        return [dict(kind='unsqueeze', shape=case['shape'], axes=case['axes'], exc=exc,
                     out_shape=[] if out is None else [int(s) for s in out.shape],
                     same_data=bool(out is not None and np.array_equal(np.ravel(out), np.ravel(a))), fp='fn=unsqueeze')]
    if t == 'onehot':
        rng = np.random.default_rng(case['seed'])
        lsh = case['lshape']
        labels = rng.integers(0, case['C'], size=lsh)
        ax = case['axis']
        if case['keepdims']:
            a = ax if ax >= 0 else ax + len(lsh)
            if not (0 <= a < len(lsh)) or lsh[a] != 1:
                return []
        else:
            a = ax if ax >= 0 else ax + len(lsh) + 1
            if not (0 <= a <= len(lsh)):
                return []
        out, exc = call(pu.labels_to_one_hot, labels, case['C'], axis=ax, keepdims=case['keepdims'])
        return [dict(kind='onehot', labels=flati(labels), C=case['C'], axis=ax, keepdims=case['keepdims'], exc=exc,
                     out=flatb(out) if out is not None else dict(shape=[], data=[]), fp='fn=labels_to_one_hot')]
    if t == 'interleave':
        out, exc = call(lambda: list(pa.interleave(*case['lists'])))
        return [dict(kind='interleave', lists=case['lists'], out=out or [], exc=exc, fp='fn=interleave')]
    if t == 'bcast':
        out, exc = call(pu.is_broadcast_compatible, *case['shapes'])
        return [dict(kind='bcast', shapes=case['shapes'], out=bool(out), exc=exc, fp='fn=is_broadcast_compatible')]
    if t == 'randmap':
        out, exc = call(pa.sample_random_mapping, case['K'], case['F'], np.random.RandomState(case['seed'] % (1 << 31)))
        return [dict(kind='randmap', K=case['K'], F=case['F'], mapping=[] if out is None else [[int(x) for x in row] for row in out],
                     exc=exc, fp='fn=sample_random_mapping')]
    raise ValueError(t)
