"""Driver for C17: the documented chain on synthetic separable scenes."""
import numpy as np

from harness import enc
from harness.drivers import mmlib as ml
from harness.drivers.mmlib import call, flat, flatz, flati

from pb_bss.distribution import CACGMMTrainer, CWMMTrainer
from pb_bss.permutation_alignment import DHTVPermutationAlignment, OraclePermutationAlignment, apply_mapping
from pb_bss.extraction import get_power_spectral_density_matrix, get_bf_vector, apply_beamforming_vector
from pb_bss.evaluation.sxr_module import output_sxr

NAMES = ['mvdr_souden', 'gev', 'gev+ban', 'rank1_gev+mvdr_souden', 'rank1_pca+mvdr_souden', 'wmwf', 'rank1_gev+wmwf',
         'mvdr_souden+ban', 'rank1_pca+gev', 'rank1_gev+gev', 'rank1_pca+wmwf', 'rank1_gev+mvdr_souden+ban']


def cases(tier, seed, args):
    rng = np.random.default_rng(seed + 17)
    q = tier == 'quick'
    out = []
    for i in range(4 if q else 36):
        K = 2 + (i % 2)
        out.append(dict(t='scene', K=K, D=int(rng.integers(K + 1, 9 if not q else 6)), F=33 if q else int(rng.choice([33, 65, 257])),
                        T=int(rng.integers(60, 100 if q else 201)), model=['cacgmm', 'cwmm'][(i // 2) % 2],
                        seed=int(rng.integers(1 << 30)), names=(NAMES[:4] + ['wmwf']) if q else NAMES,
                        amp=[1.0, 1e-3, 1e3, 1e-4][i % 4],        # recording level: the whole chain is scale free
                        noise=[1e-2, 1e-4, 1e-3, 1e-5][(i // 2) % 4]))   # sensor noise 40 .. 100 dB below the sources
    return out


def run_case(case):
    rng = np.random.default_rng(case['seed'])
    K, D, F, T = case['K'], case['D'], case['F'], case['T']
    # activity: one source per frame (equal across frequency), every source active in >= 15 % of the frames
    while True:
        act = rng.integers(0, K, size=T)
        if np.bincount(act, minlength=K).min() >= 0.15 * T:
            break
    truth = np.broadcast_to(act, (F, T)).copy()
    steer = rng.normal(size=(F, K, D)) + 1j * rng.normal(size=(F, K, D))
    s = rng.normal(size=(F, T)) + 1j * rng.normal(size=(F, T))
    images = np.zeros((K, F, D, T), complex)          # per-source images
    for k in range(K):
        images[k] = np.einsum('fd,ft->fdt', steer[:, k], s * (truth == k))
    noise = case.get('noise', 1e-2) * (rng.normal(size=(F, D, T)) + 1j * rng.normal(size=(F, D, T)))     # -40 dB and below
    amp = case.get('amp', 1.0)
    images = images * amp
    Y = images.sum(0) + noise * amp                                                     # (F, D, T)
    # DHTV configuration with shift <= width / 3
    width = max(6, F // 3)
    start = F // 3
    shift = max(1, width // 4)
    pa = DHTVPermutationAlignment(stft_size=2 * (F - 1), segment_start=start, segment_width=width, segment_shift=shift,
                                  main_iterations=20, sub_iterations=2)
    # injected per-frequency permutation field, 85 % majority in the first segment
    field = np.stack([rng.permutation(K) for _ in range(F)])                            # field[f][k] = source of class k
    common = rng.permutation(K)
    if K == 3 and case['seed'] % 2:
        common = np.array([[1, 2, 0], [2, 0, 1]][(case['seed'] // 2) % 2])      # a global permutation that is not its own inverse
    plan = pa.alignment_plan
    for f in range(plan[0][1], plan[0][2]):
        if rng.random() < 0.85:
            field[f] = common
    onehot = np.moveaxis(np.eye(K)[truth], -1, -2)                                      # (F, K_source, T)
    init = np.stack([onehot[f][field[f]] for f in range(F)])                            # class k at f = source field[f][k]
    init = 0.7 * init + 0.3 / K
    trainer = CACGMMTrainer() if case['model'] == 'cacgmm' else CWMMTrainer()
    obs_mm = np.ascontiguousarray(np.transpose(Y, (0, 2, 1)))                           # (F, T, D)
    fp = f't=scene;model={case["model"]};K={K};F={F};amp={amp:g};noise={case.get("noise", 1e-2):g}'
    key = f'scene:{case["seed"]}'
    model, exc = call(trainer.fit, obs_mm, initialization=init, iterations=10)
    if model is None:
        return [dict(kind='scene', exc='fit:' + exc, fp=fp, key=key)]
    aff, exc = call(model.predict, obs_mm)                                              # (F, K, T)
    if aff is None:
        return [dict(kind='scene', exc='predict:' + exc, fp=fp, key=key)]
    aff_kft = np.transpose(aff, (1, 0, 2))
    if (case['seed'] // 2) % 2:
        # the aligner object has served another utterance of the same size before (one aligner per separation system)
        field0 = np.stack([rng.permutation(K) for _ in range(F)])
        other = np.stack([onehot[f][field0[f]] for f in range(F)])
        other = np.transpose(0.8 * other + 0.2 / K, (1, 0, 2))
        call(pa.calculate_mapping, np.ascontiguousarray(other))
        fp += ';aligner_reused'
    mapping, exc = call(pa.calculate_mapping, aff_kft)
    if mapping is None:
        return [dict(kind='scene', exc='dhtv:' + exc, fp=fp, key=key)]
    aff_pa = pa.apply_mapping(aff_kft, mapping)                                         # (K, F, T)
    # oracle global alignment as in the notebook
    est = (aff_pa[:, None] * np.transpose(Y, (1, 0, 2))[None]).reshape(K, -1)           # (K, D*F*T)
    ref = np.transpose(images, (0, 2, 1, 3)).reshape(K, -1)
    gmap, exc = call(OraclePermutationAlignment().calculate_mapping, est, ref)
    if gmap is None:
        return [dict(kind='scene', exc='oracle:' + exc, fp=fp, key=key)]
    aff_final = aff_pa[gmap]
    sub = slice(0, F, max(1, F // 33))
    recs = [dict(kind='scene', exc='', K=K, F=len(range(F)[sub]), T=T, post=flat(aff_final[:, sub]), truth=flati(truth[sub]),
                 field=[[int(x) for x in field[f]] for f in range(F)][sub], mapping=[[int(x) for x in row[sub]] for row in mapping],
                 gmap=[int(x) for x in gmap], fp=fp, key=key)]
    # beamforming: masks (F, K, T)
    masks = np.ascontiguousarray(np.transpose(aff_final, (1, 0, 2)))
    psd, exc = call(get_power_spectral_density_matrix, Y, masks)                        # (F, K, D, D)
    if psd is None:
        return recs + [dict(kind='beam', exc='psd:' + exc, fp=fp, key=key + ':psd')]
    for name in case['names']:
        contrib = np.zeros((K, K, F, T), complex)
        exc = ''
        # one beamformer per speaker: all vectors are designed first, then applied
        W = []
        for kt in range(K):
            target = psd[:, kt]
            interf = psd.sum(1) - target
            w, exc = call(get_bf_vector, name, target, interf)
            if w is None:
                break
            W.append(w)
        if len(W) == K:
            for kt in range(K):
                for ks in range(K):
                    contrib[ks, kt] = apply_beamforming_vector(W[kt], images[ks])
        rec = dict(kind='beam', name=name, exc=exc, K=K, fp=fp + f';bf={name}', key=key + ':' + name)
        if not exc:
            cs = contrib[:, :, sub].reshape(K, K, -1)
            res, e2 = call(output_sxr, cs, np.zeros((K, cs.shape[-1]), complex), average_sources=False)
            sir = np.full(K, np.inf) if res is None else 10.0 ** (np.asarray(res.sir) / 10.0)
            rec.update(contrib=[[flatz(contrib[ks, kt][sub]) for kt in range(K)] for ks in range(K)],
                       sir=[enc.flt(x) for x in sir])
        recs.append(rec)
    return recs
