"""Driver for pb_bss.extraction.beamformer / beamformer_wrapper (C11, C12, C13)."""
import numpy as np

from harness import enc

from pb_bss.extraction import beamformer as bf
from pb_bss.extraction import beamformer_wrapper as bw


def _call(fn, *a, **kw):
    """Call with the caller's arrays snapshotted: a callee that overwrites its inputs is reported as the
    pseudo-exception 'InputMutated' (every later clause is stated on the arrays the caller passed), and the
    arrays are restored so the record logs what was passed."""
    arrs = [x for x in list(a) + list(kw.values()) if isinstance(x, np.ndarray)]
    snaps = [x.copy() for x in arrs]
    try:
        with np.errstate(all='ignore'):
            res, exc = fn(*a, **kw), ''
    except Exception as e:
        res, exc = None, type(e).__name__
    for x, s_ in zip(arrs, snaps):
        if not np.array_equal(x, s_, equal_nan=True):
            if x.flags.writeable:
                x[...] = s_
            res, exc = None, 'InputMutated'
    return res, exc


def flay(x):
    """Same values, but every trailing (D, D) slice is Fortran-contiguous (what .conj().swapaxes(-1, -2),
    scipy.linalg.inv or np.asfortranarray hand to the beamformers)."""
    return np.ascontiguousarray(x.swapaxes(-1, -2)).swapaxes(-1, -2)


Z = enc.azflt


def cvec(rng, *shape):
    return rng.normal(size=shape) + 1j * rng.normal(size=shape)


def pd(rng, F, D, cond):
    """Hermitian positive definite stack (F, D, D) with condition number ~cond and random scale."""
    out = np.empty((F, D, D), complex)
    for f in range(F):
        q, _ = np.linalg.qr(cvec(rng, D, D))
        lam = np.logspace(0, -np.log10(cond), D) if D > 1 else np.ones(1)
        lam = lam * 10.0 ** rng.uniform(-2, 2)
        m = (q * lam) @ q.conj().T
        out[f] = 0.5 * (m + m.conj().T)
    return out


def cases(tier, seed, args):
    prop = args.get('prop', 'C11')
    rng = np.random.default_rng(seed + sum(map(ord, prop)))
    q = tier == 'quick'
    out = []
    n = 10 if q else 80

    def base(i):
        return dict(D=int(rng.integers(2, 9)), F=int(rng.choice([1, 2, 5, 32] if not q else [1, 3, 8])),
                    cond=float(10.0 ** rng.integers(0, 7)), seed=int(rng.integers(1 << 30)))
    if prop == 'C11':
        for i in range(n * 2):
            out.append(dict(t='mvdr', stack=['single', 'bcast', 'stack', 'kstack'][i % 4], K=int(rng.integers(1, 4)), **base(i)))
        for i in range(n):
            out.append(dict(t='lcmv', K=1 + (i // 2) % 3, general=bool(i % 2), **base(i)))
        # sensors with strongly mismatched gains (Phi = G Phi0 G, one channel 46 .. 80 dB below the others, condition <= 1e6)
        for i in range(6 if q else 24):
            out.append(dict(t='mvdr', stack=['single', 'bcast', 'stack', 'kstack'][i % 4], K=2, chan_gain=[0.005, 1e-4, 200.0][i % 3],
                            **dict(base(i), cond=[10.0, 1.0, 3.0][i % 3], D=int(rng.integers(2, 6)))))
        # two nearly collinear (but independent) steering vectors
        for i in range(4 if q else 16):
            out.append(dict(t='lcmv', K=2 + i % 2, general=bool(i % 2), collinear=[1.5e-5, 1e-4][(i // 2) % 2],
                            **dict(base(i), cond=[100.0, 10.0][i % 2], D=int(rng.integers(3, 7)))))
        for i in range(n * 2):
            out.append(dict(t='souden', lead=int(i % 3 == 2), **base(i)))
        for i in range(n * 2):
            out.append(dict(t='wmwf', mu=float(rng.choice([0.0, 0.5, 1.0, 10.0, 100.0, rng.uniform(0, 100)])), **base(i)))
        for i in range(n):
            out.append(dict(t='refch', which=['souden', 'wmwf'][i % 2], js=[1.0, 1e-18, 1e12, 1e-24][(i // 2) % 4], **base(i)))
        for i in range(4 if q else 12):
            # the automatic WMWF reference on very quiet recordings (every joint scale, several sizes)
            out.append(dict(t='refch', which='wmwf', js=[1e-18, 1e-24][i % 2], **dict(base(i), D=int(rng.integers(3, 7)), F=int(rng.integers(2, 6)))))
        for i in range(n * 3):
            D = [2, 3, 2, 3, 4][i % 5]
            out.append(dict(t=['mvdrx', 'soudenx', 'wmwfx'][i % 3], D=D, F=int(rng.integers(1, 5)),
                            hi=2 if D < 4 else 1, ref=int(rng.integers(8)), seed=int(rng.integers(1 << 30)),
                            mu=[[0, 1], [1, 2], [1, 1], [3, 1], [10, 1]][i % 5] if i % 3 == 2 else None))
        for i in range(n):
            out.append(dict(t='scale', which=['souden_x', 'souden_n', 'wmwf_joint', 'wmwf0'][i % 4], **base(i)))
    if prop == 'C12':
        for i in range(n * 2):
            out.append(dict(t='gev', use_eig=bool(i % 2), lead=int(i % 3), layout='CF'[(i // 2) % 2],
                            dtypes=['cc', 'rc', 'cc', 'cr', 'ic'][(i // 2) % 5], **base(i)))
        for i in range(n * 2):
            out.append(dict(t='pca', scaling=[None, 'trace', 'eigenvalue'][i % 3], lead=int(i % 2), **base(i)))
        # more than 256 bins in one call (a whole spectrum, or sources x frequencies)
        for i in range(2 if q else 8):
            out.append(dict(t='gev', use_eig=bool(i % 4 == 3), lead=int(i % 2), layout='C', dtypes='cc', **dict(base(i), F=[257, 300, 513, 260][i % 4], D=int(rng.integers(2, 5)))))
            out.append(dict(t='pca', scaling=[None, 'trace', 'eigenvalue'][i % 3], lead=int(i % 2), **dict(base(i), F=[257, 300][i % 2], D=int(rng.integers(2, 5)))))
        # bins on very different levels in one call (up to 400 dB apart): every bin is its own problem
        for i in range(4 if q else 16):
            out.append(dict(t='pca', scaling=[None, 'trace', 'eigenvalue'][i % 3], lead=int(i % 2), level_spread=True, **dict(base(i), F=int(rng.integers(2, 6)))))
            out.append(dict(t='gev', use_eig=bool(i % 2), lead=int(i % 2), layout='C', dtypes='cc', level_spread=True, **dict(base(i), F=int(rng.integers(2, 6)))))
        for i in range(n):
            out.append(dict(t='pca', scaling=[None, 'trace', 'eigenvalue'][i % 3], lead=int(i % 2), structure=['mixed', 'diag', 'mixed', 'rank1axis'][i % 4],
                            **dict(base(i), D=[2, 2, 3, 4, 2][i % 5])))
        for i in range(n * 2):
            out.append(dict(t='rank1', which=['pca', 'gev'][i % 2], exact=bool(i % 4 < 2),
                            scaling=[None, 'trace', 'eigenvalue'][(i // 2) % 3], layout='CF'[(i // 4) % 2], **base(i)))
        for i in range(n * 2):
            out.append(dict(t='ban', gain=float(10.0 ** rng.integers(-6, 7)), nscale=float(10.0 ** rng.integers(-12, 4)), **base(i)))
        for i in range(6 if q else 24):
            out.append(dict(t='ban', gain=float(10.0 ** rng.integers(-3, 4)), nscale=float(10.0 ** rng.integers(-6, 4)), real_vector=['onehot', 'real'][i % 2],
                            **dict(base(i), D=int(rng.integers(2, 6)))))
        # exactly diagonal noise PSDs with unequal sensor noise powers (uncorrelated, not white), and exactly white ones
        for i in range(6 if q else 24):
            out.append(dict(t='gev', use_eig=bool(i % 3 == 2), lead=int(i % 2), layout='C', dtypes='cc', noise_diag=['unequal', 'unequal', 'white'][i % 3],
                            **dict(base(i), D=int(rng.integers(2, 6)))))
        for i in range(n):
            # '+ban' through the wrapper, for both eigen-solvers (eigh normalises w^H Phi_nn w = 1, eig returns unit 2-norm)
            out.append(dict(t='ban_wrapper', name=['gev+ban', 'rank1_pca+gev+ban', 'mvdr_souden+ban', 'rank1_gev+gev+ban'][i % 4],
                            use_eig=bool((i // 2) % 2), **base(i)))
    if prop == 'C13':
        for i in range(n):
            out.append(dict(t='apply', T=int(rng.integers(1, 12)), lead=int(i % 5), **base(i)))
        for i in range(n * 2):
            out.append(dict(t='phase', lead=[0, 1, 2, 3][i % 4], zero=bool(i % 5 == 4), **base(i)))
        for i in range(n * 2):
            out.append(dict(t='stackeq', fn=['souden', 'wmwf', 'gev', 'pca', 'ban', 'mvdr', 'souden_auto'][i % 7], L=int(rng.integers(1, 4)), **base(i)))
        for i in range(4 if q else 16):
            out.append(dict(t='stackeq', fn=['wmwf_fd', 'wmwf_mu'][i % 2], L=2 + i % 2, **dict(base(i), F=[3, 8, 2, 5][i % 4])))
        for i in range(n):
            out.append(dict(t='singular', fn=['souden', 'wmwf'][i % 2], kind=['zero', 'rank', 'both'][i % 3], **base(i)))
        # the full grid function x dtypes of (target, noise) x kind of degenerate bin, deterministically
        for fn_ in ('souden', 'wmwf'):
            for dt_ in ('cc', 'rc', 'cr', 'ss'):
                for kd_ in ('zero', 'rank', 'both'):
                    out.append(dict(t='singular', fn=fn_, kind=kd_, dt=dt_, **dict(base(0), D=int(rng.integers(2, 6)), F=int(rng.integers(3, 7)))))
        # every bin degenerate (target PSD zero, or noise PSD zero, in all bins) with the ESTIMATED reference channel
        for i in range(6 if q else 24):
            out.append(dict(t='singular_all', which=['target', 'noise', 'both'][i % 3], name=['direct', 'wmwf', 'wmwf+ban', 'rank1_pca+wmwf'][(i // 3) % 4],
                            **dict(base(i), F=[1, 3, 2][i % 3])))
        # fixed input reproducing the recorded known finding (see known_findings.json)
        out.append(dict(t='singular', fn='souden', kind='rank', D=7, F=3, cond=1.0, seed=577194273))
    return out


def name_cases(states, seed, reps=1):
    """cases from the TLC dump of MC_BfName (name + pipeline)"""
    out = []
    for st in states:
        for rep in range(reps):
            out.append(dict(t='name', name=st['name'], pipeline=st['pipe'], D=3 + rep, F=2 + rep,
                            seed=seed * 1000 + len(out), refch=[None, 0, 1][rep % 3]))
    return out


# ---------------------------------------------------------------------------
def _rank1(rng, F, D):
    a = cvec(rng, F, D)
    sigma = 10.0 ** rng.uniform(-2, 2, size=F)
    phix = sigma[:, None, None] * np.einsum('fd,fe->fde', a, a.conj())
    return a, sigma, phix


# ---- exact Gaussian-rational linear algebra (case construction and encoding only) ----
from fractions import Fraction
from math import gcd


class CQ:
    __slots__ = ('re', 'im')

    def __init__(self, re, im=0):
        self.re, self.im = Fraction(re), Fraction(im)

    def __add__(s, o): return CQ(s.re + o.re, s.im + o.im)
    def __sub__(s, o): return CQ(s.re - o.re, s.im - o.im)
    def __mul__(s, o): return CQ(s.re * o.re - s.im * o.im, s.re * o.im + s.im * o.re)
    def conj(s): return CQ(s.re, -s.im)

    def __truediv__(s, o):
        d = o.re * o.re + o.im * o.im
        n = s * o.conj()
        return CQ(n.re / d, n.im / d)

    def iszero(s): return s.re == 0 and s.im == 0


def _solve_exact(M, b):
    n = len(M)
    A = [[CQ(int(M[i][j].real), int(M[i][j].imag)) for j in range(n)] + [b[i]] for i in range(n)]
    for c in range(n):
        piv = next(r for r in range(c, n) if not A[r][c].iszero())
        A[c], A[piv] = A[piv], A[c]
        for r in range(n):
            if r != c and not A[r][c].iszero():
                f = A[r][c] / A[c][c]
                A[r] = [A[r][k] - f * A[c][k] for k in range(n + 1)]
    return [A[i][n] / A[i][i] for i in range(n)]


def _common_den(vec):
    den = 1
    for z in vec:
        for q in (z.re.denominator, z.im.denominator):
            den = den * q // gcd(den, q)
    return den


def _exact_item(rng, D, hi, kind, mu=None):
    A = rng.integers(-hi, hi + 1, size=(D, D)) + 1j * rng.integers(-hi, hi + 1, size=(D, D))
    phin = A @ A.conj().T + np.eye(D)
    a = rng.integers(-2, 3, size=D) + 1j * rng.integers(-2, 3, size=D)
    if not np.any(a):
        a[0] = 1
    ref = int(rng.integers(D))
    if a[ref] == 0:
        a[ref] = 1
    aq = [CQ(int(z.real), int(z.imag)) for z in a]
    x = _solve_exact(phin, aq)
    s = CQ(0)
    for i in range(D):
        s = s + aq[i].conj() * x[i]
    if kind == 'mvdrx':
        w = [xi / s for xi in x]
    elif kind == 'soudenx':
        w = [xi * aq[ref].conj() / s for xi in x]
    else:
        m = CQ(Fraction(mu[0], mu[1]))
        w = [xi * aq[ref].conj() / (m + s) for xi in x]
    den = _common_den(w)
    nmax = max(max(abs(z.re * den), abs(z.im * den)) for z in w)
    return phin, a, ref, den, nmax


def _enc_exact(w, den):
    n = np.asarray(w) * den
    r = np.rint(n.real) + 1j * np.rint(n.imag)
    ok = bool(np.all(np.isfinite(n)) and np.max(np.abs(n - r)) <= 1e-6 * max(1.0, float(np.max(np.abs(r)))))
    return (enc.acint(r) if ok else []), ok


def _run_exact(case, rng):
    t, D, F = case['t'], case['D'], case['F']
    mu = case.get('mu')
    items_in = []
    tries = 0
    while len(items_in) < F and tries < 400:
        tries += 1
        phin, a, ref0, den, nmax = _exact_item(rng, D, case['hi'], t, mu)
        if den * max(nmax, 1) > (1 << 17) * (4 if D == 2 else 1) or den > (1 << 15):
            continue
        items_in.append((phin, a, den))
    # one reference channel per call: regenerate items sharing the first ref
    ref = case['ref'] % D
    phin = np.stack([x[0] for x in items_in])
    a = np.stack([x[1] for x in items_in])
    for f in range(len(items_in)):
        if a[f, ref] == 0:
            a[f, ref] = 1
    # recompute exact denominators for the final (a, ref)
    dens = []
    for f in range(len(items_in)):
        aq = [CQ(int(z.real), int(z.imag)) for z in a[f]]
        x = _solve_exact(phin[f], aq)
        s = CQ(0)
        for i in range(D):
            s = s + aq[i].conj() * x[i]
        if t == 'mvdrx':
            w = [xi / s for xi in x]
        elif t == 'soudenx':
            w = [xi * aq[ref].conj() / s for xi in x]
        else:
            w = [xi * aq[ref].conj() / (CQ(Fraction(mu[0], mu[1])) + s) for xi in x]
        dens.append(_common_den(w))
    phix = np.einsum('fd,fe->fde', a, a.conj())
    if t == 'mvdrx':
        w, exc = _call(bf.get_mvdr_vector, a.astype(complex), phin.astype(complex))
    elif t == 'soudenx':
        w, exc = _call(bf.get_mvdr_vector_souden, phix.astype(complex), phin.astype(complex), ref_channel=ref)
    else:
        w, exc = _call(bf.get_wmwf_vector, phix.astype(complex), phin.astype(complex), reference_channel=ref,
                       distortion_weight=mu[0] / mu[1])
    its = []
    for f in range(len(items_in)):
        if dens[f] > (1 << 15):
            continue
        n, ok = ([], False) if w is None else _enc_exact(w[f], dens[f])
        its.append(dict(a=enc.acint(a[f]), phin=enc.acint(phin[f]), n=n, den=int(dens[f]), isint=ok))
    rec = dict(kind=t, items=its, exc=exc, ref=ref + 1, fp=f't={t};D={D}', key=f'{t}:{case["seed"]}')
    if mu is not None:
        rec['mu'] = mu
    return rec


def run_case(case):
    rng = np.random.default_rng(case['seed'])
    t = case['t']
    if t in ('mvdrx', 'soudenx', 'wmwfx'):
        return [_run_exact(case, rng)]
    F, D = case.get('F', 1), case.get('D', 2)
    fp = f't={t}'
    if t == 'mvdr':
        phin = pd(rng, F, D, case['cond'])
        lvl = [1.0, 1e-16, 1e12, 1e-22][case['seed'] % 4]       # absolute level of the noise field (the vector does not depend on it)
        if case.get('chan_gain'):
            g = np.ones(D)
            g[int(rng.integers(D))] = case['chan_gain']
            phin = phin * g[:, None] * g[None, :]
            lvl = 1.0
            fp += ';chan_gain'
        phin = phin * lvl
        fp += f';level={lvl:g}'
        st = case['stack']
        fp += f';stack={st}'
        if st == 'single':
            a = cvec(rng, D)
            w, exc = _call(bf.get_mvdr_vector, a, phin[0])
            items = [(a, phin[0], w)]
        elif st == 'bcast':
            a = cvec(rng, D)
            w, exc = _call(bf.get_mvdr_vector, a, phin)
            items = [(a, phin[f], None if w is None else w[f]) for f in range(F)]
        elif st == 'stack':
            a = cvec(rng, F, D)
            w, exc = _call(bf.get_mvdr_vector, a, phin)
            items = [(a[f], phin[f], None if w is None else w[f]) for f in range(F)]
        else:
            K = case['K']
            a = cvec(rng, K, F, D)
            w, exc = _call(bf.get_mvdr_vector, a, phin)
            items = [(a[k, f], phin[f], None if w is None else w[k, f]) for k in range(K) for f in range(F)]
        its = []
        for a_, p_, w_ in items[:12]:
            probes = [cvec(rng, D) for _ in range(2)] + [np.eye(D)[0].astype(complex)]
            its.append(dict(a=Z(a_), phin=Z(p_), w=[] if w_ is None else Z(w_), probes=[Z(p) for p in probes]))
        return [dict(kind='mvdr', items=its, exc=exc, fp=fp, key=f'mvdr:{case["seed"]}')]
    if t == 'lcmv':
        K = min(case['K'], D)
        phin = pd(rng, F, D, case['cond'])
        A = cvec(rng, K, F, D)
        if case.get('collinear'):
            A[1] = A[0] + case['collinear'] * cvec(rng, F, D)
            fp += ';collinear'
        # requested responses: one-hot (the documented use) and general exactly representable gains
        if not case.get('general'):
            resp = np.zeros(K)
            resp[rng.integers(K)] = 1.0
        else:
            resp = rng.choice([0.0, 1.0, 0.5, 2.0, -1.0, 0.25], size=K)
            resp[rng.integers(K)] = rng.choice([0.5, 2.0, -1.0, 0.25])
        w, exc = _call(bf.get_lcmv_vector, A, resp, phin)
        its = [dict(As=[Z(A[k, f]) for k in range(K)], resp=enc.aflt(resp), phin=Z(phin[f]),
                    w=[] if w is None else Z(w[f])) for f in range(min(F, 8))]
        return [dict(kind='lcmv', items=its, exc=exc, fp=fp, key=f'lcmv:{case["seed"]}')]
    if t in ('souden', 'wmwf'):
        phin = pd(rng, F, D, case['cond'])
        a, sigma, phix = _rank1(rng, F, D)
        if case['seed'] % 3 == 0:
            # noise PSD stored in a REAL dtype (identity-like, diagonal or real symmetric: diffuse / sensor noise models)
            # next to a complex target PSD
            phin = np.ascontiguousarray(phin.real) + np.eye(D) * 1e-3 * np.abs(phin).max()
            fp += ';real_noise'
        ref = int(rng.integers(D))
        ref_arg = ref
        if (case['seed'] // 3) % 2:
            ref_arg = [np.int64(ref), np.int32(ref), np.intp(ref)][case['seed'] % 3]     # as np.argmax / rng.integers return it
            fp += ';ref=numpy_int'
        if t == 'souden':
            if case.get('lead'):
                w, exc = _call(bf.get_mvdr_vector_souden, phix[None], phin[None], ref_channel=ref_arg)
                w = None if w is None else w[0]
            else:
                w, exc = _call(bf.get_mvdr_vector_souden, phix, phin, ref_channel=ref_arg)
            rec = dict(kind='souden', ref=ref + 1)
        else:
            mu_arg = case['mu']
            if float(mu_arg) == int(mu_arg) and case['seed'] % 2:
                mu_arg = [int(mu_arg), np.int64(int(mu_arg)), np.float32(mu_arg)][(case['seed'] // 2) % 3]   # 0, 1, 10, 100 as written by a user
                fp += f';mu={type(mu_arg).__name__}'
            w, exc = _call(bf.get_wmwf_vector, phix, phin, reference_channel=ref_arg, distortion_weight=mu_arg)
            rec = dict(kind='wmwf', ref=ref + 1, mu=enc.flt(case['mu']))
        its = [dict(a=Z(a[f]), sigma=enc.flt(sigma[f]), phin=Z(phin[f]), w=[] if w is None else Z(w[f]))
               for f in range(min(F, 8))]
        rec.update(items=its, exc=exc, fp=fp + f';ref={ref}', key=f'{t}:{case["seed"]}')
        return [rec]
    if t == 'refch':
        phin = pd(rng, F, D, min(case['cond'], 1e3))
        phix = pd(rng, F, D, 10.0)
        a, sigma, r1 = _rank1(rng, F, D)
        phix = r1 + 0.01 * phix
        if (case['seed'] // 4) % 2:
            # exactly rank-one weak target whose steering vector vanishes at one sensor in every bin: that candidate column is
            # exactly zero (SNR 0 / 0 -> 0), every real candidate has an output SNR below one
            dead = int(rng.integers(D))
            a[:, dead] = 0
            phix = 1e-3 * sigma[:, None, None] * np.einsum('fd,fe->fde', a, a.conj())
            fp += ';dead_sensor_weak_target'
        # joint scale of both PSDs (the criterion is a ratio): ordinary, very quiet, very loud recordings
        js = case.get('js') or [1.0, 1e-18, 1e12, 1e-24][case['seed'] % 4]
        phin, phix = phin * js, phix * js
        fp += f';scale={js:g}'
        if case['which'] == 'souden':
            res, exc = _call(bf.get_mvdr_vector_souden, phix, phin, return_ref_channel=True)
            chosen = -1 if res is None else int(res[1])
            cands = [bf.get_mvdr_vector_souden(phix, phin, ref_channel=c) for c in range(D)]
            if res is not None:
                # the vector returned with the automatic channel is the candidate of that channel
                pass
        else:
            w, exc = _call(bf.get_wmwf_vector, phix, phin)
            cands = [bf.get_wmwf_vector(phix, phin, reference_channel=c) for c in range(D)]
            chosen = -1
            if w is not None:
                eq = [c for c in range(D) if np.array_equal(cands[c], w)]
                chosen = eq[0] if eq else -2
        its = [dict(phix=Z(phix[f]), phin=Z(phin[f])) for f in range(F)]
        return [dict(kind='refch', items=its, cands=[[Z(c[f]) for f in range(F)] for c in cands], chosen=chosen,
                     exc=exc, fp=fp + f';{case["which"]}', key=f'refch:{case["seed"]}')]
    if t == 'scale':
        phin = pd(rng, F, D, min(case['cond'], 1e4))
        a, sigma, phix = _rank1(rng, F, D)
        ref = int(rng.integers(D))
        c = float(10.0 ** rng.uniform(-4, 4))
        wh = case['which']
        if wh == 'souden_x':
            w1, e1 = _call(bf.get_mvdr_vector_souden, phix, phin, ref_channel=ref)
            w2, e2 = _call(bf.get_mvdr_vector_souden, c * phix, phin, ref_channel=ref)
        elif wh == 'souden_n':
            w1, e1 = _call(bf.get_mvdr_vector_souden, phix, phin, ref_channel=ref)
            w2, e2 = _call(bf.get_mvdr_vector_souden, phix, c * phin, ref_channel=ref)
        elif wh == 'wmwf_joint':
            # scaling both PSDs jointly: (c Pxx + mu c Pnn)^-1 c Pxx e = same; the code's mu is
            # absolute, so the joint invariance holds for the vector with mu scaled out: use mu = 0
            # and the general statement "of both jointly" with mu fixed relative: distortion_weight 1
            # on (Pxx, Pnn) versus distortion_weight 1 on (c Pxx, c Pnn)
            w1, e1 = _call(bf.get_wmwf_vector, phix, phin, reference_channel=ref, distortion_weight=1.0)
            w2, e2 = _call(bf.get_wmwf_vector, c * phix, c * phin, reference_channel=ref, distortion_weight=1.0)
        else:
            w1, e1 = _call(bf.get_wmwf_vector, phix, phin, reference_channel=ref, distortion_weight=0.0)
            w2, e2 = _call(bf.get_mvdr_vector_souden, phix, phin, ref_channel=ref)
        exc = e1 or e2
        its = [] if exc else [dict(w1=Z(w1[f]), w2=Z(w2[f])) for f in range(min(F, 8))]
        return [dict(kind='pair', what=wh, items=its, exc=exc, fp=fp + f';{wh}', key=f'scale:{case["seed"]}')]
    if t == 'gev':
        phin = pd(rng, F, D, min(case['cond'], 1e6))
        phix = pd(rng, F, D, 1e2)
        lead = case['lead']
        if case.get('noise_diag'):
            pw = rng.uniform(0.2, 5.0, size=(F, D)) if case['noise_diag'] == 'unequal' else np.repeat(rng.uniform(0.2, 5.0, size=(F, 1)), D, axis=1)
            phin = np.einsum('fd,de->fde', pw, np.eye(D)).astype(complex)
            fp += f';noise_diag={case["noise_diag"]}'
        if case.get('level_spread'):
            lv = 10.0 ** rng.choice([0, -13, 5, -20, 8], size=F)
            lv[0], lv[-1] = 1.0, 1e-13
            phix, phin = phix * lv[:, None, None], phin * (lv ** 0.5)[:, None, None]
            fp += ';level_spread'
        if case.get('layout') == 'F':
            phix, phin = flay(phix), flay(phin)
        dtm = case.get('dtypes', 'cc')
        if dtm == 'rc':          # real symmetric float64 target, complex noise
            ar = rng.normal(size=(F, D, D))
            phix = ar @ np.swapaxes(ar, -1, -2) + 0.1 * np.eye(D)
        elif dtm == 'cr':        # complex target, real symmetric noise
            phin = np.ascontiguousarray(phin.real) + 1e-3 * np.abs(phin).max() * np.eye(D)
        elif dtm == 'ic':        # integer-valued target with an integer dtype, complex noise
            ai = rng.integers(-3, 4, size=(F, D, D))
            phix = ai @ np.swapaxes(ai, -1, -2) + np.eye(D, dtype=np.int64)
        px, pn = phix, phin
        for _ in range(lead):
            px, pn = px[None], pn[None]
        w, exc = _call(bf.get_gev_vector, px, pn, use_eig=case['use_eig'])
        if w is not None:
            keep = w.copy()
            # another problem of the same size is solved before the first result is used (one beamformer per speaker)
            _call(bf.get_gev_vector, px * 0.5 + np.swapaxes(pn, -1, -2).conj(), pn + px, use_eig=case['use_eig'])
            if not np.array_equal(keep, w, equal_nan=True):
                w, exc = None, 'ResultOverwritten'
        if w is not None:
            w = w.reshape(F, D)
        others = []
        for name in ('mvdr_souden', 'wmwf', 'pca', 'rank1_gev+mvdr_souden'):
            o, e = _call(bw.get_bf_vector, name, phix, phin)
            if o is not None and np.all(np.isfinite(o)):
                others.append(o)
        its = []
        for f in sorted(set(list(range(min(F, 4))) + [F // 2, F - 1])):
            probes = [cvec(rng, D) for _ in range(3)] + [np.eye(D)[i].astype(complex) for i in range(min(D, 2))] + \
                     [o[f] for o in others]
            its.append(dict(phix=Z(phix[f]), phin=Z(phin[f]), w=[] if w is None else Z(w[f]), probes=[Z(p) for p in probes]))
        return [dict(kind='gev', items=its, exc=exc, fp=fp + f';use_eig={case["use_eig"]};dtypes={dtm}', key=f'gev:{case["seed"]}')]
    if t == 'pca':
        phi = pd(rng, F, D, 1e3)
        st = case.get('structure')
        if st:
            # exactly structured PSD matrices: uncorrelated sensors (diagonal, any order of the powers), a multiple of the
            # identity, an exactly rank-one target whose steering vector has zero entries
            for f in range(F):
                kind_f = ['diag', 'ident', 'rank1axis', 'diag'][(f + case['seed']) % 4] if st == 'mixed' else st
                if kind_f == 'diag':
                    phi[f] = np.diag(rng.permutation(np.arange(1, D + 1)).astype(float) * 10.0 ** rng.integers(-3, 4))
                elif kind_f == 'ident':
                    phi[f] = np.eye(D) * 10.0 ** rng.integers(-3, 4)
                else:
                    v = np.zeros(D, complex)
                    v[rng.integers(D)] = cvec(rng, 1)[0]
                    if D > 2:
                        v[rng.integers(D)] = cvec(rng, 1)[0]
                    phi[f] = np.outer(v, v.conj())
        if case.get('level_spread'):
            lv = 10.0 ** rng.choice([0, -13, 5, -20, 8], size=F)
            lv[0], lv[-1] = 1.0, 1e-13
            phi = phi * lv[:, None, None]
            fp += ';level_spread'
        px = phi
        for _ in range(case['lead']):
            px = px[None]
        if case['seed'] % 3 == 0 and F >= 2:
            # two genuine leading axes (2, F', D, D) handed over in Fortran order
            Fh = F // 2
            px = np.asfortranarray(phi[:2 * Fh].reshape(2, Fh, D, D))
            phi = phi[:2 * Fh]
            F = 2 * Fh
            fp += ';two_leads_F'
        kw = {} if case['scaling'] is None else dict(scaling=case['scaling'])
        w, exc = _call(bf.get_pca_vector, px, **kw)
        if w is not None:
            w = w.reshape(F, D)
        its = [dict(phi=Z(phi[f]), w=[] if w is None else Z(w[f]),
                    probes=[Z(cvec(rng, D)) for _ in range(3)] + [Z(np.eye(D)[i].astype(complex)) for i in range(D)])
               for f in sorted(set(list(range(min(F, 4))) + [F // 2, F - 1]))]
        return [dict(kind='pca', scaling=case['scaling'] or 'none', items=its, exc=exc,
                     fp=fp + f';scaling={case["scaling"]};structure={st}', key=f'pca:{case["seed"]}')]
    if t == 'rank1':
        phin = pd(rng, F, D, 1e2)
        a, sigma, r1true = _rank1(rng, F, D)
        phi = r1true if case['exact'] else r1true + pd(rng, F, D, 1e2) * 0.3
        if case.get('layout') == 'F':
            phi, phin = flay(phi), flay(phin)
        kw = {} if not case.get('scaling') else dict(scaling=case['scaling'])
        if case['seed'] % 2:
            # block-online use: the SAME array objects held other statistics during an earlier call and were updated in place
            bufx, bufn = phi + pd(rng, F, D, 1e2), phin * 3.0 + pd(rng, F, D, 1e2)
            (_call(bw.get_pca_rank_one_estimate, bufx, **kw) if case['which'] == 'pca' else _call(bw.get_gev_rank_one_estimate, bufx, bufn))
            bufx[...] = phi
            bufn[...] = phin
            phi, phin = bufx, bufn
        if case['which'] == 'pca':
            r1, exc = _call(bw.get_pca_rank_one_estimate, phi, **kw)
        else:
            r1, exc = _call(bw.get_gev_rank_one_estimate, phi, phin)
        its = [dict(phi=Z(phi[f]), r1=[] if r1 is None else Z(r1[f]), a=Z(a[f]) if case['exact'] else [])
               for f in range(min(F, 4))]
        return [dict(kind='rank1', items=its, exc=exc,
                     fp=fp + f';{case["which"]};exact={case["exact"]};scaling={case.get("scaling")};layout={case.get("layout")}',
                     key=f'rank1:{case["seed"]}')]
    if t == 'ban_wrapper':
        phin = pd(rng, F, D, min(case['cond'], 1e4))
        phix = pd(rng, F, D, 1e2)
        name = case['name']
        kw = dict(use_eig=case['use_eig']) if name.endswith('gev+ban') else {}
        if name.startswith('rank1_gev') and case['use_eig']:
            kw['atf_kwargs'] = dict(use_eig=True)
        out, exc = _call(bw.get_bf_vector, name, phix, phin, **kw)
        w, e2 = _call(bw.get_bf_vector, name[:-len('+ban')], phix, phin, **kw)
        its = [] if (out is None or w is None) else [dict(phin=Z(phin[f]), w=Z(w[f]), out=Z(out[f])) for f in range(min(F, 6))]
        return [dict(kind='ban', items=its, exc=exc or e2, fp=fp + f';wrapper;name={name};use_eig={case["use_eig"]}',
                     key=f'banw:{case["seed"]}')]
    if t == 'ban':
        phin = pd(rng, F, D, min(case['cond'], 1e4)) * case['nscale']
        w = cvec(rng, F, D) * case['gain']
        if case.get('real_vector'):
            # a real-dtype beamforming vector (a one-hot 'ch<k>' selector, a real probe) with a genuinely complex Hermitian noise PSD
            w = (np.eye(D)[rng.integers(D, size=F)] if case['real_vector'] == 'onehot' else rng.normal(size=(F, D))) * case['gain']
            fp += f';real_vector={case["real_vector"]}'
        out, exc = _call(bf.blind_analytic_normalization, w, phin)
        its = [dict(phin=Z(phin[f]), w=Z(w[f]), out=[] if out is None else Z(out[f])) for f in range(min(F, 6))]
        recs = [dict(kind='ban', items=its, exc=exc, fp=fp, key=f'ban:{case["seed"]}')]
        # magnitude independence: BAN(c w) = BAN(w) up to the phase of c (c real positive here)
        out2, exc2 = _call(bf.blind_analytic_normalization, w * 1e3, phin)
        if out is not None and out2 is not None:
            recs.append(dict(kind='pair', what='ban_magnitude', exc='',
                             items=[dict(w1=Z(out[f]), w2=Z(out2[f])) for f in range(min(F, 6))],
                             fp=fp + ';magnitude', key=f'banm:{case["seed"]}'))
        return recs
    if t == 'apply':
        T = case['T']
        lead = [[], [2], [2, 2], [1], [2, 1]][case['lead']]
        w = cvec(rng, *lead, F, D)
        x = cvec(rng, *lead, F, D, T)
        out, exc = _call(bf.apply_beamforming_vector, w, x)
        shape = [] if out is None else [int(v) for v in np.shape(out)]
        w2, x2 = w.reshape(-1, D), x.reshape(-1, D, T)
        o2 = None if out is None else out.reshape(-1, T)
        its = [dict(w=Z(w2[i]), x=Z(x2[i]), out=[] if o2 is None else Z(o2[i])) for i in range(min(len(w2), 6))]
        return [dict(kind='apply', items=its, exc=exc, shape=shape, expect_shape=[*lead, F, T], fp=fp + f';lead={lead};T={T}',
                     key=f'apply:{case["seed"]}')]
    if t == 'phase':
        lead = [[], [2], [3, 2], [1, 3]][case['lead']]
        Fp = max(F, 3)
        w = cvec(rng, *lead, Fp, D)
        if case['zero']:
            w[..., 1, :] = 0
        d0 = enc.digest(w)
        w.setflags(write=False)
        out, exc = _call(bf.phase_correction, w)
        if enc.digest(w) != d0:
            exc = 'InputMutated'
        w2 = w.reshape(-1, Fp, D)
        o2 = None if out is None else np.asarray(out).reshape(-1, Fp, D)
        Fs = min(Fp, 8)
        its = [dict(w=Z(w2[i][:Fs]), out=[] if o2 is None else Z(o2[i][:Fs])) for i in range(min(len(w2), 4))]
        return [dict(kind='phase', items=its, exc=exc, fp=fp + f';lead={len(lead)};zero={case["zero"]}',
                     key=f'phase:{case["seed"]}')]
    if t == 'stackeq':
        L = case['L']
        fn = case['fn']
        phin = pd(rng, L * F, D, min(case['cond'], 1e4)).reshape(L, F, D, D)
        phix = pd(rng, L * F, D, 1e2).reshape(L, F, D, D)
        a = cvec(rng, L, F, D)
        w0 = cvec(rng, L, F, D)
        if case['seed'] % 2 and L > 1:
            # the stacked problems come from recordings at very different levels (int16-scaled next to a quiet float one)
            lv = 10.0 ** rng.choice([-9, 9, -12, 0], size=L)
            lv[0], lv[-1] = 1e9, 1e-9
            phin = phin * lv[:, None, None, None]
            phix = phix * lv[:, None, None, None]
            fp += ';levels'
        f = {'souden': lambda i: bf.get_mvdr_vector_souden(phix[i], phin[i], ref_channel=1),
             'souden_auto': lambda i: bf.get_mvdr_vector_souden(phix[i], phin[i]),
             'wmwf': lambda i: bf.get_wmwf_vector(phix[i], phin[i], reference_channel=0),
             'wmwf_fd': lambda i: bf.get_wmwf_vector(phix[i], phin[i], reference_channel=1, distortion_weight='frequency_dependent'),
             'wmwf_mu': lambda i: bf.get_wmwf_vector(phix[i], phin[i], reference_channel=1, distortion_weight=7.5),
             'gev': lambda i: bf.get_gev_vector(phix[i], phin[i]),
             'pca': lambda i: bf.get_pca_vector(phix[i]),
             'ban': lambda i: bf.blind_analytic_normalization(w0[i], phin[i]),
             'mvdr': lambda i: bf.get_mvdr_vector(a[i], phin[i])}[fn]
        sl = slice(None)
        if fn == 'souden_auto':
            # the automatic reference channel needs exactly (F, D, D): stack = the F axis itself;
            # per-bin results are compared with explicit calls using the jointly chosen channel
            res, exc = _call(bf.get_mvdr_vector_souden, phix[0], phin[0], return_ref_channel=True)
            if res is None:
                return [dict(kind='pair', what='stack', items=[], exc=exc, fp=fp + f';{fn}', key=f'st:{case["seed"]}')]
            stacked, ch = res
            singles = np.stack([bf.get_mvdr_vector_souden(phix[0, i:i + 1], phin[0, i:i + 1], ref_channel=int(ch))[0]
                                for i in range(F)])
            its = [dict(w1=Z(stacked[i]), w2=Z(singles[i])) for i in range(min(F, 8))]
            return [dict(kind='pair', what='stack', items=its, exc='', fp=fp + f';{fn}', key=f'st:{case["seed"]}')]
        g = {'souden': lambda: bf.get_mvdr_vector_souden(phix, phin, ref_channel=1),
             'wmwf': lambda: bf.get_wmwf_vector(phix, phin, reference_channel=0),
             'wmwf_fd': lambda: bf.get_wmwf_vector(phix, phin, reference_channel=1, distortion_weight='frequency_dependent'),
             'wmwf_mu': lambda: bf.get_wmwf_vector(phix, phin, reference_channel=1, distortion_weight=7.5),
             'gev': lambda: bf.get_gev_vector(phix, phin),
             'pca': lambda: bf.get_pca_vector(phix),
             'ban': lambda: bf.blind_analytic_normalization(w0, phin),
             'mvdr': lambda: bf.get_mvdr_vector(a, phin[0])}[fn]
        stacked, exc = _call(g)
        if fn == 'mvdr':
            singles, e2 = _call(lambda: np.stack([bf.get_mvdr_vector(a[i], phin[0]) for i in range(L)]))
        else:
            singles, e2 = _call(lambda: np.stack([f(i) for i in range(L)]))
        exc = exc and ('stack_raises:' + exc)
        if e2:
            exc = ''      # the per-slice calls fail as well: not a stacking issue (reported elsewhere)
            stacked = None
        its = []
        if stacked is not None and singles is not None:
            s2, g2 = stacked.reshape(-1, D), singles.reshape(-1, D)
            if fn in ('gev', 'pca'):
                # eigenvectors are defined up to a unit phase: compare after fixing the phase on
                # the first component of the per-slice result
                ph = np.exp(1j * (np.angle(g2[:, :1]) - np.angle(s2[:, :1])))
                s2 = s2 * ph
            its = [dict(w1=Z(s2[i]), w2=Z(g2[i])) for i in range(min(len(s2), 8))]
        return [dict(kind='pair', what='stack', items=its, exc=exc or '', fp=fp + f';{fn}', key=f'st:{case["seed"]}')]
    if t == 'singular':
        Fs = max(F, 3)
        phin = pd(rng, Fs, D, 1e2)
        a, sigma, phix = _rank1(rng, Fs, D)
        bad = sorted(set(int(b) for b in rng.choice(Fs, size=max(1, Fs // 3), replace=False)))
        pn, px = phin.copy(), phix.copy()
        if case['seed'] % 2:
            # a regular but very quiet bin next to the singular ones (joint scaling leaves the result unchanged)
            quiet = [f for f in range(Fs) if f not in bad]
            if quiet:
                pn[quiet[0]] *= 1e-18
                px[quiet[0]] *= 1e-18
        for b in bad:
            if case['kind'] in ('zero', 'both'):
                pn[b] = 0
                px[b] = 0
            else:
                v = cvec(rng, D)
                pn[b] = np.outer(v, v.conj())
        dt = case.get('dt') or ['cc', 'cc', 'rc', 'cr', 'ss'][(case['seed'] // 2) % 5]       # dtypes of (target, noise): complex / real / single
        if dt[0] == 'r':
            # real-dtype target PSD (real symmetric rank-one target), complex noise PSD
            ar = rng.normal(size=(Fs, D))
            px = sigma[:, None, None] * np.einsum('fd,fe->fde', ar, ar)
            for b in bad:
                if case['kind'] in ('zero', 'both'):
                    px[b] = 0
        if dt[1] == 'r':
            pn = np.ascontiguousarray(pn.real) + 0.0
        if dt == 'ss':           # single-precision complex PSDs (only finiteness is claimed at float32 resolution)
            px, pn = px.astype(np.complex64), pn.astype(np.complex64)
        call = (lambda P, N: bf.get_mvdr_vector_souden(P, N, ref_channel=0)) if case['fn'] == 'souden' else \
               (lambda P, N: bf.get_wmwf_vector(P, N, reference_channel=0))
        w, exc = _call(call, px, pn)
        recs = [dict(kind='finite', items=[] if w is None else [dict(w=Z(w[f])) for f in range(Fs)], exc=exc,
                     fp=fp + f';{case["fn"]};{case["kind"]};dtypes={dt}', key=f'sing:{case["seed"]}')]
        good = [f for f in range(Fs) if f not in bad]
        if w is not None and good and dt != 'ss':
            alone = np.stack([call(px[f:f + 1], pn[f:f + 1])[0] for f in good])
            recs.append(dict(kind='pair', what='regular_bins_unaffected', exc='',
                             items=[dict(w1=Z(w[f]), w2=Z(alone[i])) for i, f in enumerate(good)][:8],
                             fp=fp + f';{case["fn"]};neighbours;dtypes={dt}', key=f'singn:{case["seed"]}'))
        return recs
    if t == 'singular_all':
        phin = pd(rng, F, D, 1e2)
        a, sigma, phix = _rank1(rng, F, D)
        if case['which'] in ('target', 'both'):
            phix = phix * 0
        if case['which'] in ('noise', 'both'):
            phin = phin * 0
        if case['name'] == 'direct':
            w, exc = _call(bf.get_wmwf_vector, phix, phin)
        else:
            w, exc = _call(bw.get_bf_vector, case['name'], phix, phin)
        return [dict(kind='finite', items=[] if w is None else [dict(w=Z(w[f])) for f in range(F)], exc=exc,
                     fp=fp + f';wmwf;all_bins_{case["which"]}_zero;auto_ref;name={case["name"]}', key=f'singall:{case["seed"]}')]
    if t == 'name':
        return [_name(case, rng)]
    raise ValueError(t)


def _compose(p, phix, phin, kw):
    """Evaluate the pipeline of primitives prescribed by BfName.tla."""
    atf_kwargs = kw.pop('atf_kwargs', {})
    if p['pre'] == 'rank1_pca':
        phix = bw.get_pca_rank_one_estimate(phix, **atf_kwargs)
    elif p['pre'] == 'rank1_gev':
        phix = bw.get_gev_rank_one_estimate(phix, phin, **atf_kwargs)
    m = p['main']
    if m == 'pca':
        w = bf.get_pca_vector(phix, **kw)
    elif m == 'mvdr':
        if p['pre'] == 'atf_pca':
            atf = bf.get_pca_vector(phix, **atf_kwargs)
        else:
            atf = np.einsum('...dD,...D->...d', phin, bf.get_gev_vector(phix, phin, **atf_kwargs))
        w = bf.get_mvdr_vector(atf, phin)
    elif m == 'mvdr_souden':
        w = bf.get_mvdr_vector_souden(phix, phin, **kw)
    elif m == 'gev':
        w = bf.get_gev_vector(phix, phin, **kw)
    elif m == 'wmwf':
        w = bf.get_wmwf_vector(phix, phin, **kw)
    elif m == 'ch':
        w = np.zeros(phix.shape[-1])
        w[p['ch']] = 1
        w = np.broadcast_to(w, phix.shape[:-1])
    else:
        raise ValueError(m)
    if p['ban']:
        w = bf.blind_analytic_normalization(w, phin)
    return w


def _name(case, rng):
    F, D = case['F'], max(case['D'], 3)
    p = case['pipeline']
    if p['main'] == 'ch' and p['ch'] >= D:
        D = p['ch'] + 1
    phin = pd(rng, F, D, 1e2)
    phix = pd(rng, F, D, 1e2)
    kw = {}
    if case.get('refch') is not None and p['ok']:
        if p['main'] == 'mvdr_souden':
            kw['ref_channel'] = case['refch']
        if p['main'] == 'wmwf':
            kw['reference_channel'] = case['refch']
    if p['ok'] and p['main'] == 'gev' and (case['seed'] // 2) % 2:
        kw['use_eig'] = True             # general (non-Hermitian) eigen-solver: unit-2-norm eigenvectors
    if p['ok'] and p['pre'] == 'rank1_pca' and case.get('refch') == 1:
        kw['atf_kwargs'] = dict(scaling='trace')
    if p['ok'] and p['main'] == 'mvdr' and p['pre'] == 'atf_pca' and case.get('refch') is not None:
        kw['atf_kwargs'] = dict(scaling=['trace', 'eigenvalue'][case['refch'] % 2])      # MVDR depends on the complex scale of the ATF
    if p['ok'] and p['main'] == 'mvdr' and p['pre'] not in ('atf_pca', 'none') and not p['pre'].startswith('rank1') and case.get('refch') == 1:
        kw['atf_kwargs'] = dict(use_eig=True)
    if case['seed'] % 2:
        phix, phin = flay(phix), flay(phin)
    if case['seed'] % 3 == 0 and p['ok']:
        # block-online use: the same PSD buffers held other statistics during an earlier call of the same beamformer
        bx, bn = phix + pd(rng, F, D, 1e2), phin * 2.0 + pd(rng, F, D, 1e2)
        _call(bw.get_bf_vector, case['name'], bx, bn, **dict(kw))
        bx[...] = phix
        bn[...] = phin
        phix, phin = bx, bn
    direct, e1 = _call(bw.get_bf_vector, case['name'], phix, phin, **dict(kw))
    composed, e2 = (None, '')
    if p['ok']:
        composed, e2 = _call(_compose, dict(p), phix, phin, dict(kw))
    extra = {}
    if p['ok'] and p['pre'] == 'atf_scaled_gev' and direct is not None and composed is not None and np.shape(direct) == np.shape(composed):
        d2, c2 = np.reshape(direct, (-1, np.shape(direct)[-1])), np.reshape(composed, (-1, np.shape(composed)[-1]))
        extra = dict(wd=[Z(x) for x in d2[:6]], wc=[Z(x) for x in c2[:6]])
    return dict(kind='name', name=case['name'], pipeline=p, exc_direct=e1, exc_composed=e2, **extra,
                d_direct='' if direct is None else enc.digest(np.ascontiguousarray(direct).astype(complex)),
                d_composed='' if composed is None else enc.digest(np.ascontiguousarray(composed).astype(complex)),
                exc='', fp=f't=name;name={case["name"]};kw={sorted(kw)}', key=f'name:{case["name"]}:{case["seed"]}')
