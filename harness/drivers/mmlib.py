"""Uniform access to the seven mixture models of pb_bss (driver side, no decisions)."""
import numpy as np

from harness import enc

import pb_bss.distribution as pd
from pb_bss.distribution.cacgmm import CACGMM, CACGMMTrainer
from pb_bss.distribution.cwmm import CWMM, CWMMTrainer
from pb_bss.distribution.cbmm import CBMM, CBMMTrainer
from pb_bss.distribution.gmm import GMM, GMMTrainer
from pb_bss.distribution.vmfmm import VMFMM, VMFMMTrainer
from pb_bss.distribution.gcacgmm import GCACGMM, GCACGMMTrainer
from pb_bss.distribution.vmfcacgmm import VMFCACGMM, VMFCACGMMTrainer

KINDS = ['cacgmm', 'cwmm', 'cbmm', 'gmm', 'vmfmm', 'gcacgmm', 'vmfcacgmm']
INTEGRATION = ('gcacgmm', 'vmfcacgmm')
COMPLEX = ('cacgmm', 'cwmm', 'cbmm')


def call(fn, *a, **kw):
    try:
        with np.errstate(all='ignore'):
            return fn(*a, **kw), ''
    except Exception as e:
        return None, type(e).__name__


def unit(x):
    n = np.linalg.norm(x, axis=-1, keepdims=True)
    return x / np.maximum(n, np.finfo(n.dtype).tiny)


def flat(a, f=enc.flt):
    a = np.asarray(a)
    return dict(shape=[int(s) for s in a.shape], data=[f(x) for x in a.ravel().tolist()])


def flatz(a):
    a = np.asarray(a).astype(np.complex128)
    return dict(shape=[int(s) for s in a.shape], data=[enc.zflt(x) for x in a.ravel().tolist()])


def flatb(a):
    a = np.asarray(a)
    return dict(shape=[int(s) for s in a.shape], data=[bool(x) for x in a.ravel().tolist()])


def flati(a):
    a = np.asarray(a)
    return dict(shape=[int(s) for s in a.shape], data=[int(x) for x in a.ravel().tolist()])


def flatr(a, **kw):
    a = np.asarray(a, dtype=float)
    return dict(shape=[int(s) for s in a.shape], data=[enc.rat(x, **kw) for x in a.ravel().tolist()])


# ---------------------------------------------------------------------------
def make_data(rng, kind, L, K, D, N, regime='regular', E=None, dtype='float64'):
    """Observations for a model kind.  Returns dict(y=..., emb=...) ; y has shape (*L, N, D)."""
    E = E or D
    shape = (*L, N, D)
    real = kind in ('gmm', 'vmfmm')

    def draw(shape):
        if real:
            return rng.normal(size=shape)
        return rng.normal(size=shape) + 1j * rng.normal(size=shape)
    y = draw(shape)
    if regime in ('separable', 'scaled', 'degenerate'):
        proto = draw((*L, K, D)) * (1 if not real else 3)
        lab = rng.integers(0, K, size=(*L, N))
        lab[..., :K] = np.arange(K)
        y = np.zeros(shape, dtype=y.dtype)
        for k in range(K):
            y = np.where((lab == k)[..., None], proto[..., k, None, :], y)
        y = y + 0.05 * draw(shape)
    if regime == 'scaled':
        dec = 150 if dtype != 'float32' else 15       # single precision cannot represent 1e+-150
        y = y * 10.0 ** rng.uniform(-dec, dec, size=(*L, N, 1))
    if regime == 'degenerate':
        y = y.copy()
        y[..., 0, :] = 0                       # zero frame
        if N > 2:
            y[..., 2, :] = y[..., 1, :]        # duplicated frame
        if N > 4:
            y[..., 4, :] = 2.5 * y[..., 3, :]  # collinear frame
    if dtype == 'float32':
        y = y.astype(np.complex64 if np.iscomplexobj(y) else np.float32)
    out = dict(y=y)
    if kind in INTEGRATION:
        if len(L) != 1:
            raise ValueError('integration models need exactly one leading axis')
        emb = rng.normal(size=(*L, N, E))
        lab = rng.integers(0, K, size=(*L, N))
        cent = rng.normal(size=(K, E)) * 2
        emb = cent[lab] + 0.3 * emb
        if kind == 'vmfcacgmm':
            emb = unit(emb)
        out['emb'] = emb
    return out


def make_init(rng, L, K, N, style='soft', lead_singleton=False):
    Ls = tuple(1 for _ in L) if lead_singleton else tuple(L)
    if style == 'hard':
        lab = rng.integers(0, K, size=(*Ls, N))
        lab[..., :K] = np.arange(K)
        a = np.moveaxis(np.eye(K)[lab], -1, -2)
    else:
        a = rng.uniform(0.05, 1.0, size=(*Ls, K, N))
        a = a / a.sum(-2, keepdims=True)
    return np.ascontiguousarray(a)


def trainer_for(kind, **kw):
    return dict(cacgmm=CACGMMTrainer, cwmm=CWMMTrainer, cbmm=CBMMTrainer, gmm=GMMTrainer, vmfmm=VMFMMTrainer,
                gcacgmm=GCACGMMTrainer, vmfcacgmm=VMFCACGMMTrainer)[kind](**kw)


def fit(kind, data, init, iterations, opts=None, trainer=None, predict=False):
    opts = dict(opts or {})
    tr = trainer or trainer_for(kind)
    name = 'fit_predict' if predict else 'fit'
    f = getattr(tr, name)
    if kind in INTEGRATION:
        return f(data['y'], data['emb'], initialization=init, iterations=iterations, **opts)
    return f(data['y'], initialization=init, iterations=iterations, **opts)


def predict(kind, model, data, **kw):
    if kind in INTEGRATION:
        return model.predict(data['y'], data['emb'])
    return model.predict(data['y'], **kw)


def component_log_pdf(kind, model, data):
    """log p_k(y_n) from the model's OWN distribution objects, shape (*L, K, N)."""
    y = data['y']
    if kind == 'cacgmm':
        return model.cacg.log_pdf(y[..., None, :, :])
    if kind == 'cwmm':
        return model.complex_watson.log_pdf(unit(y)[..., None, :, :])
    if kind == 'cbmm':
        return model.complex_bingham.log_pdf(unit(y)[..., None, :, :])
    if kind == 'gmm':
        return model.gaussian.log_pdf(y[..., None, :, :])
    if kind == 'vmfmm':
        return model.vmf.log_pdf(unit(y)[..., None, :, :])
    F, T, D = y.shape
    emb = data['emb']
    E = emb.shape[-1]
    cacg_lp = model.cacg.log_pdf(y[..., None, :, :])            # (F, K, T)
    if kind == 'gcacgmm':
        lp = model.gaussian.log_pdf(np.reshape(emb, (1, F * T, E)))
    else:
        lp = model.vmf.log_pdf(np.reshape(unit(emb), (1, F * T, E)))
    K = lp.shape[0]
    lp = np.transpose(np.reshape(lp, (K, F, T)), (1, 0, 2))
    return model.spatial_weight * cacg_lp + model.spectral_weight * lp


def weight_record_fields(kind, model, wca):
    w = np.asarray(model.weight, dtype=float)
    wca_int = isinstance(wca, int)
    wl = [wca] if wca_int else [int(a) for a in wca]
    return dict(w=flat(w), wca=wl, wca_int=wca_int, integration=kind in INTEGRATION)


def posterior_record(kind, model, data, aff, *, wca, sam=None, eps=0.0, exc='', fp='', key='', full=None,
                     explicit=False, cols=None):
    """Record for Trace_MM 'posterior': Bayes rule with the model's own log_pdf and weights."""
    rec = dict(kind='posterior', exc=exc, exc_explicit=bool(explicit), fp=fp, key=key)
    if exc:
        rec.update(full=full or [], aff=dict(shape=[], data=[]), lik=dict(shape=[], data=[]),
                   w=dict(shape=[], data=[]), has_sam=False, sam=dict(shape=[], data=[]), eps=enc.flt(0.0),
                   wca=[-1], wca_int=False, integration=False)
        return rec
    lp, e2 = call(component_log_pdf, kind, model, data)
    if lp is None:
        rec.update(exc='component_log_pdf:' + e2, exc_explicit=False)
        return posterior_record(kind, model, data, aff, wca=wca, exc=rec['exc'], fp=fp, key=key, full=full)
    with np.errstate(all='ignore'):
        lik = np.exp(lp - np.max(lp, axis=-2, keepdims=True))
    if cols is not None and aff is not None and np.shape(aff) == np.shape(lik) and np.shape(model.weight)[-1] == 1:
        # very long inputs: Bayes' rule is checked observation by observation, a fixed subset of the columns is recorded
        aff, lik = np.asarray(aff)[..., cols], lik[..., cols]
        sam = None if sam is None else np.asarray(sam)[..., cols]
        full = [*full[:-1], len(cols)] if full else None
    rec.update(full=full or [int(s) for s in lp.shape], aff=flat(aff), lik=flat(lik),
               has_sam=sam is not None, sam=flatb(sam) if sam is not None else dict(shape=[], data=[]),
               eps=enc.flt(eps), **weight_record_fields(kind, model, wca))
    return rec


# ---------------------------------------------------------------------------
# canonical (phase-invariant) fields of a model for the relations of Model.tla
def _field(name, a, cplx=None):
    a = np.asarray(a)
    if cplx is None:
        cplx = np.iscomplexobj(a)
    return dict(name=name, t=flatz(a) if cplx else flat(a.real if np.iscomplexobj(a) else a), cplx=bool(cplx))


def _cov_from_eig(U, lam):
    return np.einsum('...ae,...e,...be->...ab', U, lam, np.conj(U))


def dist_fields(obj):
    """canonical fields of a single distribution object"""
    n = type(obj).__name__
    if n == 'ComplexAngularCentralGaussian':
        return [_field('cacg_covariance', _cov_from_eig(obj.covariance_eigenvectors, obj.covariance_eigenvalues), True),
                _field('cacg_eigenvalues', np.sort(obj.covariance_eigenvalues, axis=-1))]
    if n == 'ComplexWatson':
        return [_field('watson_mode_outer', np.einsum('...a,...b->...ab', obj.mode, np.conj(obj.mode)), True),
                _field('watson_concentration', obj.concentration)]
    if n == 'ComplexBingham':
        return [_field('bingham_covariance', _cov_from_eig(obj.covariance_eigenvectors, obj.covariance_eigenvalues), True),
                _field('bingham_eigenvalues', np.sort(obj.covariance_eigenvalues, axis=-1))]
    if n == 'Gaussian':
        return [_field('gaussian_mean', obj.mean), _field('gaussian_covariance_full', obj.covariance)]
    if n == 'DiagonalGaussian':
        return [_field('gaussian_mean', obj.mean), _field('gaussian_covariance_diagonal', obj.covariance)]
    if n == 'SphericalGaussian':
        return [_field('gaussian_mean', obj.mean), _field('gaussian_covariance_spherical', obj.covariance)]
    if n == 'VonMisesFisher':
        return [_field('vmf_mean', obj.mean), _field('vmf_concentration', obj.concentration)]
    if n == 'ComplexCircularSymmetricGaussian':
        return [_field('gaussian_covariance_full', obj.covariance, True)]
    raise ValueError(n)


def ulp_perturb(rng, x):
    """x with every entry moved by one unit in the last place (relative 2^-52), for measuring rounding amplification"""
    x = np.asarray(x)
    f = 1.0 + 2.0 ** -52 * rng.choice([-1.0, 1.0], size=x.shape)
    return x * f


def amp_of(arrs_a, arrs_b):
    return [float(np.max(np.abs(np.asarray(x) - np.asarray(y)))) if np.size(x) and np.shape(x) == np.shape(y) else 0.0
            for x, y in zip(arrs_a, arrs_b)]


def model_arrays(kind, model, posterior=None, with_weight=True):
    """the same canonical fields as raw double arrays (for the fine residuals)"""
    out = []
    if with_weight:
        out.append(np.asarray(model.weight, dtype=float))
    for attr in ('cacg', 'complex_watson', 'complex_bingham', 'gaussian', 'vmf'):
        if attr in getattr(model, '__dataclass_fields__', {}):
            out.extend(dist_arrays(getattr(model, attr)))
    if posterior is not None:
        out.append(np.asarray(posterior))
    return out


def dist_arrays(obj):
    n = type(obj).__name__
    if n in ('ComplexAngularCentralGaussian', 'ComplexBingham'):
        return [_cov_from_eig(obj.covariance_eigenvectors, obj.covariance_eigenvalues), np.sort(obj.covariance_eigenvalues, axis=-1)]
    if n == 'ComplexWatson':
        return [np.einsum('...a,...b->...ab', obj.mode, np.conj(obj.mode)), np.asarray(obj.concentration)]
    if n in ('Gaussian', 'DiagonalGaussian', 'SphericalGaussian'):
        return [np.asarray(obj.mean), np.asarray(obj.covariance)]
    if n == 'VonMisesFisher':
        return [np.asarray(obj.mean), np.asarray(obj.concentration)]
    if n == 'ComplexCircularSymmetricGaussian':
        return [np.asarray(obj.covariance)]
    raise ValueError(n)


def model_fields(kind, model, posterior=None, with_weight=True):
    out = []
    if with_weight:
        out.append(_field('weight', np.asarray(model.weight, dtype=float)))
    for attr in ('cacg', 'complex_watson', 'complex_bingham', 'gaussian', 'vmf'):
        if attr in getattr(model, '__dataclass_fields__', {}):
            out.extend(dist_fields(getattr(model, attr)))
    if posterior is not None:
        out.append(_field('posterior', posterior))
    return out


CLASS_AX = dict(posterior=-2, weight=-2, cacg_covariance=-3, cacg_eigenvalues=-2, watson_mode_outer=-3, watson_concentration=-1,
                bingham_covariance=-3, bingham_eigenvalues=-2, gaussian_mean=-2, gaussian_covariance_full=-3,
                gaussian_covariance_diagonal=-2, gaussian_covariance_spherical=-1, vmf_mean=-2, vmf_concentration=-1, log_pdf=-2,
                log_likelihood=0)


def _unflat(f):
    d = f['t']['data']
    if f['cplx']:
        a = np.array([enc.unflt(x[0]) + 1j * enc.unflt(x[1]) for x in d])
    else:
        a = np.array([enc.unflt(x) for x in d])
    return a.reshape(f['t']['shape'])


def twin_record(rel, A, B, *, kind, wca=(-1,), pi=None, lead=None, slack=256, exc='', exc_clause='raises', fp='', key='',
                fine=0, raw=None, amp=None):
    """fine < 0: also log the double-precision residual B - A o Map (raw = (list of A arrays, list of B arrays) by field
    order); TLC checks it is consistent with the Flt difference and bounded by 2^fine (|a|+|b|+floor)."""
    wl = [wca] if isinstance(wca, int) else [int(a) for a in wca]
    rec = dict(kind='twin', rel=rel, A=A or [], B=B or [], pi=pi or [], lead=lead or [], slack=int(slack), fine=int(fine), R=[],
               integration=kind in INTEGRATION, wca=wl, exc=exc, exc_clause=exc_clause, fp=fp, key=key,
               amp=[] if not amp else [enc.flt(float(x)) for x in amp])
    if fine < 0 and A and B and raw is not None and rel in ('same', 'perm', 'slice'):
        R = []
        for fa, a, b in zip(A, raw[0], raw[1]):
            a = np.asarray(a)
            b = np.asarray(b)
            if rel == 'slice':
                try:
                    a = a[tuple(lead or [])] if a.ndim == b.ndim + len(lead or []) else a
                except IndexError:
                    a = np.zeros(0)                 # a stacked field without this leading index: left to the shape clauses
                if a.shape != b.shape:
                    R = []
                    rec['fine'] = 0
                    break
            if rel == 'perm':
                cax = CLASS_AX[fa['name']]
                if fa['name'] == 'weight' and kind in INTEGRATION:
                    axes = sorted(x % 3 for x in wl)
                    cax = 0 if 1 in axes else (-1 if 2 in axes else -2)
                if cax != 0 and a.ndim >= -cax and a.shape[cax] > 1:
                    a = np.take(a, pi, axis=cax)
            R.append(_field(fa['name'], b - a, fa['cplx']))
        rec['R'] = R if rec['fine'] < 0 else []
    return rec
