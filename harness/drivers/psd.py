"""Driver for get_power_spectral_density_matrix / condition_covariance (C10)."""
import itertools

import numpy as np

from harness import enc

from pb_bss.extraction import beamformer as bf


def _call(fn, *a, **kw):
    try:
        return fn(*a, **kw), ''
    except Exception as e:
        return None, type(e).__name__


def layouts(max_lead):
    """Every (n, sd, td, mtype, kd) with 0..max_lead leading axes; axes 0-based positions."""
    out = []
    for nl in range(0, max_lead + 1):
        n = nl + 2
        for sd, td in itertools.permutations(range(n), 2):
            out.append(dict(n=n, sd=sd, td=td, mtype='none', kd=0))
            if td == n - 1:
                out.append(dict(n=n, sd=sd, td=td, mtype='plain', kd=0))
            for kd in range(n):
                if kd != td:
                    out.append(dict(n=n, sd=sd, td=td, mtype='source', kd=kd))
    return out


def cases(tier, seed, args):
    rng = np.random.default_rng(seed + 10)
    q = tier == 'quick'
    out = []
    # every layout, small sizes, several value draws / option combinations
    reps = 2 if q else 8
    for lay in layouts(2 if q else 3):
        for rep in range(reps):
            nl = lay['n'] - 2
            c = dict(t='psd', **lay, lead=[int(rng.integers(1, 3)) for _ in range(nl)],
                     D=int(rng.integers(1, 4)), T=int(rng.integers(1, 4)), K=int(rng.integers(1, 3)),
                     normalize=bool(rng.integers(2)), seed=int(rng.integers(1 << 30)),
                     neg=bool(rng.integers(2)), mkind=['int', 'bool', 'zero', 'scaled'][int(rng.integers(4))])
            out.append(c)
    # larger lattice records
    n = 40 if q else 400
    lays = layouts(3)
    for i in range(n):
        lay = lays[int(rng.integers(len(lays)))]
        nl = lay['n'] - 2
        out.append(dict(t='psd', **lay, lead=[int(rng.integers(1, 4)) for _ in range(nl)],
                        D=int(rng.integers(1, 9)), T=int(rng.integers(1, 33 if q else 65)),
                        K=int(rng.integers(1, 6)), normalize=bool(i % 3), seed=int(rng.integers(1 << 30)),
                        neg=bool(rng.integers(2)), mkind=['int', 'bool', 'zero', 'scaled'][i % 4]))
    # constant masks (all ones as floats / booleans, all twos): a unit-weight mask is not the same as no mask when
    # normalize=False
    plain = [l_ for l_ in lays if l_['mtype'] == 'plain'] + [l_ for l_ in lays if l_['mtype'] == 'source']
    for i in range(12 if q else 48):
        lay = plain[int(rng.integers(len(plain)))] if i % 4 == 3 else [l_ for l_ in plain if l_['mtype'] == 'plain'][i % 3]
        nl = lay['n'] - 2
        out.append(dict(t='psd', **lay, lead=[int(rng.integers(1, 3)) for _ in range(nl)], D=int(rng.integers(1, 4)), T=int(rng.integers(2, 7)),
                        K=int(rng.integers(1, 4)), normalize=bool(i % 2), seed=int(rng.integers(1 << 30)), neg=bool(rng.integers(2)),
                        mkind=['ones', 'ones_bool', 'const2'][(i // 2) % 3]))
    # condition_covariance
    n = 40 if q else 300
    for i in range(n):
        nl = int(rng.integers(0, 4))
        out.append(dict(t='cond', lead=[int(rng.integers(1, 8)) for _ in range(nl)], D=int(rng.integers(1, 9)),
                        gamma=[int(rng.integers(0, 6)), int(rng.choice([1, 2, 4, 5, 10, 100]))],
                        seed=int(rng.integers(1 << 30))))
    return out


def _cint(rng, shape, hi=3):
    return rng.integers(-hi, hi + 1, size=shape) + 1j * rng.integers(-hi, hi + 1, size=shape)


def _place(canon, n, special):
    """canon has axes (lead..., a, b); move a, b to positions special=(pa, pb) of an n-axis layout."""
    pa, pb = special
    src = list(range(n))
    lead_pos = [i for i in range(n) if i not in (pa, pb)]
    dest = lead_pos + [pa, pb]
    return np.moveaxis(canon, src, dest)


def _psd(case):
    rng = np.random.default_rng(case['seed'])
    n, sd, td, kd = case['n'], case['sd'], case['td'], case['kd']
    lead, D, T, K = case['lead'], case['D'], case['T'], case['K']
    xc = _cint(rng, lead + [D, T])
    obs = np.ascontiguousarray(_place(xc, n, (sd, td)))
    mtype = case['mtype']
    mk = case['mkind']
    mask = None
    mint = None
    scale = 1.0
    if mtype != 'none':
        shape = lead + ([T] if mtype == 'plain' else [K, T])
        mint = rng.integers(0, 4, size=shape)
        if mk == 'bool':
            mint = (mint > 1).astype(int)
        if mk in ('ones', 'ones_bool', 'const2'):
            mint = np.full(shape, 2 if mk == 'const2' else 1)
        if mk == 'zero':
            mint[..., :] = np.where(rng.random(shape[:-1])[..., None] < 0.5, 0, mint)
        mc = mint.astype(bool) if mk in ('bool', 'ones_bool') else mint.astype(float)
        if mk == 'scaled' and case['normalize']:
            scale = float(rng.choice([0.5, 0.25, 8.0, 1e-3, 1e3, 0.1]))
            mc = mc * scale
        if mtype == 'source':
            mask = np.ascontiguousarray(_place(mc, n, (kd, td)))
            mint = _place(mint, n, (kd, td))
        else:
            mask = np.ascontiguousarray(mc)
    neg = case['neg']
    dims = dict(sensor_dim=sd - n if neg else sd, time_dim=td - n if neg else td)
    if mtype == 'source':
        dims['source_dim'] = kd - n if neg else kd
    omitted = []
    if case['seed'] % 2:
        # arguments equal to their documented defaults are left out of the call (sensor_dim=-2, source_dim=-2, time_dim=-1)
        for name, ax, dflt in (('sensor_dim', sd, n - 2), ('source_dim', kd if mtype == 'source' else None, n - 2), ('time_dim', td, n - 1)):
            if ax is not None and ax == dflt and name in dims:
                del dims[name]
                omitted.append(name)
    d_obs, d_mask = enc.digest(obs), (enc.digest(mask) if mask is not None else '')
    obs.setflags(write=False)
    if mask is not None:
        mask.setflags(write=False)
    out, exc = _call(bf.get_power_spectral_density_matrix, obs, mask, normalize=case['normalize'], **dims)
    pure = enc.digest(obs) == d_obs and (mask is None or enc.digest(mask) == d_mask)
    rec = dict(kind='psd', n=n, oshape=enc.shape(obs), obs=enc.acint(obs), sd=dims.get('sensor_dim', -2),
               td=dims.get('time_dim', -1), kd=dims.get('source_dim', -2), mtype=mtype,
               mshape=[] if mask is None else enc.shape(mask),
               mask=[] if mint is None else enc.aint(mint), normalize=case['normalize'], exc=exc, pure=bool(pure),
               out_shape=[] if out is None else enc.shape(out),
               out=[] if out is None else enc.acrat(out),
               fp=f'fn=get_power_spectral_density_matrix;mtype={mtype};mask={mk};layout=n{n}sd{sd}td{td}kd{kd};omitted={omitted}',
               key=f'psd:{case["seed"]}')
    return [rec]


def _cond(case):
    rng = np.random.default_rng(case['seed'])
    lead, D = case['lead'], case['D']
    a = _cint(rng, lead + [D, D], hi=2)
    if case['seed'] % 5 == 0:
        a = a * 0                                  # the zero matrix (empty mask) maps to the zero matrix
    phi = a @ np.conj(np.swapaxes(a, -1, -2))
    g = case['gamma']
    # the operation is homogeneous of degree one: the call sees 2^sexp * phi (exact scaling), the record the lattice matrix
    sexp = [0, -60, 40, -90][case['seed'] % 4]
    arg = phi * 2.0 ** sexp
    d0 = enc.digest(arg)
    arg.setflags(write=False)
    out, exc = _call(bf.condition_covariance, arg, g[0] / g[1])
    if enc.digest(arg) != d0:
        exc = 'InputMutated'
    if out is not None:
        out = out * 2.0 ** -sexp
    return [dict(kind='cond', shape=enc.shape(phi), phi=enc.acint(phi), gamma=g, exc=exc,
                 pure=True, out_shape=[] if out is None else enc.shape(out),
                 out=[] if out is None else enc.acrat(out, max_den=1 << 14),
                 fp=f'fn=condition_covariance;sexp={sexp}', key=f'cond:{case["seed"]}')]


def run_case(case):
    if case['t'] == 'psd':
        return _psd(case)
    return _cond(case)
