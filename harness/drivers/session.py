"""Driver for C20: purity (arguments untouched), reproducibility, history-freedom of trainers, split fits."""
import numpy as np

from harness import enc
from harness.drivers import mmlib as ml
from harness.drivers.mmlib import call

import pb_bss.distribution as pd
from pb_bss.distribution.complex_watson import ComplexWatsonTrainer
from pb_bss.distribution.complex_bingham import ComplexBinghamTrainer
from pb_bss.distribution.cacgmm import CACGMMTrainer
from pb_bss.distribution.complex_angular_central_gaussian import ComplexAngularCentralGaussian
from pb_bss.extraction import beamformer as bf
from pb_bss.extraction import beamformer_wrapper as bw
from pb_bss.extraction import mask_module as mm_
from pb_bss import permutation_alignment as pa
from pb_bss.evaluation import sxr_module, module_si_sdr
from pb_bss.distribution import mixture_model_utils as mmu
import pb_bss.initializer as pinit


def _digest_obj(o):
    """digest of a result object (arrays, models, tuples, dicts) by bytes"""
    import hashlib
    h = hashlib.sha1()

    def walk(x):
        if x is None:
            h.update(b'N')
        elif isinstance(x, np.ndarray):
            h.update(str(x.dtype).encode() + str(x.shape).encode() + np.ascontiguousarray(x).tobytes())
        elif isinstance(x, (tuple, list)):
            h.update(b'T')
            for y in x:
                walk(y)
        elif isinstance(x, dict):
            for k in sorted(x):
                h.update(str(k).encode())
                walk(x[k])
        elif hasattr(x, '__dataclass_fields__'):
            for k in x.__dataclass_fields__:
                h.update(k.encode())
                walk(getattr(x, k))
        else:
            walk(np.asarray(x))
    walk(o)
    return h.hexdigest()[:16]


# ---------------------------------------------------------------------------
# behaviours of Session.tla
def _mk_trainer(kind, dim, maxc):
    d = None if dim == 0 else dim
    if maxc == 0:
        # model value 0: the constructor's own default (unbounded for the Bingham trainers)
        cls = dict(watson=ComplexWatsonTrainer, cwmm=pd.CWMMTrainer, bingham=ComplexBinghamTrainer, cbmm=pd.CBMMTrainer).get(kind)
        if cls is not None:
            return cls(dimension=d)
    if kind == 'watson':
        return ComplexWatsonTrainer(dimension=d, max_concentration=maxc)
    if kind == 'cwmm':
        return pd.CWMMTrainer(dimension=d, max_concentration=maxc)
    if kind == 'bingham':
        return ComplexBinghamTrainer(dimension=d, max_concentration=maxc)
    if kind == 'cbmm':
        return pd.CBMMTrainer(dimension=d, max_concentration=maxc)
    if kind == 'cacgmm':
        return CACGMMTrainer()
    if kind == 'vmfmm':
        return pd.VMFMMTrainer()
    raise ValueError(kind)


def _fit_args(kind, D, data):
    rng = np.random.default_rng(1000 * D + data)
    N, K = 14, 2
    if kind == 'vmfmm':
        y = rng.normal(size=(N, D))
    else:
        proto = rng.normal(size=(K, D)) + 1j * rng.normal(size=(K, D))
        lab = np.arange(N) % K
        y = proto[lab] * (1 + 0.02 * data) + 0.03 * (rng.normal(size=(N, D)) + 1j * rng.normal(size=(N, D)))
    init = ml.make_init(rng, [], K, N)
    return y, init


def _do_fit(trainer, kind, y, init):
    if kind in ('watson', 'bingham'):
        return trainer.fit(y)
    return trainer.fit(y, initialization=init, iterations=2)


def _behaviour(case):
    recs = [dict(kind='reset', trid=0)]
    trainers = {}
    bufs = {}           # block-online use: every trainer is fed from ONE observation buffer per shape, refilled in place
    for op in case['hist']:
        if op['op'] == 'new':
            t, exc = call(_mk_trainer, op['kind'], op['dim'], op['maxc'])
            trainers[op['id']] = (t, op['kind'], op['maxc'])
            recs.append(dict(kind='new', trid=op['id'], tkind=op['kind'], dim=op['dim'], maxc=op['maxc'], exc=exc))
        else:
            t, kind, maxc = trainers[op['id']]
            y, init = _fit_args(kind, op['D'], op['data'])
            bk = (op['id'], y.shape, str(y.dtype))
            if bk in bufs:
                bufs[bk][...] = y
                y = bufs[bk]
            else:
                bufs[bk] = y
            model, exc = call(_do_fit, t, kind, y, init)
            fresh, e2 = call(_do_fit, _mk_trainer(kind, 0, maxc), kind, y, init)
            dim_after = getattr(t, 'dimension', 0) or 0
            recs.append(dict(kind='fit', trid=op['id'], D=op['D'], data=op['data'], accepted=model is not None, exc=exc,
                             dim_after=int(dim_after), d=_digest_obj(model) if model is not None else '',
                             d_fresh=_digest_obj(fresh) if fresh is not None else 'fresh-failed:' + e2,
                             argdigest=f'{kind}:{op["D"]}:{maxc if kind in ("watson", "cwmm", "bingham", "cbmm") else 0}:{op["data"]}'))
    for r in recs:
        r['fp'] = f't=behaviour;{r["kind"]};{r.get("tkind", "")}'
        r['tid'] = case['bid']
        if r['kind'] == 'fit':
            r['d_proc'] = ''
    return recs


def _ref(case):
    """Reference evaluation in THIS (fresh) interpreter process: every distinct fit key once, fresh trainer each, in the
    order given (the orchestrator passes the reverse of the order in which the replayed behaviours met them)."""
    out = {}
    for key in case['keys']:
        kind, D, maxc, data = key.split(':')
        y, init = _fit_args(kind, int(D), int(data))
        m, e = call(_do_fit, _mk_trainer(kind, 0, float(maxc)), kind, y, init)
        out[key] = _digest_obj(m) if m is not None else 'failed:' + e
    return [dict(kind='ref', digests=out, fp='t=ref', exc='')]


# ---------------------------------------------------------------------------
# registry of public entry points (read-only arguments)
def _c(rng, *s):
    return rng.normal(size=s) + 1j * rng.normal(size=s)


def _pd(rng, F, D):
    a = _c(rng, F, D, D)
    return a @ np.conj(np.swapaxes(a, -1, -2)) + np.eye(D)


def _aff(rng, *s):
    a = rng.uniform(0.1, 1, size=s)
    return a / a.sum(-2, keepdims=True)


def registry():
    R = {}

    def reg(name, make, fn, seeded=False):
        R[name] = (make, fn, seeded)
    F, D, T, K = 5, 3, 12, 2
    # beamforming
    reg('psd', lambda r: [_c(r, F, D, T), r.random((F, K, T))], lambda x, m: bf.get_power_spectral_density_matrix(x, m))
    reg('psd_plain_mask', lambda r: [_c(r, F, D, T), r.random((F, T))], lambda x, m: bf.get_power_spectral_density_matrix(x, m))
    reg('psd_nomask', lambda r: [_c(r, F, D, T)], lambda x: bf.get_power_spectral_density_matrix(x))
    reg('condition_covariance', lambda r: [_pd(r, F, D)], lambda p: bf.condition_covariance(p, 0.1))
    reg('pca_vector', lambda r: [_pd(r, F, D)], lambda p: bf.get_pca_vector(p))
    reg('mvdr', lambda r: [_c(r, F, D), _pd(r, F, D)], lambda a, p: bf.get_mvdr_vector(a, p))
    reg('gev', lambda r: [_pd(r, F, D), _pd(r, F, D)], lambda x, n: bf.get_gev_vector(x, n))
    reg('lcmv', lambda r: [_c(r, K, F, D), np.array([1.0, 0.0]), _pd(r, F, D)], lambda a, q, p: bf.get_lcmv_vector(a, q, p))
    reg('ban', lambda r: [_c(r, F, D), _pd(r, F, D)], lambda w, p: bf.blind_analytic_normalization(w, p))

    def _zero_dc(r, nf):
        p = _pd(r, nf, D)
        p[0] = 0                      # a silent DC bin: the normalisation is 0 / 0 there and defined as 0
        return [_c(r, nf, D), p]
    # whole spectra (257 / 513 / 1025 bins) with a silent DC bin; wrapper names with '+ban' as well
    for nf in (257, 513, 1025, 100):
        reg(f'ban:zero_dc:{nf}', (lambda nf: lambda r: _zero_dc(r, nf))(nf), lambda w, p: bf.blind_analytic_normalization(w, p))
    reg('phase_correction', lambda r: [_c(r, F, D)], lambda w: bf.phase_correction(w))
    reg('apply_bf', lambda r: [_c(r, F, D), _c(r, F, D, T)], lambda w, x: bf.apply_beamforming_vector(w, x))
    reg('souden', lambda r: [_pd(r, F, D), _pd(r, F, D)], lambda x, n: bf.get_mvdr_vector_souden(x, n))
    reg('wmwf', lambda r: [_pd(r, F, D), _pd(r, F, D)], lambda x, n: bf.get_wmwf_vector(x, n))
    for nm in ('mvdr_souden+ban', 'rank1_gev+mvdr_souden', 'rank1_pca+gev', 'pca+mvdr', 'scaled_gev_atf+mvdr', 'wmwf', 'gev+ban'):
        reg('bf:' + nm, lambda r: [_pd(r, F, D), _pd(r, F, D)], (lambda nm: lambda x, n: bw.get_bf_vector(nm, x, n))(nm))
    # masks
    for nm in ('ideal_binary_mask', 'wiener_like_mask', 'ideal_ratio_mask', 'ideal_amplitude_mask', 'phase_sensitive_mask',
               'ideal_complex_mask'):
        reg('mask:' + nm, lambda r: [_c(r, K, F, T)], (lambda nm: lambda s: getattr(mm_, nm)(s))(nm))
    reg('mask:lorenz', lambda r: [_c(r, F, T)], lambda s: mm_.lorenz_mask(s))
    reg('mask:quantile', lambda r: [_c(r, F, T)], lambda s: mm_.quantile_mask(s, quantile=0.3))
    # alignment
    reg('pa:apply_mapping', lambda r: [r.random((3, 5, 4)), pa.sample_random_mapping(3, 5, np.random.RandomState(1))],
        lambda m, mp: pa.apply_mapping(m, mp))
    for metric in ('cos', 'euclidean', 'multiply'):
        reg('pa:dhtv:' + metric, lambda r: [r.random((3, 9, 6))],
            (lambda metric: lambda m: pa.DHTVPermutationAlignment(stft_size=16, segment_start=2, segment_width=4, segment_shift=1,
                                                                    main_iterations=3, sub_iterations=2, similarity_metric=metric)(m))(metric))
        reg('pa:greedy:' + metric, lambda r: [r.random((3, 9, 6))],
            (lambda metric: lambda m: pa.GreedyPermutationAlignment(similarity_metric=metric)(m))(metric))
        reg('pa:oracle:' + metric, lambda r: [r.random((3, 9, 6)), r.random((3, 9, 6))],
            (lambda metric: lambda m, q: pa.OraclePermutationAlignment(similarity_metric=metric)(m, q))(metric))
    reg('pa:score', lambda r: [r.random((3, 3))], lambda s: pa._mapping_from_score_matrix(s, 'greedy'))
    # metrics
    reg('si_sdr', lambda r: [r.normal(size=(2, 40)), r.normal(size=(2, 40))], lambda a, b: module_si_sdr.si_sdr(a, b))
    reg('input_sxr', lambda r: [r.normal(size=(2, 3, 40)), r.normal(size=(3, 40))], lambda a, b: tuple(sxr_module.input_sxr(a, b)))
    reg('output_sxr', lambda r: [r.normal(size=(2, 3, 40)), r.normal(size=(3, 40))], lambda a, b: tuple(sxr_module.output_sxr(a, b)))
    reg('get_snr', lambda r: [r.normal(size=(3, 40)), r.normal(size=(3, 40))], lambda a, b: sxr_module.get_snr(a, b))
    reg('set_snr_copy', lambda r: [r.normal(size=(3, 40)), r.normal(size=(3, 40))], lambda a, b: sxr_module.set_snr(a, b, 10.0, inplace=False))
    # the current SNR handed over as an array (0-d, or one value per channel as get_snr(..., keepdims=True) returns it)
    reg('set_snr_current0', lambda r: [r.normal(size=(3, 40)), r.normal(size=(3, 40)), np.array(3.5)],
        lambda a, b, c: sxr_module.set_snr(a, b, 10.0, current_snr=c, inplace=False))
    reg('set_snr_current1', lambda r: [r.normal(size=(3, 40)), r.normal(size=(3, 40)), r.normal(size=(3, 1))],
        lambda a, b, c: sxr_module.set_snr(a, b, 10.0, current_snr=c, inplace=False))
    # mixture models and distributions
    reg('log_pdf_to_affiliation', lambda r: [_aff(r, K, 1), r.normal(size=(K, T))], lambda w, lp: mmu.log_pdf_to_affiliation(w, lp))
    reg('estimate_mixture_weight', lambda r: [_aff(r, F, K, T), r.random((F, T))], lambda a, s: mmu.estimate_mixture_weight(a, s))
    reg('cacg.from_covariance:trace', lambda r: [_pd(r, F, D)],
        lambda c: ComplexAngularCentralGaussian.from_covariance(c, covariance_norm='trace'))
    reg('cacg.from_covariance:eigenvalue', lambda r: [_pd(r, F, D)],
        lambda c: ComplexAngularCentralGaussian.from_covariance(c))
    for kind in ml.KINDS:
        def mk(kind):
            def make(r):
                L = [3]
                d = ml.make_data(r, kind, L, K, D, T, regime='separable')
                a = [d['y']] + ([d['emb']] if 'emb' in d else []) + [ml.make_init(r, L, K, T), r.uniform(0.5, 1.5, size=(3, T))]
                return a

            def fn(*a):
                y, init, sal = a[0], a[-2], a[-1]
                data = dict(y=y)
                if len(a) == 4:
                    data['emb'] = a[1]
                m = ml.fit(kind, data, init, 2, dict(saliency=sal))
                return (m, ml.predict(kind, m, data))
            return make, fn
        make, fn = mk(kind)
        reg('fit+predict:' + kind, make, fn)
        reg('fit:num_classes:' + kind,
            (lambda kind: lambda r: [v for v in ml.make_data(r, kind, [3], K, D, T).values()])(kind),
            (lambda kind: lambda *a: getattr(ml.trainer_for(kind), 'fit')(*a, num_classes=2, iterations=2))(kind), seeded=True)
    # distribution objects evaluated repeatedly (tied / ascending / descending parameters): evaluation never changes the object
    from pb_bss.distribution.complex_bingham import ComplexBingham
    from pb_bss.distribution.gaussian import Gaussian, DiagonalGaussian, SphericalGaussian
    from pb_bss.distribution.complex_watson import ComplexWatson
    from pb_bss.distribution.von_mises_fisher import VonMisesFisher
    def _uz(r, *s_):
        z = _c(r, *s_)
        return z / np.linalg.norm(z, axis=-1, keepdims=True)
    for nm, lam in (('tied_asc', [-7.0, -7.0, -2.0, 0.0]), ('asc', [-9.0, -4.0, -1.0, 0.0]), ('desc', [0.0, -1.0, -4.0, -9.0]), ('tied_top', [-5.0, 0.0, 0.0])):
        reg('eval2:bingham:' + nm, (lambda lam: lambda r: [np.linalg.qr(_c(r, len(lam), len(lam)))[0], np.array(lam), _uz(r, 6, len(lam))])(lam),
            _eval_twice(lambda U, l, y: (ComplexBingham(covariance_eigenvectors=U, covariance_eigenvalues=l), y)))
    reg('eval2:gauss_spherical', lambda r: [r.normal(size=(3, 2)), r.uniform(0.5, 2, size=3), r.normal(size=(3, 5, 2))],
        _eval_twice(lambda m, c, y: (SphericalGaussian(mean=m, covariance=c), y)))
    reg('eval2:gauss_diagonal', lambda r: [r.normal(size=(3, 2)), r.uniform(0.5, 2, size=(3, 2)), r.normal(size=(3, 5, 2))],
        _eval_twice(lambda m, c, y: (DiagonalGaussian(mean=m, covariance=c), y)))
    reg('eval2:gauss_full', lambda r: [r.normal(size=(3, 2)), _pd(r, 3, 2).real, r.normal(size=(3, 5, 2))],
        _eval_twice(lambda m, c, y: (Gaussian(mean=m, covariance=c), y)))
    reg('eval2:watson', lambda r: [_uz(r, 3, 4), r.uniform(1, 50, size=3), _uz(r, 3, 5, 4)],
        _eval_twice(lambda m, c, y: (ComplexWatson(mode=m, concentration=c), y)))
    reg('eval2:vmf', lambda r: [(lambda v: v / np.linalg.norm(v, axis=-1, keepdims=True))(r.normal(size=(3, 4))), r.uniform(1, 50, size=3), r.normal(size=(3, 5, 4))],
        _eval_twice(lambda m, c, y: (VonMisesFisher(mean=m, concentration=c), y)))
    # helpers that return arrays built from scalars only
    reg('mask:voiced_unvoiced', lambda r: [], lambda: mm_.voiced_unvoiced_split_characteristic(65))
    reg('mask:biased_binary', lambda r: [np.abs(_c(r, 2, 4, 65)) * 3], lambda s: mm_.biased_binary_mask(s, low_cut=2, high_cut=60))
    for nm in ('uniform_normalized', 'dirichlet', 'one_hot'):
        reg('init:' + nm, lambda r: [np.zeros((2, 6, 3))], (lambda nm: lambda y: getattr(pinit.iid, nm)(y, 3))(nm), seeded=True)
    reg('init:flag', lambda r: [np.zeros((2, 6, 3))], lambda y: pinit.deterministic.flag(y, 3, permutation_free=True, minimum=0.1))
    return R


REG = None


class ModelMutated(Exception):
    pass


def _scribble(o, depth=0):
    """overwrite every writeable ndarray reachable from a result object (tuples, lists, dicts, dataclasses)"""
    import dataclasses
    if depth > 3:
        return
    if isinstance(o, np.ndarray):
        if o.flags.writeable and o.size:
            try:
                o[...] = o * 0.25 + 1 if o.dtype.kind in 'fc' else o
            except Exception:
                pass
    elif isinstance(o, (tuple, list)):
        for x in o:
            _scribble(x, depth + 1)
    elif isinstance(o, dict):
        for x in o.values():
            _scribble(x, depth + 1)
    elif dataclasses.is_dataclass(o):
        for f in dataclasses.fields(o):
            _scribble(getattr(o, f.name, None), depth + 1)


def _eval_twice(build):
    """build a distribution object from read-only parameters, evaluate it twice: the object must stay as it was"""
    import copy
    def fn(*a):
        obj, y = build(*a)
        snap = _digest_obj(copy.deepcopy(obj))
        l1 = obj.log_pdf(y)
        if _digest_obj(obj) != snap:
            raise ModelMutated()
        l2 = obj.log_pdf(y)
        if _digest_obj(obj) != snap or _digest_obj(l1) != _digest_obj(l2):
            raise ModelMutated()
        return l1
    return fn


def _call_case(case):
    global REG
    if REG is None:
        REG = registry()
    make, fn, seeded = REG[case['name']]
    rng = np.random.default_rng(case['seed'])
    args = make(rng)
    lay = case.get('layout', 'C')
    if lay != 'C':
        args = [(np.asfortranarray(a) if lay == 'F' else np.ascontiguousarray(a.swapaxes(-1, -2)).swapaxes(-1, -2))
                if isinstance(a, np.ndarray) and a.ndim >= 2 else a for a in args]
    arrs = [a for a in args if isinstance(a, np.ndarray)]
    before = [enc.digest(a) for a in arrs]
    for a in arrs:
        a.setflags(write=False)
    outs = []
    exc = ''
    for rep in range(2):
        np.random.seed(case['seed'] % (1 << 31))
        try:
            with np.errstate(all='ignore'):
                res = fn(*args)
                outs.append(_digest_obj(res))
                # the result belongs to the caller: scribbling over it must not influence the next call
                _scribble(res)
        except ValueError as e:
            exc = 'ReadOnlyValueError' if 'read-only' in str(e) or 'readonly' in str(e) else 'ValueError'
            break
        except Exception as e:
            exc = type(e).__name__
            break
    after = [enc.digest(a) for a in arrs]
    return [dict(kind='call', fn=case['name'], seed=case['seed'] if seeded else 0,
                 argdigest='|'.join(before), args_same=before == after, exc=exc,
                 exc_expected=exc in ('AssertionError', 'ValueError', 'LinAlgError'),
                 d1=outs[0] if outs else '', d2=outs[1] if len(outs) > 1 else '', nargs=len(arrs),
                 fp=f't=call;fn={case["name"]};layout={lay}')]


# ---------------------------------------------------------------------------
def _split(case):
    """a cACGMM fit of n iterations equals any split into consecutive fits continued from the returned model"""
    rng = np.random.default_rng(case['seed'])
    L, K, D, N = case['L'], case['K'], case['D'], case['N']
    data = ml.make_data(rng, 'cacgmm', L, K, D, N, regime='regular')
    if case.get('regime') == 'rank1':
        # well separated rank-one sources plus a little noise: the posteriors saturate at the clipping constant
        a = rng.normal(size=(*L, K, D)) + 1j * rng.normal(size=(*L, K, D))
        lab = rng.integers(0, K, size=(*L, N))
        src = np.stack([a[ix][lab[ix]] for ix in np.ndindex(*L)]).reshape(*L, N, D) if L else a[lab]
        data['y'] = src * (rng.normal(size=(*L, N, 1)) + 1j * rng.normal(size=(*L, N, 1))) + \
            case.get('noise', 1e-3) * (rng.normal(size=(*L, N, D)) + 1j * rng.normal(size=(*L, N, D)))
    init = ml.make_init(rng, L, K, N)
    opts = dict(weight_constant_axis=tuple(case['wca']))
    if case['sam']:
        sam = rng.random((*L, K, N)) < 0.8
        sam[..., 0] = True
        opts['source_activity_mask'] = sam
    if case['aligner']:
        opts['inline_permutation_aligner'] = pa.GreedyPermutationAlignment(similarity_metric='cos')
        opts['weight_constant_axis'] = (-3,)
    if case['saliency']:
        opts['saliency'] = rng.uniform(0.5, 2, size=(*L, N))
    tr = CACGMMTrainer()
    whole, e1 = call(tr.fit, data['y'], initialization=init, iterations=sum(case['parts']), **opts)
    cur = init
    e2 = ''
    mutated = False
    for p in case['parts']:
        before = _digest_obj(cur)
        prev = cur
        cur, e2 = call(tr.fit, data['y'], initialization=cur, iterations=p, **opts)
        # the initialisation (array or model object) is an input: it must come back unchanged
        if _digest_obj(prev) != before:
            mutated = True
        if cur is None:
            break
    if mutated:
        return [ml.twin_record('same', None, None, kind='cacgmm', exc='InputMutated', exc_clause='initialization_untouched',
                               fp=f't=split;parts={case["parts"]};sam={case["sam"]};aligner={case["aligner"]}', key=f'split:{case["seed"]}')]
    fp = f't=split;parts={case["parts"]};sam={case["sam"]};aligner={case["aligner"]}'
    if whole is None or cur is None:
        return [ml.twin_record('same', None, None, kind='cacgmm', exc=e1 or e2, fp=fp, key=f'split:{case["seed"]}')]
    A = ml.model_fields('cacgmm', whole)
    B = ml.model_fields('cacgmm', cur)
    # the split run performs the same arithmetic: fine residuals, widened only by the measured rounding amplification of the
    # uninterrupted run (initialisation moved by one ulp)
    raw = (ml.model_arrays('cacgmm', whole), ml.model_arrays('cacgmm', cur))
    wp, _ = call(CACGMMTrainer().fit, data['y'], initialization=ml.ulp_perturb(rng, init), iterations=sum(case['parts']), **opts)
    amp = None if wp is None else ml.amp_of(raw[0], ml.model_arrays('cacgmm', wp))
    return [ml.twin_record('same', A, B, kind='cacgmm', wca=opts['weight_constant_axis'], slack=64, fp=fp + f';regime={case.get("regime")}',
                           key=f'split:{case["seed"]}', fine=-26 if amp is not None else 0, raw=raw, amp=amp)]


def cases(tier, seed, args):
    rng = np.random.default_rng(seed + 20)
    q = tier == 'quick'
    what = args.get('what')
    out = []
    if what == 'calls':
        global REG
        REG = REG or registry()
        for name in REG:
            for rep in range(3 if q else 6):
                # memory layout of the caller's arrays: C order, Fortran order, Fortran-contiguous trailing 2-D slices
                out.append(dict(t='call', name=name, seed=int(rng.integers(1 << 30)), layout=['C', 'F', 'slice'][rep % 3]))
    if what == 'splits':
        for i in range(16 if q else 160):
            n = int(rng.integers(2, 9 if q else 21))
            cuts = sorted(set(int(c) for c in rng.integers(1, n, size=int(rng.integers(1, 4)))))
            parts = [b - a for a, b in zip([0] + cuts, cuts + [n])]
            nlead = int(rng.integers(0, 2))
            al = bool(i % 4 == 3)
            out.append(dict(t='split', parts=parts, L=[5] if al else [int(rng.integers(2, 4))] * nlead, K=int(rng.integers(2, 4)),
                            D=int(rng.integers(2, 5)), N=int(rng.integers(12, 24)), seed=int(rng.integers(1 << 30)),
                            wca=[-1], sam=bool(i % 2), aligner=al, saliency=bool(i % 3 == 0)))
        # saturated posteriors (clipped at affiliation_eps in consecutive E-steps) and longer budgets
        for i in range(6 if q else 36):
            parts = [[4, 4, 4], [3, 9], [10, 2], [6, 6], [2, 2, 2, 2, 2, 2], [1, 11]][i % 6]
            out.append(dict(t='split', parts=parts, L=[2] if i % 2 else [], K=2, D=6, N=int(rng.integers(20, 30)), seed=int(rng.integers(1 << 30)),
                            wca=[-1], sam=False, aligner=False, saliency=False, regime='rank1', noise=[1e-3, 1e-2][(i // 6) % 2]))
    return out


def run_case(case):
    if case['t'] == 'behaviour':
        return _behaviour(case)
    if case['t'] == 'ref':
        return _ref(case)
    if case['t'] == 'call':
        return _call_case(case)
    if case['t'] == 'split':
        return _split(case)
    raise ValueError(case['t'])
