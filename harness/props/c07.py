"""C07 log_pdf is the logarithm of the named, normalised density."""
import math

from .. import core, enc


def kernels(recs):
    """Evaluate the scalar kernels with math / mpmath (independent of pb_bss and SciPy)."""
    import mpmath
    mpmath.mp.dps = 50
    for r in recs:
        r['ln2pi'] = enc.flt(math.log(2 * math.pi))
        r['lnpi'] = enc.flt(math.log(math.pi))
        out = []
        for k in r.get('kern', []):
            a = k['arg_f']
            fn = k['fn']
            if fn == 'ln':
                v = math.log(a) if a > 0 else float('nan')
            elif fn == 'watson_lognorm':
                D = k['D']
                v = float(mpmath.log(2 * mpmath.pi ** D / mpmath.factorial(D - 1) * mpmath.hyp1f1(1, D, a)))
            elif fn == 'vmf_lognorm':
                D = k['D']
                v = float((mpmath.mpf(D) / 2) * mpmath.log(2 * mpmath.pi) + mpmath.log(mpmath.besseli(mpmath.mpf(D) / 2 - 1, a))
                          - (mpmath.mpf(D) / 2 - 1) * mpmath.log(a))
            elif fn == 'bingham_arg':
                v = 0.0
            elif fn == 'bingham_lognorm':
                lam = [mpmath.mpf(x) for x in k['args_f']]
                D = k['D']
                tot = mpmath.mpf(0)
                for j in range(D):
                    den = mpmath.mpf(1)
                    for i in range(D):
                        if i != j:
                            den *= (lam[j] - lam[i])
                    tot += mpmath.exp(lam[j]) / den
                v = float(mpmath.log(2 * mpmath.pi ** D * tot))
            else:
                raise core.MachineryError(fn)
            out.append(dict(fn=fn, idx=k['idx'], arg=enc.flt(a), val=enc.flt(v)))
        r['kern'] = out
    return recs


def run(chk):
    chk.rule = ('parameter lattices of all eight distribution objects (D 1..8, non-diagonal covariances with condition up to '
                '1e8, concentrations 1e-6..500, Bingham eigenvalue sets with gaps >= 1e-3, 0..2 leading axes, scaled '
                'evaluation points): TLC evaluates the closed-form log density (Cholesky / triangular-solve certificates '
                'verified, quadratic forms, sums) with math/mpmath kernels whose arguments it checks, and compares with '
                'log_pdf at each leading index. non-trivial = non-diagonal covariance / kappa > 1 / distinct eigenvalues')
    recs = core.run_driver('density', tier=chk.tier, seed=chk.seed)
    recs = kernels(recs)
    chk.validate('density', 'Trace_Density', 'Trace_Density.cfg', recs, driver='density', jobs=14)
    goods = [r for r in recs if r['exc'] == '' and r['dist'] == 'cacg']
    good = goods[0] if goods else None

    def corrupt(r):
        r['lp'] = [r['lp'][0], r['lp'][1] + 1]
        return r
    core.binding_demo(chk, 'bind-value', 'Trace_Density', 'Trace_Density.cfg', good, corrupt, 'value', candidates=goods[1:])
    chk.assumptions = ['normalising constants are kernels evaluated by mpmath (50 digits) from the textbook formulas (Mardia & '
                       'Jupp; Kent 1994 for the complex Bingham); that these closed forms integrate to one is not decided here',
                       'Cholesky factors / triangular solves computed by NumPy in the driver and verified by TLC']


def replay(path):
    return core.replay_generic(path)
