"""C19 SI-SDR and invasive SXR metrics obey their defining identities."""
from .. import core


def run(chk):
    q = chk.tier == 'quick'
    chk.rule = ('M: all K=2 x 2-output x 2-sample integer scenes: SDR <= min(SIR, SNR), selection maximises captured '
                'power, output-order invariance, image scaling law; V: integer signals (T 8..4096, K 1..4, 1..5 '
                'outputs/sensors) with float gains 1e-6..1e6 on images and noise: TLC recomputes powers, selection '
                'and linear ratios and compares with the inverted dB values (Flt), 1/SDR = 1/SIR + 1/SNR on the '
                'returned values, set_snr/get_snr round trip, result containers. non-trivial = K>=2, noise non-zero, '
                'non-identity output selection')
    chk.mc('sxr-definitions', 'MC_Metrics', 'MC_Metrics.cfg' if q else 'MC_Metrics_t.cfg', workers=8, timeout=3000)
    recs = core.run_driver('metrics', tier=chk.tier, seed=chk.seed)
    chk.validate('metrics', 'Trace_Metrics', 'Trace_Metrics.cfg', recs, driver='metrics', jobs=14)
    goods = [r for r in recs if r['kind'] == 'output' and r['exc'] == '' and not r['avg_src'] and len(r['images']) >= 2]
    good = goods[0] if goods else None

    def corrupt(r):
        r['out']['sir'][0][0][0] += 4096
        return r
    core.binding_demo(chk, 'bind-sir', 'Trace_Metrics', 'Trace_Metrics.cfg', good, corrupt, 'sir', candidates=goods[1:])
    chk.assumptions = ['dB values are inverted by the encoder (10^(x/10)); comparisons in 20-bit Flt (about 1e-5 relative)',
                       'output selections with exactly tied captured power are not compared (tie_skipped)']


def replay(path):
    return core.replay_generic(path)
