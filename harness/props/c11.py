"""C11 MVDR, LCMV and Wiener beamformers satisfy their constraints and optimality."""
from .. import core


def run(chk, prop='C11'):
    chk.rule = {
        'C11': 'random Hermitian PD noise PSDs (condition 1..1e6, D 2..8, single / broadcast / stacked bins and sources), '
               'rank-one targets: TLC evaluates w^H a = 1, Phi w = mu a (mu real > 0), probe optimality, LCMV '
               'constraints, Souden and WMWF defining equations, WMWF(0) = Souden, scale invariances, first arg-max of '
               'the reference-channel criterion. non-trivial = non-diagonal noise PSD',
        'C12': 'random PSD pairs: GEV / PCA eigen-relation with lambda = Rayleigh(w), maximality against coordinate, '
               'random and other-beamformer probes, scaling options, rank-one estimates (Hermitian, 2x2 minors, trace, '
               'direction), BAN gain relation and magnitude independence. non-trivial = non-diagonal PSD',
    }[prop]
    if prop == 'C11':
        chk.mc('mvdr-lattice-D2', 'MC_Mvdr', 'MC_Mvdr.cfg', workers=8)
    recs = core.run_driver('beam', tier=chk.tier, seed=chk.seed, args=dict(prop=prop))
    chk.validate('beam', 'Trace_Beam', 'Trace_Beam.cfg', recs, driver='beam', jobs=14)
    kind = 'souden' if prop == 'C11' else 'gev'
    goods = [r for r in recs if r['kind'] == kind and r['exc'] == '' and r['items']]
    good = goods[0] if goods else None

    def corrupt(r):
        w = r['items'][0]['w']
        w[0], w[1] = w[1], w[0]
        return r
    core.binding_demo(chk, 'bind-' + kind, 'Trace_Beam', 'Trace_Beam.cfg', good, corrupt,
                      'souden' if prop == 'C11' else 'eigen', candidates=goods[1:])
    chk.assumptions = ['relations are evaluated in 20-bit Flt with slack 96*2^-19 of the scale of the terms (~2e-4); '
                       'deviations below that (e.g. the complex64 cast in get_lcmv_vector) are invisible',
                       'MVDR optimality over ALL distortionless vectors follows from the KKT relation for positive '
                       'definite Phi (mathematical fact, not re-proved by TLC); probes are checked in addition']


def replay(path):
    return core.replay_generic(path)
