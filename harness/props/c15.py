"""C15 Oracle alignment is optimal and undoes any per-frequency permutation."""
import os

from .. import core
from .c14 import assign_cases_from_states, BUILD

COMBOS = [['multiply', 'optimal'], ['euclidean', 'greedy'], ['multiply', 'greedy'], ['euclidean', 'optimal']]


def run(chk):
    q = chk.tier == 'quick'
    chk.rule = ('M: all K x K score matrices over small grids (optimal = max over all permutations = lsa optimum '
                '>= greedy) and all references with distinct rows x all K!^F permutation fields (oracle inverts); '
                'G: the same spaces enumerated and replayed into _mapping_from_score_matrix / '
                'OraclePermutationAlignment, decided by TLC; V: float matrices (exact Fraction gaps), float '
                'references K<=6, global permutation on flattened axes. non-trivial = mapping differs from identity')
    if q:
        chk.mc('assign-K2', 'MC_Assignment', 'MC_Assignment_K2.cfg', workers=4)
        r = chk.mc('oracle-K3F1T2', 'MC_Oracle', 'MC_Oracle_q.cfg', workers=8)
        states, _ = core.tlc_dump_states('MC_Assignment', 'MC_Assignment_K3.cfg',
                                         cache=os.path.join(BUILD, 'assign_k3.states.json'))
        states = states[3::7]
        ocfgs = [dict(prop='oraclex', K=3, NF=1, T=2, vals=[0, 1, 2], combos=COMBOS, stride=3)]
        expect = None
    else:
        states, res = core.tlc_dump_states('MC_Assignment', 'MC_Assignment_K3.cfg', workers=8)
        chk.states += res.distinct
        chk.transitions += res.states
        s4, res4 = core.tlc_dump_states('MC_Assignment', 'MC_Assignment_K4.cfg', workers=8)
        chk.states += res4.distinct
        chk.transitions += res4.states
        states += s4
        r = chk.mc('oracle-K3F1T2', 'MC_Oracle', 'MC_Oracle_q.cfg', workers=8)
        r2 = chk.mc('oracle-K2F3T2', 'MC_Oracle', 'MC_Oracle_t.cfg', workers=8)
        ocfgs = [dict(prop='oraclex', K=3, NF=1, T=2, vals=[0, 1, 2], combos=COMBOS, stride=1),
                 dict(prop='oraclex', K=2, NF=3, T=2, vals=[0, 1], combos=COMBOS, stride=1)]
        expect = [r.distinct * len(COMBOS), r2.distinct * len(COMBOS)]
        chk.exhaustive = True
    cases = [c for c in assign_cases_from_states(states) if c['alg'] == 'optimal' or q]
    recs = core.run_driver_parallel('align', tier=chk.tier, seed=chk.seed, cases=cases, jobs=8)
    chk.validate('assign-enumerated', 'Trace_Align', 'Trace_Align.cfg', recs, driver='align', jobs=12)
    for i, a in enumerate(ocfgs):
        recs = core.run_driver('align', tier=chk.tier, seed=chk.seed, args=a)
        if expect and len(recs) != expect[i]:
            raise core.MachineryError(f'oracle enumeration {a}: {len(recs)} cases, MC instance has {expect[i]}')
        chk.validate(f'oracle-enumerated-{i}', 'Trace_Align', 'Trace_Align.cfg', recs, driver='align', jobs=12)
    recs = core.run_driver('align', tier=chk.tier, seed=chk.seed, args=dict(prop='C15'))
    chk.validate('float', 'Trace_Align', 'Trace_Align.cfg', recs, driver='align', jobs=12)
    goods = [r for r in recs if r['kind'] == 'apply' and r['exc'] == '' and r['ref']
            and r['mapping'][0][0] != r['mapping'][1][0]]
    good = goods[0] if goods else None

    def corrupt(r):
        r['out'][0][0], r['out'][1][0] = r['out'][1][0], r['out'][0][0]
        return r
    core.binding_demo(chk, 'bind-ref', 'Trace_Align', 'Trace_Align.cfg', good, corrupt, 'equals_ref', candidates=goods[1:])
    chk.assumptions = ['oracle inversion with greedy+multiply is claimed for references with equal-norm rows only '
                       '(for unequal norms the largest product need not be the matching pair; TLC premise)',
                       'float optimality: exact totals by Fraction in the encoder, units eps*sum|S|']


def replay(path):
    return core.replay_generic(path)
