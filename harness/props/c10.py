"""C10 PSD estimate is the mask-weighted mean outer product."""
from .. import core


def run(chk):
    q = chk.tier == 'quick'
    chk.rule = ('M: PSD definition on a tiny lattice (all x over {0,1,i,1+i}^(2x2), all masks): Hermitian, PSD on '
                'lattice probes, mask-scale and layout invariance; G/V: every axis layout (0..3 leading axes, all '
                'sensor/source/time positions, negative and positive dims) with lattice values, exact rational '
                'comparison by TLC of every output element; condition_covariance exact. non-trivial = D>=2, T>=2 '
                'and an off-diagonal entry with non-zero imaginary part')
    chk.mc('psd-lattice', 'MC_Psd', 'MC_Psd_q.cfg' if q else 'MC_Psd.cfg', workers=8)
    recs = core.run_driver('psd', tier=chk.tier, seed=chk.seed)
    chk.validate('psd', 'Trace_Psd', 'Trace_Psd.cfg', recs, driver='psd', jobs=14)
    goods = [r for r in recs if r['kind'] == 'psd' and r['exc'] == '' and r['oshape'][r['sd']] >= 2]
    good = goods[0] if goods else None

    def corrupt(r):
        def first(o):
            while isinstance(o[0][0], list):
                o = o[0]
            return o
        e = first(r['out'])
        e[0] = [e[0][0] + 1, e[0][1]]
        return r
    core.binding_demo(chk, 'bind-value', 'Trace_Psd', 'Trace_Psd.cfg', good, corrupt, 'value', candidates=goods[1:])
    chk.exhaustive = False
    chk.assumptions = ['lattice inputs (Gaussian integers |re|,|im|<=3, masks 0..3 or boolean, optionally scaled); '
                       'outputs enter TLC by rational reconstruction (denominator <= 2^15, 1e-9 relative)']


def replay(path):
    return core.replay_generic(path)
