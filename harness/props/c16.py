"""C16 Blind alignment restores a frequency-consistent class order."""
from .. import core


def run(chk):
    q = chk.tier == 'quick'
    chk.rule = ('M: every DHTV segment configuration for STFT sizes <= MaxStft (plan covers all bins), the shipped '
                'defaults (coverage, 2/3 overlap), the DHTV step machine over all small masks (bijection and net '
                'reordering at every step, run function = machine); G: the same configuration space replayed into '
                'alignment_plan, the machine instance replayed into calculate_mapping (exact, tie-free cases); '
                'V: structured masks with injected permutation fields (consistency, premise evaluated by TLC), '
                'random integer masks (procedure equality). non-trivial = mapping not identity and no tied decision')
    mx = 24 if q else 64
    cfgname = 'MC_Plan_q.cfg' if q else 'MC_Plan_t.cfg'
    r = chk.mc('plan-all', 'MC_Plan', cfgname, workers=8)
    chk.mc('plan-defaults', 'MC_PlanDefaults', 'MC_PlanDefaults.cfg', workers=1)
    recs = core.run_driver('align', tier=chk.tier, seed=chk.seed, args=dict(prop='C16plan', max_stft=mx))
    nvalid = sum(1 for x in recs if x['exc'] == '' and not x['case'].get('default') and x['case']['stft'] <= mx)
    nv0 = len(chk.violations)
    chk.validate('plan-enumerated', 'Trace_Align', 'Trace_Align.cfg', recs, driver='align', jobs=12)
    if nvalid != r.distinct and len(chk.violations) == nv0:
        # (a count that differs BECAUSE the code accepts / rejects other configurations than the specification shows up as
        # rejected records above; only an unexplained difference is an enumeration fault of the machinery)
        raise core.MachineryError(f'plan enumeration: driver {nvalid} valid configurations, MC instance {r.distinct}')
    # DHTV machine
    if q:
        r = chk.mc('dhtv-machine', 'MC_DHTV', 'MC_DHTV_q.cfg', workers=8)
        a = dict(prop='dhtvx', K=2, NF=3, T=1, vals=[0, 1, 2], metrics=['multiply'], algs=['greedy'], stride=3)
        ninit = None
    else:
        r = chk.mc('dhtv-machine', 'MC_DHTV', 'MC_DHTV_t.cfg', workers=12, timeout=7200)
        chk.mc('dhtv-machine-K3', 'MC_DHTV', 'MC_DHTV_t3.cfg', workers=12, timeout=7200)
        a = dict(prop='dhtvx', K=2, NF=3, T=2, vals=[0, 1], metrics=['multiply', 'euclidean'],
                 algs=['greedy', 'optimal'], stride=1)
        ninit = 4096 * 10 * 4
        chk.exhaustive = True
    recs = core.run_driver('align', tier=chk.tier, seed=chk.seed, args=a)
    if ninit and len(recs) != ninit:
        raise core.MachineryError(f'dhtv enumeration {len(recs)} != {ninit}')
    chk.validate('dhtv-enumerated', 'Trace_Align', 'Trace_Align.cfg', recs, driver='align', jobs=14)
    # V
    recs = core.run_driver('align', tier=chk.tier, seed=chk.seed, args=dict(prop='C16'))
    chk.validate('blind', 'Trace_Align', 'Trace_Align.cfg', recs, driver='align', jobs=14)
    goods = [x for x in recs if x['kind'] == 'consist' and x['exc'] == '' and x['aligner'] == 'greedy']
    good = goods[0] if goods else None

    def corrupt(x):
        x['mapping'][0][2], x['mapping'][1][2] = x['mapping'][1][2], x['mapping'][0][2]
        return x
    core.binding_demo(chk, 'bind-consistent', 'Trace_Align', 'Trace_Align.cfg', good, corrupt, 'consistent', candidates=goods[1:])
    # hook decision trace of real DHTV calls (float masks, every metric) against the step machine
    recs = core.run_driver('align', tier=chk.tier, seed=chk.seed, args=dict(prop='C16trace'))
    chk.validate('dhtv-hook-trace', 'Trace_DHTV', 'Trace_DHTV.cfg', recs, driver='align', jobs=14)
    # binding demonstration: drop one hook event (a bin decision) -> the machine must reject the schedule
    from .. import tlc
    tid = [r['tid'] for r in recs if r['kind'] == 'bin'][0]
    one = [dict(r) for r in recs if r['tid'] == tid]
    drop = [i for i, r in enumerate(one) if r['kind'] == 'bin'][0]
    cut = one[:drop] + one[drop + 1:]
    for i, r in enumerate(cut):
        r['id'] = i
    v, _ = tlc.validate_trace('Trace_DHTV', 'Trace_DHTV.cfg', cut, tag='bindhook')
    if not any('schedule' in x['failed'] or 'diverged' in x['failed'] or 'terminated' in x['failed'] for x in v):
        raise core.MachineryError('binding demonstration (dropped hook event) was not rejected')
    chk.parts.append(dict(part='bind-dropped-hook-event', kind='binding-demo', rejected_with='schedule'))
    chk.assumptions = ['DHTV consistency is claimed under the premise evaluated by TLC per case: >= 70 % majority in '
                       'the first segment and OverlapTwoThirds(plan)',
                       'exact procedure replays use integer masks (metrics multiply / euclidean); float masks and cos are covered by '
                       'the hook decision trace validated against the DHTV step machine (Trace_DHTV.tla)']


def replay(path):
    return core.replay_generic(path)
