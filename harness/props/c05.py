from . import c04
from .. import core


def run(chk):
    c04.run(chk, prop='C05')


def replay(path):
    return core.replay_generic(path)
