"""C01 Affiliations are valid distributions and equal the model's Bayes posterior."""
from .. import core


def run(chk):
    q = chk.tier == 'quick'
    chk.rule = ('M: all small posterior problems (weights, likelihoods, source-activity masks, eps): range, sum to one, '
                'zero where inactive, class equivariance, scale freedom; G: the same lattice replayed into '
                'log_pdf_to_affiliation, exact; V: all 7 mixture models x tying options x saliency x mask x eps x '
                'regimes (regular, separable, degenerate, scaled 1e+-150): predict / fit_predict / hooked E-steps must '
                'equal Bayes rule with the model own log_pdf and stored weights; flag initializer exact; iid / deflation '
                'initializers are distributions; inline-aligned E-step of the integration models on the exact lattice. non-trivial = K>=2 and an observation with >=2 classes in (0.01, 0.99)')
    r = chk.mc('posterior-K2N1', 'MC_Posterior', 'MC_Posterior_q.cfg', workers=8)
    expect = r.distinct
    if not q:
        r2 = chk.mc('posterior-K3N1', 'MC_Posterior', 'MC_Posterior_t.cfg', workers=8)
        r3 = chk.mc('posterior-K2N2', 'MC_Posterior', 'MC_Posterior_t2.cfg', workers=8, timeout=3000)
    recs = core.run_driver('mm', tier=chk.tier, seed=chk.seed, args=dict(prop='C01'), timeout=3000)
    nb = sum(1 for x in recs if x['kind'] == 'bayesx' and len(x['w']) == 2 and len(x['w'][0]) == 1)
    if nb != expect:
        raise core.MachineryError(f'lattice enumeration: {nb} driver cases, MC instance {expect}')
    chk.validate('posteriors', 'Trace_MM', 'Trace_MM.cfg', recs, driver='mm', jobs=14)
    # E-step of the integration models with the built-in spatial / spectral alignment: Bayes rule with the STORED weights
    # under a best permutation of the spatial stream (exact lattice, non-uniform weights)
    irecs = core.run_driver('mm', tier=chk.tier, seed=chk.seed, args=dict(prop='inlinepa'))
    chk.validate('inline-pa', 'Trace_MM', 'Trace_MM.cfg', irecs, driver='mm', jobs=12)
    # growth beyond the listed property: the Dirichlet-prior (MAP) weight estimator - exhaustive lattice facts and the code
    chk.mc('dirichlet-weights-lattice', 'MC_Extras', 'MC_Extras_q.cfg' if q else 'MC_Extras.cfg', workers=8)
    drecs = core.run_driver('extras', tier=chk.tier, seed=chk.seed, args=dict(what='dirichlet'))
    chk.validate('dirichlet-weights', 'Trace_Extras', 'Trace_Extras.cfg', drecs, driver='extras', jobs=4, growth=True)
    goods = [x for x in recs if x['kind'] == 'posterior' and x['exc'] == '' and x['full'][-2] >= 2
            and 'call=predict' in x['fp'] and 'sam=False' in x['fp']]
    good = goods[0] if goods else None

    def corrupt(x):
        d = x['aff']['data']
        d[0], d[x['full'][-1]] = d[x['full'][-1]], d[0]
        return x
    core.binding_demo(chk, 'bind-bayes', 'Trace_MM', 'Trace_MM.cfg', good, corrupt, 'bayes', candidates=goods[1:])
    chk.assumptions = ['component likelihoods enter as exp(lp - max_k lp) computed by the encoder from the model own '
                       'log_pdf (the one trusted scalar step); relations in 20-bit Flt, slack 64*2^-19',
                       'explicit exceptions accepted: AssertionError, ValueError, LinAlgError, NotImplementedError']


def replay(path):
    return core.replay_generic(path)
