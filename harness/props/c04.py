"""C04 Spatial models depend only on the direction of each observation vector."""
from .. import core

PROP = 'C04'
RULES = {
    'C04': 'twin runs y versus c*y with per-observation gains |c| in 1e-100..1e100 (1e+-150 thorough), arbitrary phase '
           '(positive real for the vMF streams): fitted canonical parameters (covariances U L U^H, mode outer products, '
           'concentrations, weights), posteriors, log-likelihood and between-class log-density differences must agree; '
           'fresh, pre-used and dimension-given trainers. non-trivial = the compared field is not constant',
    'C05': 'twin runs init versus init[..., pi, :] (mask permuted alike) for all seven trainers, every tying option, '
           'iterations 1/3/5(20): every field of run B must be the class-axis permutation of run A (class axes from the '
           'schema in Model.tla). non-trivial = pi not the identity and fields not constant',
    'C06': 'stacked call versus the call on up to 3 slices (1..3 leading axes, different data per slice) for the mixture '
           'trainers and every single-distribution trainer / log_pdf: each field of the slice run must equal the stacked '
           'field at that leading index; singleton leading axes of the initial affiliation; a stacked call that raises '
           'while the slices succeed is a violation. non-trivial = fields not constant',
}


def run(chk, prop=None):
    prop = prop or PROP
    chk.rule = RULES[prop]
    recs = core.run_driver('twins', tier=chk.tier, seed=chk.seed, args=dict(prop=prop), timeout=3000)
    # stack_parameters / dict round trips are specification growth beyond the listed property (reported separately)
    extra = [r for r in recs if 't=stack_params' in r.get('fp', '')]
    recs = [r for r in recs if 't=stack_params' not in r.get('fp', '')]
    chk.validate('twins', 'Trace_MM', 'Trace_MM.cfg', recs, driver='twins', jobs=14)
    if extra:
        chk.validate('stack-parameters', 'Trace_MM', 'Trace_MM.cfg', extra, driver='twins', jobs=4, growth=True)
    goods = [r for r in recs if r['exc'] == '' and r['A'] and len(r['A'][0]['t']['data']) > 2]
    good = goods[0] if goods else None

    def corrupt(r):
        d = r['B'][0]['t']['data']
        d[0], d[1] = d[1], d[0]
        f = r['B'][0]
        if f['cplx']:
            d[0] = [[d[0][0][0], d[0][0][1] + 3], d[0][1]]
        else:
            d[0] = [d[0][0], d[0][1] + 3]
        return r
    core.binding_demo(chk, 'bind-twin', 'Trace_MM', 'Trace_MM.cfg', good, corrupt, good['A'][0]['name'], candidates=goods[1:])
    chk.assumptions = ['eigenvector-type parameters are compared through their phase-invariant forms computed by the '
                       'driver with NumPy (U diag(l) U^H, w w^H); comparisons in Flt with slack 256*2^-19 of '
                       '|a|+|b|+2^-12 max|field|']


def replay(path):
    return core.replay_generic(path)
