"""C08 Trainers return the documented weighted estimators and EM alternates them."""
from .. import core, enc


def watson_kernel(recs):
    """Kernel table: hypergeometric ratio 1F1(2;D+1;k) / (D 1F1(1;D;k)) at the returned concentrations,
    evaluated with mpmath (independent of SciPy / pb_bss)."""
    import mpmath
    mpmath.mp.dps = 40
    for r in recs:
        kap = r.pop('watson_kappa', None)
        if kap is None:
            continue
        D = r['z']['shape'][-1]
        out = []
        for k in kap:
            if k != k or k in (float('inf'), float('-inf')):
                out.append(enc.flt(float('nan')))
                continue
            v = mpmath.hyp1f1(2, D + 1, k) / (D * mpmath.hyp1f1(1, D, k))
            out.append(enc.flt(float(v)))
        r['watson_ratio'] = out
    return recs


def bingham_grad(lam):
    """d log c / d lambda_e for the complex Bingham normaliser c(lambda) = sum_j exp(lambda_j) prod_{k != j} 1 / (lambda_j -
    lambda_k), in closed form with mpmath (150 digits; coinciding eigenvalues are separated by 1e-20, which changes the
    analytic function by O(1e-20))."""
    import mpmath as mp
    mp.mp.dps = 150
    D = len(lam)
    x = [mp.mpf(v) + j * mp.mpf('1e-20') for j, v in enumerate(lam)]
    a = [mp.mpf(1) / mp.fprod(x[j] - x[k] for k in range(D) if k != j) for j in range(D)]
    c = mp.fsum(mp.e ** x[j] * a[j] for j in range(D))
    out = []
    for d in range(D):
        g = mp.e ** x[d] * a[d] * (1 - mp.fsum(1 / (x[d] - x[k]) for k in range(D) if k != d))
        g += mp.fsum(mp.e ** x[j] * a[j] / (x[j] - x[d]) for j in range(D) if j != d)
        out.append(float(g / c))
    return out


def bingham_kernel(recs):
    """Kernel table for the Bingham eigenvalue equation: gradient of the log normaliser at the returned eigenvalues."""
    for r in recs:
        if r.get('kind') not in ('mstep', 'single'):
            continue
        lam = r.get('bingham_lambda')
        if lam is None:
            r['bingham_lambda'], r['bingham_grad'] = [], []
            continue
        D = r['z']['shape'][-1]
        grad = []
        for i in range(0, len(lam), D):
            row = lam[i:i + D]
            if all(v == v and abs(v) != float('inf') for v in row):
                grad += bingham_grad(row)
            else:
                grad += [float('nan')] * D
        r['bingham_lambda'] = [enc.flt(v) for v in lam]
        r['bingham_grad'] = [enc.flt(v) for v in grad]
    return recs


def run(chk):
    q = chk.tier == 'quick'
    chk.rule = ('M: EMLoop.tla (loop shape, one M-step per iteration, SplitEqualsWhole); exact lattice mixture weights for '
                'every tying option / saliency; V: hook traces of all seven trainers: the event sequence must equal the '
                'EMLoop behaviour, every logged M-step must satisfy the estimator relations on the affiliation / quadratic '
                'form it consumed (cACG Tyler step, Watson eigen-relation + mpmath hypergeometric-ratio kernel, vMF Banerjee '
                'relation, Gaussian moments, weights), every cACG quadratic form must be z^H B_prev^-1 z, inline alignment '
                'permutes affiliation and quadratic form with the aligner own mapping; single-distribution trainers incl. '
                'Tyler fixed point; integer saliency = repetition. non-trivial = K>=2 with non-constant saliency')
    chk.mc('emloop', 'EMLoop', 'MC_EMLoop.cfg', workers=4)
    recs = core.run_driver_parallel('em', tier=chk.tier, seed=chk.seed,
                                    cases=core.run_cases('em', chk.tier, chk.seed, {}), jobs=8, timeout=3000)
    recs = bingham_kernel(watson_kernel(recs))
    al = [r for r in recs if r['kind'] == 'apply']
    mm = [r for r in recs if r['kind'] != 'apply']
    chk.validate('estimators', 'Trace_MM', 'Trace_MM.cfg', mm, driver='em', jobs=14)
    if al:
        chk.validate('inline-alignment', 'Trace_Align', 'Trace_Align.cfg', al, driver='em', jobs=4)
    goods = [r for r in mm if r['kind'] == 'mstep' and r['exc'] == '' and r['comp'] == 'cacg' and r['full'][-2] >= 2]
    good = goods[0] if goods else None

    def corrupt(r):
        for f in r['fields']:
            if f['name'] == 'cacg_eigenvalues':
                d = f['t']['data']
                d[0], d[-1] = d[-1], d[0]
                d[0] = [d[0][0], d[0][1] - 3]
        return r
    core.binding_demo(chk, 'bind-tyler', 'Trace_MM', 'Trace_MM.cfg', good, corrupt, 'cacg_tyler_step', candidates=goods[1:])
    chk.assumptions = ['observations enter on the unit sphere (normalised by the driver; C04 covers the normalisation)',
                       'Watson concentration: mpmath kernel, tolerance 4096*2^-19 for the spline inverse',
                       'Bingham eigenvalue equation: mpmath kernel (closed-form gradient of the log normaliser), evaluated where '
                       'the solver box is inactive (eigenvalue gaps within (2^-6, max_concentration (1 - 2^-8)))']


def replay(path):
    return core.replay_generic(path)
