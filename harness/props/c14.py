"""C14 Permutation alignment only reorders classes."""
import os

from .. import core, tlc

BUILD = os.path.join(core.VERIF, 'build')


def assign_cases_from_states(states):
    cases = []
    for st in states:
        for alg in ('greedy', 'optimal'):
            cases.append(dict(t='assign_int', S=st['S'], alg=alg, batch=0))
    return cases


def run(chk):
    q = chk.tier == 'quick'
    chk.rule = ('M: every K x K score matrix over a small grid (TLC enumerates, invariants: bijection, '
                'optimal = max, optimal >= greedy); G: each enumerated matrix replayed into '
                '_mapping_from_score_matrix (both algorithms) and compared by TLC; V: random float/int '
                'matrices, aligners on degenerate masks. non-trivial = mapping differs from identity in >= 1 bin')
    # ---- M (live) ----
    if q:
        chk.mc('assign-K2', 'MC_Assignment', 'MC_Assignment_K2.cfg', workers=4)
        states, _ = core.tlc_dump_states('MC_Assignment', 'MC_Assignment_K3.cfg',
                                         cache=os.path.join(BUILD, 'assign_k3.states.json'))
        live, _ = core.tlc_dump_states('MC_Assignment', 'MC_Assignment_K2.cfg')
        states = live + states[:: 7]
    else:
        states, res = core.tlc_dump_states('MC_Assignment', 'MC_Assignment_K3.cfg', workers=8)
        chk.states += res.distinct
        chk.transitions += res.states
        s4, res4 = core.tlc_dump_states('MC_Assignment', 'MC_Assignment_K4.cfg', workers=8)
        chk.states += res4.distinct
        chk.transitions += res4.states
        states = states + s4
        chk.exhaustive = True
    # ---- G: TLC-enumerated matrices replayed into the code, decided by TLC ----
    cases = assign_cases_from_states(states)
    recs = core.run_driver_parallel('align', tier=chk.tier, seed=chk.seed, cases=cases, jobs=8)
    chk.validate('assign-enumerated', 'Trace_Align', 'Trace_Align.cfg', recs, driver='align', jobs=12)
    # ---- V ----
    recs = core.run_driver('align', tier=chk.tier, seed=chk.seed, args=dict(prop='C14'))
    chk.validate('aligners', 'Trace_Align', 'Trace_Align.cfg', recs, driver='align', jobs=12)
    # ---- binding demonstration: corrupt one mapping entry of an accepted record ----
    goods = [r for r in recs if r['kind'] == 'apply' and r['exc'] == '' and len(r['mask']) >= 2]
    good = goods[0] if goods else None

    def corrupt(r):
        r['mapping'][0][0] = r['mapping'][1][0]
        return r
    core.binding_demo(chk, 'bind-perm', 'Trace_Align', 'Trace_Align.cfg', good, corrupt, 'perm', candidates=goods[1:])
    # built-in spatial/spectral alignment of the integration models (never worse than the identity)
    chk.mc('inline-pa', 'MC_InlinePA', 'MC_InlinePA_q.cfg' if q else 'MC_InlinePA.cfg', workers=8)
    irecs = core.run_driver('mm', tier=chk.tier, seed=chk.seed, args=dict(prop='inlinepa'))
    chk.validate('inline-pa', 'Trace_MM', 'Trace_MM.cfg', irecs, driver='mm', jobs=12)
    # helpers the aligners build on (interleave, sample_random_mapping, ...): Utils.tla
    chk.mc('layout-helpers', 'MC_Utils', 'MC_Utils.cfg', workers=8)
    frecs = core.run_driver('mm', tier=chk.tier, seed=chk.seed, args=dict(prop='inlinepaf'))
    chk.validate('inline-pa-float', 'Trace_MM', 'Trace_MM.cfg', frecs, driver='mm', jobs=4)
    # alignment inside EM (hooked CACGMM fits with an inline aligner, with and without a source-activity mask): the align
    # event must be a pure class reordering of the E-step event, for posteriors and quadratic forms alike
    erecs = core.run_driver_parallel('em', tier=chk.tier, seed=chk.seed, cases=core.run_cases('em', chk.tier, chk.seed, dict(prop='C14')),
                                     jobs=8, timeout=3000)
    arecs = [r for r in erecs if r['kind'] == 'apply']
    if arecs:
        chk.validate('em-inline-alignment', 'Trace_Align', 'Trace_Align.cfg', arecs, driver='em', jobs=4)
    # generalised reshape: the exhaustive instance MC_Reshape is the case set (TLC dump replayed into pb_bss.utils.reshape)
    from ..casegen import reshape_cases
    states, res = core.tlc_dump_states('MC_Reshape', 'MC_Reshape_q.cfg' if q else 'MC_Reshape.cfg', workers=8)
    chk.parts.append(dict(part='reshape-instance', kind='model-check', module='MC_Reshape', distinct=res.distinct,
                          invariants=['ValidInv', 'RearrangementInv', 'InverseInv', 'FlattenInv']))
    chk.states += res.distinct
    rcases = reshape_cases(states, stride=7 if q else 1)
    rrecs = core.run_driver('utils', tier=chk.tier, seed=chk.seed, cases=rcases)
    chk.validate('reshape', 'Trace_Utils', 'Trace_Utils.cfg', rrecs, driver='utils', jobs=8, growth=True)
    urecs = core.run_driver('utils', tier=chk.tier, seed=chk.seed)
    chk.validate('layout-helpers', 'Trace_Utils', 'Trace_Utils.cfg', urecs, driver='utils', jobs=6, growth=True)
    chk.assumptions = ['row identity of masks is decided by byte equality of rows (driver)',
                       'scores of float matrices enter TLC as dense ranks (greedy) / exact Fraction gaps (optimal)']


def replay(path):
    return core.replay_generic(path)
