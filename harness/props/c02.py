"""C02 EM iterations never decrease the mixture log-likelihood."""
import math

from .. import core, enc


def exp_kernel(recs):
    for r in recs:
        a = r.pop('kexp_args', None)
        if a is None:
            continue
        data = []
        for x in a:
            v = math.exp(x) if x < 700 else float('inf')
            data.append(dict(arg=enc.flt(x), val=enc.flt(v)))
        r['kexp'] = dict(shape=r['full'], data=data)
    return recs


def run(chk):
    chk.rule = ('hook traces of fit(iterations=n) for cACGMM (all tying options, covariance norms, saliency), cWMM, GMM '
                '(full / diagonal / spherical, data offsets up to 1e7) and GCACGMM with unit stream weights, N >= 4KD, '
                'strictly positive starts: per M-step TLC accepts the per-observation log-likelihoods only if '
                'sum_k w_k exp(lp_k - ell) = 1 (Exp kernel arguments checked), sums LL, carries it as state across the '
                'iterations of a fit and requires LL(t+1) >= LL(t) - slack whenever no guard is active (guards evaluated by '
                'TLC); CACGMM.log_likelihood must equal LL. non-trivial = guard-free step with a real increase')
    recs = core.run_driver_parallel('ll', tier=chk.tier, seed=chk.seed, cases=core.run_cases('ll', chk.tier, chk.seed, {}),
                                    jobs=8, timeout=3000)
    recs = exp_kernel(recs)
    chk.validate('ll-traces', 'Trace_LL', 'Trace_LL.cfg', recs, driver='ll', jobs=14)
    chk.assumptions = ['component log-pdfs come from the model own log_pdf (C07 decides those); Exp kernels by math.exp',
                       'LL differences below 64*2^-19 * sum|ell_n| (about 1e-4 relative) are invisible',
                       'monotonicity as a theorem is not claimed: decided per recorded trajectory']


def replay(path):
    return core.replay_generic(path)
