"""C12 GEV and PCA beamformers maximise their Rayleigh quotients; BAN only rescales."""
from . import c11
from .. import core


def run(chk):
    c11.run(chk, prop='C12')


def replay(path):
    return core.replay_generic(path)
