"""C13 Beamforming helpers agree with their primitives and act per leading index."""
from .. import core
from ..drivers_meta import name_cases


def run(chk):
    chk.rule = ('M: grammar of get_bf_vector names (all accepted names with/without +ban, ch0..ch7, rejected names) '
                'with pipeline invariants; G: every name TLC enumerates is replayed: get_bf_vector(name) must be '
                'bit-identical to the composition of primitives the specification prescribes (explicit reference '
                'channels, atf_kwargs); V: apply_beamforming_vector, phase_correction per leading index (F >= 3), '
                'stacked versus per-slice calls of every beamformer, singular / zero PSD bins. non-trivial = name '
                'with pre-step or +ban; stacks with >= 2 differing slices')
    states, res = core.tlc_dump_states('MC_BfName', 'MC_BfName.cfg', workers=1)
    chk.states += res.distinct
    chk.transitions += res.states
    chk.exhaustive = True
    cases = name_cases(states, chk.seed, reps=2 if chk.tier == 'quick' else 6)
    recs = core.run_driver('beam', tier=chk.tier, seed=chk.seed, cases=cases)
    chk.validate('names', 'Trace_Beam', 'Trace_Beam.cfg', recs, driver='beam', jobs=8)
    goods = [r for r in recs if r['name'] == 'rank1_gev+mvdr_souden+ban']
    good = goods[0] if goods else None

    def corrupt(r):
        r['d_direct'] = r['d_direct'][::-1]
        return r
    core.binding_demo(chk, 'bind-name', 'Trace_Beam', 'Trace_Beam.cfg', good, corrupt, 'identical', candidates=goods[1:])
    recs = core.run_driver('beam', tier=chk.tier, seed=chk.seed, args=dict(prop='C13'))
    chk.validate('helpers', 'Trace_Beam', 'Trace_Beam.cfg', recs, driver='beam', jobs=14)
    # growth beyond the listed property: stable_solve (minimum-norm least squares for the members LAPACK reports singular)
    # and get_mvdr_vector_merl (Souden filter of the reference with the best post-filter SNR), spec/Extras.tla
    xrecs = core.run_driver('extras', tier=chk.tier, seed=chk.seed, args=dict(what='beam'))
    chk.validate('solve-merl', 'Trace_Extras', 'Trace_Extras.cfg', xrecs, driver='extras', jobs=8, growth=True)
    sgoods = [r for r in xrecs if r['kind'] == 'solve' and r['exc'] == '' and r['items'] and len(r['items'][0]['x']) >= 2
              and r['items'][0]['x'][0] != r['items'][0]['x'][1]]

    def corrupt_x(r):
        x = r['items'][0]['x']
        x[0], x[1] = x[1], x[0]
        return r
    core.binding_demo(chk, 'bind-solve', 'Trace_Extras', 'Trace_Extras.cfg', sgoods[0] if sgoods else None, corrupt_x,
                      'regular_members_solved', candidates=sgoods[1:])
    chk.assumptions = ['bit-identity is decided on digests of the complex128 result arrays',
                       'GEV / PCA stacked-vs-slice comparison after aligning the unit phase of each vector']


def replay(path):
    return core.replay_generic(path)
