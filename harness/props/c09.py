"""C09 Fitted parameters stay inside their documented domain."""
from .. import core


def run(chk):
    chk.rule = ('all seven trainers x tying options x covariance norms x regimes (regular, separable, degenerate: zero / '
                'duplicated / collinear / too few frames, 1e+-150 scaled) x soft and hard one-hot starts: TLC evaluates '
                'Domain(model): finite, weight shape from the schema, weights >= 0 summing to one (K*eps), cACG '
                'eigenvectors unitary and eigenvalues in [floor, 1] with maximum exactly 1 (trace norm: unit trace up to '
                'flooring), Watson / vMF unit modes and concentration ranges, Gaussian covariance symmetric PD by Cholesky '
                'certificate, Bingham eigenvalues <= 0 with maximum exactly 0. non-trivial = a guard was active or '
                'degenerate data / hard start')
    recs = core.run_driver('mm', tier=chk.tier, seed=chk.seed, args=dict(prop='C09'), timeout=3000)
    chk.validate('domain', 'Trace_MM', 'Trace_MM.cfg', recs, driver='mm', jobs=14)
    goods = [r for r in recs if r['exc'] == '' and any(f['name'] == 'cacg_eigenvalues' for f in r['fields']) and r['norm'] == 'eigenvalue']
    good = goods[0] if goods else None

    def corrupt(r):
        for f in r['fields']:
            if f['name'] == 'cacg_eigenvalues':
                f['t']['data'] = [[x[0], x[1] + 1] for x in f['t']['data']]
        return r
    core.binding_demo(chk, 'bind-domain', 'Trace_MM', 'Trace_MM.cfg', good, corrupt, 'cacg_eigenvalue_le_one', candidates=goods[1:])
    chk.assumptions = ['Cholesky factor of Gaussian covariances computed by NumPy in the driver and verified by TLC '
                       '(L L^T = Sigma, positive diagonal)', 'explicit exceptions are accepted for degenerate inputs']


def replay(path):
    return core.replay_generic(path)
