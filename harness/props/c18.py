"""C18 Oracle masks satisfy their defining identities in every axis layout."""
from .. import core


def run(chk):
    chk.rule = ('every (source_axis, sensor_axis, keepdims) layout of rank 1..4 tensors enumerated, values from the '
                'modulus-exact Gaussian-integer lattice incl. zeros and tied powers; every output element compared '
                'exactly by TLC with the value Masks.tla defines (IBM first arg-max, Wiener/ratio shares, ICM, '
                'PSM = Re ICM, quantile / Lorenz level sets). non-trivial = >= 2 sources with power at a point and a '
                'non-default layout (quantile/Lorenz: both levels occur)')
    chk.mc('mask-definitions', 'MC_Masks', 'MC_Masks.cfg', workers=8)
    recs = core.run_driver('masks', tier=chk.tier, seed=chk.seed)
    chk.validate('masks', 'Trace_Masks', 'Trace_Masks.cfg', recs, driver='masks', jobs=14)
    goods = [r for r in recs if r['fn'] == 'wiener' and r['exc'] == '' and len(r['shape']) >= 2]
    good = goods[0] if goods else None

    def corrupt(r):
        o = r['out']
        while isinstance(o[0][0], list):
            o = o[0]
        o[0] = [o[0][0] + 1, o[0][1] + 1]
        return r
    core.binding_demo(chk, 'bind-value', 'Trace_Masks', 'Trace_Masks.cfg', good, corrupt, 'value', candidates=goods[1:])
    chk.assumptions = ['inputs are lattice valued (Gaussian integers with integer modulus)',
                       'points exactly on a quantile / Lorenz threshold may take either level (float rounding of '
                       'the quantile argument); amplitude mask is not covered']


def replay(path):
    return core.replay_generic(path)
