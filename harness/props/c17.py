"""C17 The documented pipeline separates a separable multi-channel scene."""
from .. import core


def run(chk):
    chk.rule = ('synthetic STFT scenes (K 2..3, D K+1..8, F 33/65/257, T 60..200, random steering vectors, -40 dB noise, '
                'per-frequency permuted blurred start with 85 % majority in the first DHTV segment): the chain cACGMM/cWMM -> '
                'DHTV -> oracle global alignment -> mask PSDs -> get_bf_vector -> apply -> output_sxr is executed by the real '
                'code; TLC computes arg-max accuracy (>= 99 %), the class bookkeeping (field o mapping constant over '
                'frequency, global mapping), sums signal and interference powers of the beamformed contributions (SIR >= 30 dB '
                'per source and beamformer) and cross-checks output_sxr. non-trivial = non-constant permutation field')
    recs = core.run_driver_parallel('pipeline', tier=chk.tier, seed=chk.seed,
                                    cases=core.run_cases('pipeline', chk.tier, chk.seed, {}), jobs=8, timeout=3000)
    chk.validate('pipeline', 'Trace_Pipeline', 'Trace_Pipeline.cfg', recs, driver='pipeline', jobs=14)
    goods = [r for r in recs if r['kind'] == 'scene' and r['exc'] == '']
    good = goods[0] if goods else None

    def corrupt(r):
        r['gmap'] = r['gmap'][1:] + r['gmap'][:1]
        return r
    core.binding_demo(chk, 'bind-global', 'Trace_Pipeline', 'Trace_Pipeline.cfg', good, corrupt, 'global_mapping', candidates=goods[1:])
    chk.assumptions = ['powers are summed by TLC over a frequency subsample of <= 33 bins of the beamformed contributions',
                       'separation quality is decided per generated scene (no theorem); feasibility margin > 20 dB']


def replay(path):
    return core.replay_generic(path)
