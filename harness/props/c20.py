"""C20 Calls are pure: inputs untouched, results reproducible and history-free."""
from .. import core


def run(chk):
    q = chk.tier == 'quick'
    chk.rule = ('M: Session.tla over all histories of <= 5 operations on <= 2 reused trainers (ImplRefinesAbs, '
                'RejectsOnlyMismatch, TableConsistent) and EMLoop.tla (SplitEqualsWhole for all splits of budget <= 6); '
                'G: TLC-simulated Session behaviours replayed into real trainer objects, the trace spec takes the same '
                'New / Fit actions and compares accepted / dimension / result classes (fresh-trainer digest, functional '
                'memo); V: registry of public entry points called with read-only arrays (arguments unchanged, result '
                'reproducible after re-seeding), cACGMM split fits versus uninterrupted fits. non-trivial = call with >= 1 '
                'array argument; >= 2 operations on the same session')
    chk.mc('session', 'Session', 'MC_Session_q.cfg' if q else 'MC_Session.cfg', workers=8, timeout=3000)
    chk.mc('emloop', 'EMLoop', 'MC_EMLoop.cfg', workers=4)
    behaviours = core.tlc_simulate('Session', 'MC_Session_sim.cfg', num=12 if q else 150, depth=8, seed=chk.seed + 1)
    # second stream restricted to the trainers with an iterative numeric solver (Bingham), default concentration limit
    behaviours += core.tlc_simulate('Session', 'MC_Session_simb.cfg', num=16 if q else 100, depth=8, seed=chk.seed + 2)
    # third stream: Watson-type trainers (lazily built inverse tables) with several concentration limits at one dimension
    behaviours += core.tlc_simulate('Session', 'MC_Session_simw.cfg', num=12 if q else 80, depth=8, seed=chk.seed + 3)
    cases = []
    for b, beh in enumerate(behaviours):
        hist = beh[-1][1]['hist']
        if hist:
            cases.append(dict(t='behaviour', bid=b + 1, hist=hist))
    recs = core.run_driver('session', tier=chk.tier, seed=chk.seed, cases=cases)
    # the same fits in a second, fresh interpreter process, fresh trainers, reverse order of first occurrence: state kept
    # anywhere in the process (module-level tables, caches) makes the two processes disagree on some key
    keys = []
    for r in recs:
        if r['kind'] == 'fit' and r.get('accepted') and r['argdigest'] not in keys:
            keys.append(r['argdigest'])
    ref = core.run_driver('session', tier=chk.tier, seed=chk.seed, cases=[dict(t='ref', keys=keys[::-1])])
    digests = ref[0]['digests'] if ref else {}
    for r in recs:
        if r['kind'] == 'fit' and r.get('accepted'):
            r['d_proc'] = digests.get(r['argdigest'], '')
    chk.validate('session-behaviours', 'Trace_Session', 'Trace_Session.cfg', recs, driver='session', jobs=8)
    recs = core.run_driver('session', tier=chk.tier, seed=chk.seed, args=dict(what='calls'), timeout=3000)
    chk.validate('public-calls', 'Trace_Session', 'Trace_Session.cfg', recs, driver='session', jobs=8)
    goods = [r for r in recs if r['exc'] == '' and r['nargs'] >= 1]
    good = goods[0] if goods else None

    def corrupt(r):
        r['args_same'] = False
        return r
    core.binding_demo(chk, 'bind-purity', 'Trace_Session', 'Trace_Session.cfg', good, corrupt, 'args_unchanged', candidates=goods[1:])
    recs = core.run_driver('session', tier=chk.tier, seed=chk.seed, args=dict(what='splits'), timeout=3000)
    chk.validate('split-fits', 'Trace_MM', 'Trace_MM.cfg', recs, driver='session', jobs=8)
    chk.assumptions = ['result identity is decided on byte digests; the abstract function of a fit is evaluated by a '
                       'fresh trainer object of the same class (history-freedom is a relation between two executions)',
                       'split fits are compared in Flt (slack 64*2^-19)']


def replay(path):
    return core.replay_generic(path)
