"""C03 The true partition of separable data is a stable EM fixed point."""
from .. import core


def run(chk):
    chk.rule = ('prototype sets with pairwise |cos| <= 0.3, perturbation 1e-4..1e-2, class sizes >= D+2, optional per-frame '
                'gains, blurred true partition (blur < 0.45), all seven models, iterations 1/2/5/20: TLC computes the arg-max '
                'over the class axis of the posterior (first maximum) and requires it to equal the truth for every '
                'observation, and the fitted parameters to point at the prototypes (p^H B p >= (1-1/16) lambda_max |p|^2, '
                'Watson / vMF modes, Gaussian means). non-trivial = K >= 2')
    recs = core.run_driver_parallel('fixedpoint', tier=chk.tier, seed=chk.seed,
                                    cases=core.run_cases('fixedpoint', chk.tier, chk.seed, {}), jobs=8, timeout=3000)
    chk.validate('fixed-point', 'Trace_MM', 'Trace_MM.cfg', recs, driver='fixedpoint', jobs=14)
    goods = [r for r in recs if r['exc'] == '' and r['full'][1] >= 2]
    good = goods[0] if goods else None

    def corrupt(r):
        d = r['truth']['data']
        d[0] = (d[0] + 1) % r['full'][1]
        return r
    core.binding_demo(chk, 'bind-argmax', 'Trace_MM', 'Trace_MM.cfg', good, corrupt, 'argmax_is_truth', candidates=goods[1:])
    chk.assumptions = ['stability of the fixed point is decided per recorded execution (no theorem)',
                       'canonical parameter forms computed by the driver with NumPy']


def replay(path):
    return core.replay_generic(path)
