"""Case builders that run in the orchestrator (no pb_bss import)."""


def name_cases(states, seed, reps=1):
    out = []
    for st in states:
        for rep in range(reps):
            out.append(dict(t='name', name=st['name'], pipeline=st['pipe'], D=3 + rep, F=2 + rep,
                            seed=seed * 1000 + len(out), refch=[None, 0, 1][rep % 3]))
    return out
