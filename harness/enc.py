"""Encoders: Python / NumPy numbers -> the integer-only JSON the TLA+ specs read.

Only ints and strings are emitted (TLC ints are 32 bit; Json floats are unreliable).
 flt(x)  -> [m, e]  (x ~ m*2^e, 2^19<=|m|<2^20 or [0,0]); nan/+inf/-inf -> [1,0]/[2,0]/[-2,0] (invalid Flt)
 zflt(z) -> [flt(re), flt(im)]
 rat(x)  -> [p, q] with q<=2^15 and |x-p/q| <= 1e-9*max(1,|x|), else [0,0]; nan [0,-1], +-inf [+-1,0]
 crat(z) -> [rat(re), rat(im)]
 ranks(a)-> dense ranks (0 = smallest; ties share a rank)
 digest  -> hex digest of dtype, shape and bytes
"""
import hashlib
import math
from fractions import Fraction

import numpy as np

P19 = 1 << 19
P20 = 1 << 20


NAN_F, PINF_F, NINF_F = [1, 0], [2, 0], [-2, 0]      # not valid Flt values: IsFlt rejects them
IRR_R, NAN_R, PINF_R, NINF_R = [0, 0], [0, -1], [1, 0], [-1, 0]   # denominators <= 0: IsRat rejects them


def flt(x):
    x = float(x)
    if math.isnan(x):
        return list(NAN_F)
    if math.isinf(x):
        return list(PINF_F) if x > 0 else list(NINF_F)
    if x == 0.0:
        return [0, 0]
    m, e = math.frexp(x)
    M = int(round(m * P20))
    E = e - 20
    if abs(M) >= P20:
        M //= 2 if M > 0 else 1
        if M < 0:
            M = -((-M) // 2)
        E += 1
    if abs(M) < P19:  # cannot happen for normal numbers; subnormals handled by frexp
        while abs(M) < P19:
            M *= 2
            E -= 1
    return [M, E]


def unflt(v):
    if v == NAN_F:
        return math.nan
    if v == PINF_F:
        return math.inf
    if v == NINF_F:
        return -math.inf
    return math.ldexp(v[0], v[1])


def zflt(z):
    z = complex(z)
    return [flt(z.real), flt(z.imag)]


def rat(x, max_den=1 << 15, rel=1e-9):
    x = float(x)
    if math.isnan(x):
        return list(NAN_R)
    if math.isinf(x):
        return list(PINF_R) if x > 0 else list(NINF_R)
    fr = Fraction(x).limit_denominator(max_den)
    if abs(float(fr) - x) <= rel * max(1.0, abs(x)) and abs(fr.numerator) < (1 << 30):
        return [fr.numerator, fr.denominator]
    return list(IRR_R)


def crat(z, **kw):
    z = complex(z)
    return [rat(z.real, **kw), rat(z.imag, **kw)]


def _map(a, f):
    a = np.asarray(a)
    if a.ndim == 0:
        return f(a.item())
    return [_map(x, f) for x in a]


def aflt(a):
    a = np.asarray(a)
    if np.iscomplexobj(a):
        return _map(a, zflt)
    return _map(a.astype(np.float64), flt)


def azflt(a):
    return _map(np.asarray(a).astype(np.complex128), zflt)


def arat(a, **kw):
    a = np.asarray(a)
    if np.iscomplexobj(a):
        return _map(a, lambda z: crat(z, **kw))
    return _map(a.astype(np.float64), lambda x: rat(x, **kw))


def acrat(a, **kw):
    return _map(np.asarray(a).astype(np.complex128), lambda z: crat(z, **kw))


def aint(a):
    a = np.asarray(a)
    return _map(a, lambda x: int(x))


def acint(a):
    """complex array with integer parts -> [[re,im],...]"""
    a = np.asarray(a).astype(np.complex128)

    def f(z):
        z = complex(z)
        assert z.real == int(z.real) and z.imag == int(z.imag), z
        return [int(z.real), int(z.imag)]
    return _map(a, f)


def ranks(a):
    a = np.asarray(a, dtype=np.float64)
    if not np.all(np.isfinite(a)):
        raise ValueError('ranks of non-finite')
    u, inv = np.unique(a.ravel(), return_inverse=True)
    return inv.reshape(a.shape).astype(int).tolist()


def digest(a):
    a = np.ascontiguousarray(np.asarray(a))
    h = hashlib.sha1()
    h.update(str(a.dtype).encode())
    h.update(str(a.shape).encode())
    h.update(a.tobytes())
    return h.hexdigest()[:16]


def shape(a):
    return [int(s) for s in np.shape(a)]


def exc_name(e):
    return type(e).__name__
